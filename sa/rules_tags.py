# -*- coding: utf-8 -*-
"""C07 / C08 tag expressions: the repository's glue around cucumber_tag_expressions.

  T1  Matcher.evaluate is 'some tag fnmatchcase-matches the pattern' and nothing else
  T2  make_operand: Matcher iff the text contains wildcards, else Literal
  T3  Expression.check is installed and delegates to evaluate
  T4  list form: every term parenthesised, joined with the grammar's AND keyword; no '@' is
      left in the text handed to the parser
  T5  {config.tags}: the placeholder is replaced by the PRINTED parsed config expression; the
      protocol is selected (unconditionally) before any expression is parsed
  U1  v1 check(): conjunction over argument groups of a disjunction over alternatives, '-' negates
      (complete truth tables over a two-tag universe); v1 parsing keeps the negation whatever
      '@', '~', ':limit' decoration a tag carries
  U2  dialect auto-detection decision table; parentheses are separated before words are classified
  U3  keyword tables agree (v2 keywords vs. the third-party Token table; v1 NOT prefixes vs. normalize_tag)
  U4  protocol dispatch
"""
from __future__ import annotations

import ast
import itertools
import os

from .index import AnalysisError, ClassInfo, EnumVal, unparse, NotConst
from .values import Top, HObj, Ref, Exc, State, ClassVal, GE2
from .absint import Interp
from .report import Finding

WHAT = {
    "T1": "wildcard operand is true iff some tag matches the pattern with fnmatchcase (case-sensitive), decided by nothing else",
    "T2": "operand factory: Matcher for text with wildcards, Literal otherwise",
    "T3": "Expression.check patched in and delegating to evaluate",
    "T4": "v2 list form: terms parenthesised and AND-ed; '@' removed everywhere before parsing",
    "T5": "{config.tags} replaced by the printed parsed config expression; protocol selected before parsing, unconditionally",
    "U1": "v1 semantics: AND of OR-groups with '-' negation (truth tables); negation survives '@', '~' and ':limit' decoration",
    "U2": "auto-detection decision table and word splitting (parentheses separated first)",
    "U3": "keyword tables agree with the third-party grammar and with normalize_tag",
    "U4": "protocol dispatch V1 / V2 / AUTO_DETECT",
    "U5": "the configured protocol is installed unconditionally before any expression is parsed (process-wide slot)",
}


def _fail(chk, rule, func, witness, text, path=()):
    chk.fail(Finding(rule, func.fullname, witness, text, file=func.file, line=func.lineno, stmt="def " + func.name, path=list(path)))


class TagTok(object):
    """an opaque tag / pattern text"""
    abs_type = "str"

    def __init__(self, name):
        self.name = name

    def __repr__(self):
        return "Tag(%s)" % self.name

    def abs_truth(self):
        return True

    consulted = 0       # string predicates asked of an opaque tag/pattern (other than through fnmatchcase)

    def abs_call(self, it, st, name, args, kwargs, node):
        TagTok.consulted += 1
        if name in ("startswith", "endswith", "isalnum"):
            return [(st, "val", Top("bool?tag.%s" % name, True))]
        return [(st, "val", TagTok(self.name + "." + name))]

    def abs_item(self, it, st, idx, node):
        return TagTok(self.name + "[]")

    def abs_contains(self, item):
        TagTok.consulted += 1
        return Top("bool?in-tag", True)


# ----------------------------------------------------------------------
# C07
# ----------------------------------------------------------------------
def check_matcher(chk, ix):
    chk.rule("T1", WHAT["T1"])
    mc = ix.cls("behave.tag_expression.model:Matcher")
    f = mc.lookup("evaluate")
    for results in [r for n in (0, 1, 2, 3) for r in itertools.product((False, True), repeat=n)]:
        calls = []

        def fnm(it, st, args, kw, node, _r=results):
            calls.append(args)
            i = int(args[0].name[1:])
            return [(st, "val", _r[i])]
        it = Interp(ix, stubs={"fnmatch.fnmatchcase": fnm, "fnmatchcase": fnm,
                               "fnmatch.fnmatch": lambda i, s, a, k, n: [(s, "val", Top("bool?fnmatch (case-insensitive on some platforms)", True))]},
                    name="Matcher.evaluate")
        st = State()
        st.frames = []
        TagTok.consulted = 0
        pat = TagTok("pattern")
        me = st.alloc(HObj(mc, {}, label="matcher"))
        tags = tuple(TagTok("t%d" % i) for i in range(len(results)))
        outs = []
        for (s1, k1, v1) in it.call_function(st, mc.lookup("__init__"), [pat], {}, None, self_val=me):
            if k1 != "val":
                outs.append((s1, k1, v1))
                continue
            outs.extend(it.call_function(s1, f, [tags], {}, None, self_val=me))
        chk.absorb(it)
        chk.instance("T1")
        want = any(results)
        vals = {v for (_, k, v) in outs if k == "val"}
        ok = len(outs) >= 1 and all(k == "val" for _, k, _ in outs) and vals == {want} and all(len(c) == 2 and c[1] is pat for c in calls)
        undecided = TagTok.consulted > 0
        if ok:
            chk.ok("T1", {"fnmatchcase_results": list(results), "evaluate": want}, nontrivial_key=results)
        elif undecided:
            # some path decides by something else than fnmatchcase(tag, pattern): not refuted here, the
            # concrete pattern/tag universe below decides it
            chk.ok("T1", {"fnmatchcase_results": list(results), "evaluate": "decided by other string tests on some path: see concrete universe"})
            chk.notes.append("T1: Matcher.evaluate has a path not decided by fnmatchcase alone; decided on the concrete universe only")
        else:
            _fail(chk, "T1", f, "fnmatchcase=%s -> %s" % (list(results), sorted(map(repr, vals))),
                  "Matcher.evaluate with per-tag fnmatchcase results %s yields %s (expected exactly %s): the result is not "
                  "determined by case-sensitive fnmatch of each tag against the whole pattern" % (list(results), sorted(map(repr, vals)), want),
                  outs[0][0].path if outs else ())
    # -- concrete universe: constant propagation through __init__/evaluate; fnmatch.fnmatchcase (stdlib, trusted) folds constants
    import fnmatch as _fn
    patterns = ["foo*", "fo?*", "[fg]oo*", "*oo", "f*o", "Foo*", "foo.*", "?", "*", "a[*]", "foo.ba?", "fo[!o]*"]
    tagsets = [(), ("foo",), ("fob",), ("goo",), ("Foo",), ("foo.bar",), ("fo?x",), ("a*",), ("x", "foo"), ("FOO", "zoo"), ("fox", "foo.baz")]
    it = Interp(ix, stubs={"fnmatch.fnmatchcase": lambda i, s, a, k, n: [(s, "val", _fn.fnmatchcase(a[0], a[1]))],
                           "fnmatchcase": lambda i, s, a, k, n: [(s, "val", _fn.fnmatchcase(a[0], a[1]))],
                           "fnmatch.fnmatch": lambda i, s, a, k, n: [(s, "val", _fn.fnmatchcase(a[0].lower(), a[1].lower()))],
                           "fnmatch": lambda i, s, a, k, n: [(s, "val", _fn.fnmatchcase(a[0].lower(), a[1].lower()))]},
                name="Matcher.evaluate concrete")
    it.int_sat = 50
    it.fold_regex = True
    for p_ in patterns:
        for ts in tagsets:
            st = State()
            st.frames = []
            me = st.alloc(HObj(mc, {}, label="matcher"))
            outs = []
            for (s1, k1, v1) in it.call_function(st, mc.lookup("__init__"), [p_], {}, None, self_val=me):
                outs.extend(it.call_function(s1, f, [ts], {}, None, self_val=me) if k1 == "val" else [(s1, k1, v1)])
            chk.instance("T1")
            want = any(_fn.fnmatchcase(t, p_) for t in ts)
            vals = [v if k == "val" else repr(v) for (_, k, v) in outs]
            if vals and all(v is want for v in vals):
                chk.ok("T1", {"pattern": p_, "tags": list(ts), "evaluate": want}, nontrivial_key=(p_, ts))
            elif vals and all(isinstance(v, Top) or v is want for v in vals):
                raise AnalysisError("Matcher.evaluate not foldable on pattern %r tags %r: %r" % (p_, ts, vals))
            else:
                _fail(chk, "T1", f, "pattern %r tags %r -> %r" % (p_, list(ts), vals),
                      "Matcher(%r).evaluate(%r) yields %r; case-sensitive fnmatch of the tags against the pattern gives %s" % (p_, list(ts), vals, want),
                      outs[0][0].path if outs else ())
    chk.absorb(it)
    chk.require_instances("T1", 140)
    # contains_wildcards: by evaluation against glob.has_magic (stdlib, trusted), and make_operand on the same texts
    import glob as _glob
    chk.rule("T2", WHAT["T2"])
    pc = ix.cls("behave.tag_expression.parser:TagExpressionParser")
    mo = pc.lookup("make_operand")
    if mo is None:
        raise AnalysisError("anchor missing: TagExpressionParser.make_operand")
    texts = ["foo", "foo*", "f?o", "[ab]c", "x[12]", "lvl[2-3]x", "a.b", "foo]", "x[", "a:1", "*", "?", "dev-[0-9]", "wip"]
    for text in texts:
        made = []
        stubs = {"glob.has_magic": lambda it, s, a, k, n: [(s, "val", _glob.has_magic(a[0]) if isinstance(a[0], str) else Top("has_magic", False))],
                 "Matcher": lambda it, s, a, k, n: (made.append(("Matcher", a[0] if a else None)), [(s, "val", "M")])[1],
                 "Literal": lambda it, s, a, k, n: (made.append(("Literal", a[0] if a else None)), [(s, "val", "L")])[1],
                 "cucumber_tag_expressions.model.Literal": lambda it, s, a, k, n: (made.append(("Literal", a[0] if a else None)), [(s, "val", "L")])[1]}
        it = Interp(ix, stubs=stubs, name="make_operand")
        it.int_sat = 50
        it.fold_regex = True
        st = State()
        st.frames = []
        outs = it.get_attr(st, ClassVal(mc), "contains_wildcards", None)
        if len(outs) != 1 or outs[0][1] != "val":
            raise AnalysisError("Matcher.contains_wildcards not found: %r" % ([(k, v) for _, k, v in outs][:2],))
        from .abscall import apply as _apply
        r = _apply(it, outs[0][0], outs[0][2], [text], {}, None)
        chk.instance("T2")
        want = _glob.has_magic(text)
        got = [v if k == "val" else repr(v) for (_, k, v) in r]
        if any(isinstance(v, Top) for v in got):
            raise AnalysisError("Matcher.contains_wildcards(%r) not foldable: %r" % (text, got))
        if got == [want]:
            chk.ok("T2", {"text": text, "contains_wildcards": want}, nontrivial_key=("cw", text))
        else:
            _fail(chk, "T2", mo, "contains_wildcards(%r) -> %r" % (text, got),
                  "Matcher.contains_wildcards(%r) gives %r; fnmatch treats this text as %s (glob.has_magic: '*', '?' and '[' are wildcards)"
                  % (text, got, "a pattern" if want else "a literal"))
            continue
        outs = it.call_function(st, mo, [text], {}, None, self_val=ClassVal(pc))
        chk.absorb(it)
        chk.instance("T2")
        want_op = [("Matcher" if want else "Literal", text)]
        if made == want_op and all(k == "val" for _, k, _v in outs):
            chk.ok("T2", {"text": text, "operand": want_op[0][0]}, nontrivial_key=("op", text))
        else:
            _fail(chk, "T2", mo, "make_operand(%r) -> %s" % (text, made), "make_operand(%r) builds %s, expected %s (a Matcher exactly for texts "
                  "with wildcards, on the whole text)" % (text, made, want_op))
    chk.require_instances("T2", 20)


def check_expression_patch(chk, ix):
    chk.rule("T3", WHAT["T3"])
    mod = ix.module("behave.tag_expression.model")
    chk.instance("T3")
    patched = [n for n in mod.tree.body if isinstance(n, ast.Assign) and unparse(n.targets[0]) == "Expression.check"]
    f = mod.functions.get(unparse(patched[0].value)) if patched else None
    ok = f is not None and any(isinstance(n, ast.Return) and isinstance(n.value, ast.Call) and unparse(n.value.func) == "self.evaluate"
                               and [unparse(a) for a in n.value.args] == [f.node.args.args[1].arg] for n in ast.walk(f.node))
    if ok:
        chk.ok("T3", {"Expression.check": "= %s -> self.evaluate(tags)" % f.name}, nontrivial_key="check")
    else:
        chk.fail(Finding("T3", "behave.tag_expression.model:Expression.check", "check not installed / not delegating",
                         "Expression.check is not installed as 'return self.evaluate(tags)': selection code calls check() on v2 expressions",
                         file=mod.relpath, line=1))
    for c in mod.classes.values():
        if any(getattr(b, "name", b) == "Expression" or str(b).endswith("Expression") for b in c.bases):
            chk.instance("T3")
            if "evaluate" in c.methods and "__str__" in c.methods:
                chk.ok("T3", {"class": c.name, "defines": ["evaluate", "__str__"]}, nontrivial_key=c.name)
            else:
                chk.fail(Finding("T3", c.fullname, "%s lacks evaluate/__str__" % c.name, "%s does not define evaluate and __str__ (printing and "
                                 "re-parsing an expression must preserve it)" % c.name, file=mod.relpath, line=c.node.lineno))


class ExprTok(object):
    """a parsed sub-expression of a given kind with a given printed form"""
    def __init__(self, kind, text):
        self.abs_type, self.text = kind, text

    def abs_str(self):
        return self.text

    def abs_truth(self):
        return True

    def __repr__(self):
        return "%s<%s>" % (self.abs_type, self.text)


def check_printing(chk, ix):
    """T3: Not.__str__ delimits its operand; to_string only touches blanks next to parentheses"""
    mod = ix.module("behave.tag_expression.model")
    patched = {unparse(n.targets[0]): unparse(n.value) for n in mod.tree.body if isinstance(n, ast.Assign) and isinstance(n.targets[0], ast.Attribute)}
    nf = mod.functions.get(patched.get("Not.__str__", ""))
    tf = mod.functions.get(patched.get("Expression.to_string", ""))
    if nf is not None:
        for kind, text in (("Literal", "a"), ("Matcher", "a.*"), ("Not", "not ( a )"), ("And", "( a and b )"), ("Or", "( a or b )"), ("True_", ""), ("Never", "never")):
            it = Interp(ix, name="Not.__str__")
            st = State()
            st.frames = []
            me = st.alloc(HObj("Not", {"term": ExprTok(kind, text)}, label="not-expression"))
            outs = it.call_function(st, nf, [], {}, None, self_val=me)
            chk.absorb(it)
            chk.instance("T3")
            vals = [v for (_, k, v) in outs if k == "val"]
            if len(outs) != 1 or len(vals) != 1 or not isinstance(vals[0], str):
                raise AnalysisError("Not.__str__ not foldable for a %s operand: %r" % (kind, [(k, v) for _, k, v in outs]))
            if kind == "True_":
                ok_ = vals[0].startswith("not")
            else:
                try:
                    names, table = _v2_table(text)
                    names2, table2 = _v2_table(vals[0])
                    ok_ = names2 == names and table2 == tuple(not b for b in table)
                except ValueError:
                    ok_ = False
            if ok_:
                chk.ok("T3", {"Not of": kind, "operand prints": text, "prints": vals[0]}, nontrivial_key=("not", kind))
            else:
                _fail(chk, "T3", nf, "not %s -> %r" % (kind, vals[0]), "Not(%s printed as %r) prints as %r, which does not read back as the "
                      "negation of the operand (not binds tighter than and/or: the operand must stay one unit)" % (kind, text, vals[0]))
    else:
        chk.notes.append("Not.__str__ is not patched: the third-party printing applies (trusted)")
    if tf is not None:
        samples = ["( a and ( not ( b ) or c.* ) )", "not ( a and b )", "( not ( a or b ) and c )", "not ( not ( a ) )", "( a or b )", "not ( a )",
                   "( not ( a ) and not ( b or c ) )", "a"]
        for text in samples:
            for pretty in (True, False):
                it = Interp(ix, name="to_string")
                it.fold_regex = True
                st = State()
                st.frames = []
                outs = it.call_function(st, tf, [pretty], {}, None, self_val=ExprTok("And", text))
                chk.absorb(it)
                chk.instance("T3")
                vals = [v for (_, k, v) in outs if k == "val"]
                if len(outs) != 1 or len(vals) != 1 or not isinstance(vals[0], str):
                    raise AnalysisError("to_string not foldable on %r: %r" % (text, [(k, v) for _, k, v in outs],))
                try:
                    same = _v2_table(vals[0]) == _v2_table(text)
                except ValueError as e:
                    same = False
                if same and (pretty or vals[0] == text):
                    chk.ok("T3", {"str()": text, "to_string(pretty=%s)" % pretty: vals[0]}, nontrivial_key=("to_string", text, pretty))
                else:
                    _fail(chk, "T3", tf, "to_string(pretty=%s) of %r -> %r" % (pretty, text, vals[0]),
                          "to_string(pretty=%s) turns the printed expression %r into %r, which %s" % (
                              pretty, text, vals[0], "denotes another formula when parsed again (not binds tighter than and/or)" if pretty or vals[0] != text else "differs"))


def _v2_table(text):
    """truth table of a v2 expression text over its operands (reference reading of the grammar: not > and > or)"""
    import re as _re
    import itertools as _it
    toks = _re.findall(r"[()]|[^\s()]+", text)
    names = sorted({t for t in toks if t not in ("(", ")", "and", "or", "not")})

    def parse(env):
        pos = [0]

        def peek():
            return toks[pos[0]] if pos[0] < len(toks) else None

        def take():
            pos[0] += 1
            return toks[pos[0] - 1]

        def p_or():
            v = p_and()
            while peek() == "or":
                take()
                r = p_and()
                v = v or r
            return v

        def p_and():
            v = p_not()
            while peek() == "and":
                take()
                r = p_not()
                v = v and r
            return v

        def p_not():
            if peek() == "not":
                take()
                return not p_not()
            if peek() == "(":
                take()
                v = p_or()
                if take() != ")":
                    raise ValueError("unbalanced")
                return v
            t = take()
            if t is None or t in (")", "and", "or"):
                raise ValueError("operand expected")
            return env[t]
        v = p_or()
        if pos[0] != len(toks):
            raise ValueError("trailing tokens")
        return v
    return names, tuple(parse(dict(zip(names, bits))) for bits in _it.product((False, True), repeat=len(names)))


class AtText(object):
    """a tag-expression text that may contain '@'"""
    abs_type = "str"

    def __init__(self, what, has_at=True):
        self.what, self.has_at = what, has_at

    def __repr__(self):
        return "Text(%s%s)" % (self.what, ",@" if self.has_at else "")

    def abs_truth(self):
        return True

    def abs_contains(self, item):
        return self.has_at if item == "@" else None

    def abs_call(self, it, st, name, args, kwargs, node):
        if name == "replace" and args and args[0] == "@" and args[1] == "":
            return [(st, "val", AtText(self.what, False))]
        if name in ("replace", "strip", "format"):
            return [(st, "val", AtText(self.what, self.has_at))]
        return [(st, "val", Top("str." + name, True))]


def check_v2_glue(chk, ix):
    chk.rule("T4", WHAT["T4"])
    f = ix.func("behave.tag_expression.builder:_parse_tag_expression_v2")
    # (a) '@' removed for every input
    got = []
    it = Interp(ix, stubs={"TagExpressionParser.parse": lambda i, s, a, k, n: (got.append(a[-1]), [(s, "val", "EXPR")])[1]},
                name="_parse_tag_expression_v2")
    st = State()
    st.frames = []
    outs = it.run(f, st, [AtText("expression")], {})
    chk.absorb(it)
    chk.instance("T4")
    bad = [g for g in got if isinstance(g, AtText) and g.has_at]
    if got and not bad and all(k == "val" for _, k, _ in outs):
        if all(isinstance(g, AtText) for g in got):
            chk.ok("T4", {"text_handed_to_parser": "every '@' removed"}, nontrivial_key="at")
        else:
            chk.ok("T4", {"text_handed_to_parser": "normalised by something the abstract text does not follow: see the concrete renderings"})
            chk.notes.append("T4: '@' removal is not a plain replace any more; decided on the concrete renderings only")
    else:
        _fail(chk, "T4", f, "parser receives %r" % (got,), "the text handed to the v2 parser may still contain '@' (%r): an operand written "
              "'@name' would be taken as a tag called '@name' and never match" % (got,))
    # (b) list form
    got2 = []
    it2 = Interp(ix, stubs={"TagExpressionParser.parse": lambda i, s, a, k, n: (got2.append(a[-1]), [(s, "val", "EXPR")])[1]}, name="_parse_tag_expression_v2 list")
    st = State()
    st.frames = []
    seq = st.alloc(HObj("list", kind="list", items=["a or b", "not c"]))
    outs = it2.call_function(st, f, [seq], {}, None)
    chk.instance("T4")
    and_kw = _third_party_keywords().get("AND", "and")
    if got2 == ["(a or b) %s (not c)" % and_kw]:
        chk.ok("T4", {"list_form": ["a or b", "not c"], "text": got2[0]}, nontrivial_key="list")
    else:
        _fail(chk, "T4", f, "list form -> %r" % (got2,), "the argument list ['a or b', 'not c'] is combined into %r, expected '(a or b) %s (not c)'" % (got2, and_kw))


def check_v2_glue_concrete(chk, ix):
    """T4 on concrete renderings (constant folding; re.sub, if used, is folded with the stdlib's re)"""
    import re as _re
    f = ix.func("behave.tag_expression.builder:_parse_tag_expression_v2")
    cases = [("@a and @b", "a and b"), ("a and b", "a and b"), ("not @a.*", "not a.*"), ("@*.slow", "*.slow"), ("@?x or @[ab]c", "?x or [ab]c"),
             ("(@a or @b) and not @c", "(a or b) and not c"), ("@a  and  @b", None), ("not(@a)", "not(a)"), ("@a.b-c=d", "a.b-c=d"), ("", ""),
             (["@a", "@b or @c"], "(a) and (b or c)"), (["not @*.x"], "(not *.x)"), ((), "")]
    for arg, want in cases:
        got = []
        it = Interp(ix, stubs={"TagExpressionParser.parse": lambda i, s, a, k, n: (got.append(a[-1]), [(s, "val", "EXPR")])[1]},
                    name="_parse_tag_expression_v2 concrete")
        it.int_sat = 50
        it.fold_regex = True
        st = State()
        st.frames = []
        a = st.alloc(HObj("list", kind="list", items=list(arg))) if isinstance(arg, list) else arg
        outs = it.call_function(st, f, [a], {}, None)
        chk.absorb(it)
        chk.instance("T4")
        if len(got) != 1 or not isinstance(got[0], str) or len(outs) != 1:
            raise AnalysisError("_parse_tag_expression_v2 not foldable on %r: parser got %r" % (arg, got))
        norm = " ".join(got[0].split())
        if "@" not in got[0] and (want is None or norm == " ".join(want.split())):
            chk.ok("T4", {"argument": arg, "text_handed_to_parser": got[0]}, nontrivial_key=repr(arg))
        else:
            _fail(chk, "T4", f, "%r -> %r" % (arg, got[0]), "the argument %r reaches the v2 parser as %r%s" % (
                arg, got[0], "; expected %r (modulo spaces)" % want if want is not None else " (still contains '@')"))


def check_v2_list_form(chk, ix):
    """T4 (list form): several --tags options are AND-ed, each option as ONE unit - also an option that itself starts with
    '(' and ends with ')' without being one parenthesised group ('(a) or (b)').  Compared by truth table."""
    chk.rule("T4", WHAT["T4"])
    f = ix.func("behave.tag_expression.builder:_parse_tag_expression_v2")
    cases = [["(@a) or (@b)", "@c"], ["(a or b)", "c"], ["(a)", "(b) or (c)"], ["not (a)", "(b)"], ["(a) and (b)", "(c) or (a)"],
             ["a or b", "not c"], [" (a) or (b) ", "c"], ["((a) or b)", "c"]]
    for terms in cases:
        got = []
        it = Interp(ix, stubs={"TagExpressionParser.parse": lambda i, s, a, k, n: (got.append(a[-1]), [(s, "val", "EXPR")])[1]},
                    name="_parse_tag_expression_v2 list form")
        it.int_sat = 50
        it.fold_regex = True
        st = State()
        st.frames = []
        outs = it.call_function(st, f, [st.alloc(HObj("list", kind="list", items=list(terms)))], {}, None)
        chk.absorb(it)
        chk.instance("T4")
        if len(got) != 1 or not isinstance(got[0], str) or len(outs) != 1:
            raise AnalysisError("_parse_tag_expression_v2 not foldable on %r: parser got %r" % (terms, got))
        want = " and ".join("(" + t.replace("@", "").strip() + ")" for t in terms)
        try:
            same = _v2_table(got[0]) == _v2_table(want)
        except ValueError:
            same = False
        if same and "@" not in got[0]:
            chk.ok("T4", {"options": terms, "text_handed_to_parser": got[0]}, nontrivial_key=("list", repr(terms)))
        else:
            _fail(chk, "T4", f, "%r -> %r" % (terms, got[0]), "the options %r reach the v2 parser as %r, which does not mean %r (every option is one "
                  "operand of the conjunction)" % (terms, got[0], want))


def _third_party_keywords():
    import importlib.util
    spec = importlib.util.find_spec("cucumber_tag_expressions")
    out = {}
    if spec is None or not spec.submodule_search_locations:
        return out
    path = os.path.join(list(spec.submodule_search_locations)[0], "parser.py")
    try:
        tree = ast.parse(open(path, encoding="utf-8").read())
    except Exception:       # noqa
        return out
    for n in ast.walk(tree):
        if isinstance(n, ast.ClassDef) and n.name == "Token":
            for s_ in n.body:
                if isinstance(s_, ast.Assign) and isinstance(s_.value, ast.Tuple) and s_.value.elts and isinstance(s_.value.elts[0], ast.Constant):
                    out[s_.targets[0].id] = s_.value.elts[0].value
    return out


class _ExprTok(object):
    """a parsed tag expression in the harness: prints as ONE parenthesised unit, e.g. "( a or b )" (str(), format(), to_string())"""
    abs_type = "Expression"

    def __init__(self, src):
        self.src = src

    def abs_str(self):
        return "( PRINTED<%s> )" % (self.src,)

    def abs_truth(self):
        return True

    def abs_call(self, it_, st_, name, args, kwargs, node):
        if name in ("to_string", "__str__") and not args:
            return [(st_, "val", self.abs_str())]
        from .absint import Unsupported
        raise Unsupported("method %s of a parsed tag expression at %s" % (name, it_.loc(node)))

    def __repr__(self):
        return "Expr(%r)" % (self.src,)


def check_protocol_use(chk, ix, rule):
    """the configured protocol is the one in force when the first expression is parsed, whatever an earlier
    Configuration left behind (TagExpressionProtocol.use / current keep ONE process-wide slot) - by evaluation"""
    chk.rule(rule, WHAT[rule])
    pc = ix.cls("behave.tag_expression.builder:TagExpressionProtocol")
    use, cur = pc.lookup("use"), pc.lookup("current")
    f = ix.func("behave.configuration:Configuration.setup_tag_expression")
    if use is None or cur is None or f is None:
        raise AnalysisError("anchor missing: TagExpressionProtocol.use / current, Configuration.setup_tag_expression")
    members = [m for m in ("V1", "V2", "AUTO_DETECT") if m in pc.class_consts]
    if len(members) < 2:
        raise AnalysisError("anchor missing: TagExpressionProtocol members V1 / V2 / AUTO_DETECT")

    def member(m):
        m = _enum_canon(pc, m)
        return EnumVal(pc.name, m, pc.enum_members.get(m))

    def current(it, st):
        outs = it.call_function(st, cur, [], {}, None, self_val=ClassVal(pc))
        if len(outs) != 1 or outs[0][1] != "val":
            raise AnalysisError("TagExpressionProtocol.current() not evaluable: %r" % [(k, v) for _, k, v in outs][:3])
        return outs[0][0], outs[0][2]

    def select(it, st, m):
        outs = it.call_function(st, use, [m], {}, None, self_val=ClassVal(pc))
        if len(outs) != 1 or outs[0][1] != "val":
            raise AnalysisError("TagExpressionProtocol.use(%r) not evaluable: %r" % (m, [(k, v) for _, k, v in outs][:3]))
        return outs[0][0]
    # (a) one slot: what use() selects is what current() answers, also when something else was selected before
    chk.instance(rule)
    it = Interp(ix, name="TagExpressionProtocol.use/current")
    it.int_sat = 50
    st = State()
    st.frames = []
    bad = None
    for m in members + members[::-1]:
        st = select(it, st, member(m))
        st, got = current(it, st)
        if not (isinstance(got, EnumVal) and got.name == member(m).name):
            bad = (m, got)
            break
    chk.absorb(it)
    if bad is None:
        chk.ok(rule, {"use(m); current()": "m, for %s in both orders" % ", ".join(members)}, nontrivial_key="slot")
    else:
        _fail(chk, rule, use, "use(%s) then current() = %r" % bad,
              "after TagExpressionProtocol.use(%s), current() answers %r: a selected protocol is not the one used" % bad)
    # (b) setup_tag_expression: whatever protocol is in force beforehand, every expression is parsed under the configured one
    for configured in members:
        for before in members:
            if before == configured:
                continue
            chk.instance(rule)
            seen = []

            def mk(it_, s_, args, kw, node):
                s2, c = current(it_, s_)
                seen.append(c.name if isinstance(c, EnumVal) else repr(c))
                return [(s2, "val", _ExprTok("x"))]
            it = Interp(ix, stubs={"make_tag_expression": mk}, name="setup_tag_expression")
            it.int_sat = 50
            st = State()
            st.frames = []
            st = select(it, st, member(before))
            cc = ix.cls("behave.configuration:Configuration")
            me = st.alloc(HObj(cc, {"config_tags": "@a", "default_tags": "", "tags": "@b", "tag_expression_protocol": member(configured),
                                    "tag_expression": None}, label="config"))
            outs = it.call_function(st, f, [], {}, None, self_val=me)
            chk.absorb(it)
            if len(outs) != 1 or outs[0][1] != "val" or not seen:
                raise AnalysisError("setup_tag_expression not evaluable: %r / %r" % ([(k, v) for _, k, v in outs][:2], seen))
            want = member(configured).name
            _, after = current(it, outs[0][0])
            if all(x == want for x in seen) and isinstance(after, EnumVal) and after.name == want:
                chk.ok(rule, {"configured": configured, "in force before": before, "parsed under": seen}, nontrivial_key=("setup", configured, before))
            else:
                _fail(chk, rule, f, "configured %s, %s in force before: parsed under %s" % (configured, before, seen),
                      "a Configuration with tag_expression_protocol=%s, created while %s is the process-wide protocol (left by an earlier "
                      "Configuration), parses its expressions under %s and leaves %r in force: the configured protocol must be selected "
                      "before the first expression is parsed, unconditionally" % (configured, before, seen, after))


def _enum_canon(ci, name):
    from .absexpr import _enum_canonical
    return _enum_canonical(ci, name)


def check_config_tags(chk, ix):
    check_protocol_use(chk, ix, "T5")
    f = ix.func("behave.configuration:Configuration.setup_tag_expression")

    Expr = _ExprTok
    for cfg_tags, cli in (("@a or @b", "not {config.tags}"), (["@a or @b", "not @c"], "not {config.tags}"), ("@a", ["{config.tags}", "@x"])):
        parsed = []

        def mk(it, st, args, kw, node):
            a = args[0]
            if isinstance(a, Ref):
                a = tuple(st.obj(a).items)
            parsed.append(a)
            return [(st, "val", Expr(a))]
        it = Interp(ix, stubs={"make_tag_expression": mk, "TagExpressionProtocol.use": lambda i, s, a, k, n: [(s, "val", None)]},
                    name="setup_tag_expression")
        it.int_sat = 50
        st = State()
        st.frames = []
        cc = ix.cls("behave.configuration:Configuration")

        def lift(v):
            return st.alloc(HObj("list", kind="list", items=list(v))) if isinstance(v, list) else v
        me = st.alloc(HObj(cc, {"config_tags": lift(cfg_tags), "default_tags": "", "tags": lift(cli), "tag_expression_protocol": "auto_detect",
                                "tag_expression": None}, label="config"))
        outs = it.call_function(st, f, [], {}, None, self_val=me)
        chk.absorb(it)
        chk.instance("T5")
        if len(outs) != 1 or outs[0][1] != "val" or len(parsed) != 2:
            raise AnalysisError("setup_tag_expression not evaluable: %r / %r" % ([(k, v) for _, k, v in outs][:2], parsed))
        cfg_key = tuple(cfg_tags) if isinstance(cfg_tags, list) else cfg_tags
        printed = "( PRINTED<%s> )" % (cfg_key,)
        final = parsed[1]
        final_text = " ".join(final) if isinstance(final, tuple) else final
        if parsed[0] == cfg_key and printed in final_text and "{config.tags}" not in final_text:
            chk.ok("T5", {"config_tags": cfg_tags, "command_line": cli, "parsed": final}, nontrivial_key=repr((cfg_tags, cli)))
        else:
            _fail(chk, "T5", f, "config=%r cli=%r -> %r" % (cfg_tags, cli, final),
                  "with config tags %r and command-line tags %r the final expression text is %r: the {config.tags} placeholder is "
                  "not replaced by the printed form of the parsed config expression (which keeps it one parenthesised unit)" % (cfg_tags, cli, final))


# ----------------------------------------------------------------------
# C08
# ----------------------------------------------------------------------
def check_v1(chk, ix):
    chk.rule("U1", WHAT["U1"])
    tc = ix.cls("behave.tag_expression.v1:TagExpression")
    chk_f = tc.lookup("check")
    lits = ["a", "-a", "b", "-b"]
    groups = [(x,) for x in lits] + [(x, y) for x in lits for y in lits if x < y]
    formulas = [()] + [(g,) for g in groups] + [(g, h) for g in groups[:6] for h in groups[:6]]
    universe = [(), ("a",), ("b",), ("a", "b")]
    it = Interp(ix, name="v1.check")
    it.int_sat = 50
    for formula in formulas:
        for tags in universe:
            st = State()
            st.frames = []
            ands = st.alloc(HObj("list", kind="list", items=[st.alloc(HObj("list", kind="list", items=list(g))) for g in formula]))
            me = st.alloc(HObj(tc, {"ands": ands, "limits": st.alloc(HObj("dict", kind="dict", items=[]))}, label="v1 expression"))
            outs = it.call_function(st, chk_f, [tags], {}, None, self_val=me)
            chk.instance("U1")

            def lit(l):
                return (l[1:] not in tags) if l.startswith("-") else (l in tags)
            want = all(any(lit(l) for l in g) for g in formula)
            if len(outs) == 1 and outs[0][1] == "val" and outs[0][2] is want:
                chk.ok("U1", {"formula": [list(g) for g in formula], "tags": list(tags), "selected": want}, nontrivial_key=(formula, tags))
            else:
                _fail(chk, "U1", chk_f, "%s on %s -> %r" % ([list(g) for g in formula], list(tags), [(k, v) for _, k, v in outs][:2]),
                      "v1 expression %s on tags %s gives %r, expected %s (AND of OR-groups, '-' negates)" % (
                          [list(g) for g in formula], list(tags), [(k, v) for _, k, v in outs][:2], want))
    chk.absorb(it)
    # parsing keeps negation / strips decoration
    init = tc.lookup("__init__")
    it2 = Interp(ix, name="v1.__init__")
    it2.eager_generators = True
    it2.int_sat = 50
    for text, want_ands, want_limits in ((["@a,-@b", "~c"], [["a", "-b"], ["-c"]], {}),
                                         (["-@slow:3"], [["-slow"]], {"slow": 3}),
                                         (["~slow:3,@fast:2"], [["-slow", "fast"]], {"slow": 3, "fast": 2}),
                                         (["@a:1"], [["a"]], {"a": 1})):
        st = State()
        st.frames = []
        me = st.alloc(HObj(tc, {}, label="v1 expression"))
        arg = st.alloc(HObj("list", kind="list", items=list(text)))
        outs = it2.call_function(st, init, [arg], {}, None, self_val=me)
        chk.instance("U1")
        if len(outs) != 1 or outs[0][1] != "val":
            raise AnalysisError("v1 TagExpression.__init__ not evaluable on %r: %r" % (text, [(k, v) for _, k, v in outs][:2]))
        s = outs[0][0]
        ands = [list(s.obj(g).items) for g in s.obj(s.obj(me).fields["ands"]).items]
        limits = dict(s.obj(s.obj(me).fields["limits"]).items)
        if ands == want_ands and limits == want_limits:
            chk.ok("U1", {"arguments": text, "ands": ands, "limits": limits}, nontrivial_key=tuple(text))
        else:
            _fail(chk, "U1", init, "%r -> ands=%r limits=%r" % (text, ands, limits),
                  "old-style arguments %r are stored as %r with limits %r; expected %r / %r (a leading - or ~ must survive "
                  "'@' and ':limit' decoration)" % (text, ands, limits, want_ands, want_limits))
    chk.absorb(it2)


def check_v1_end_to_end(chk, ix):
    """U1 end to end: every rendering style of small CNF formulas is parsed by the real __init__ (and, for the string
    form, by _parse_tag_expression_v1) and evaluated by the real check() on every subset of the tag universe."""
    tc = ix.cls("behave.tag_expression.v1:TagExpression")
    init, chk_f = tc.lookup("__init__"), tc.lookup("check")
    pv1 = ix.func("behave.tag_expression.builder:_parse_tag_expression_v1")
    lits = ["a", "-a", "b", "-b"]
    groups = [(x,) for x in lits] + [(x, y) for x in lits for y in lits if x != y]
    formulas = [(g,) for g in groups] + [(g, h) for g in groups[:4] for h in groups[4:10]]
    styles = {
        "plain": lambda neg, t: ("-" if neg else "") + t,
        "at": lambda neg, t: ("-@" if neg else "@") + t,
        "tilde": lambda neg, t: ("~" if neg else "") + t,
        "tilde-at": lambda neg, t: ("~@" if neg else "@") + t,
        "limit": lambda neg, t: ("-@" if neg else "@") + t + ":3",
        "padded": lambda neg, t: (" -@" if neg else " @") + t + " ",
    }
    universe = [(), ("a",), ("b",), ("a", "b")]
    it = Interp(ix, name="v1 end to end")
    it.eager_generators = True
    it.int_sat = 1000
    it.list_cap = 100
    n = 0
    for formula in formulas:
        for sname, render in sorted(styles.items()):
            if sname in ("limit", "padded") and len(formula) > 1:
                continue
            args = [",".join(render(l.startswith("-"), l.lstrip("-")) for l in g) for g in formula]
            for form in ("list", "string", "list through the builder"):
                if form == "string" and (sname == "padded" or n % 3):
                    n += 1
                    continue
                if form == "list through the builder" and sname not in ("padded", "at"):
                    continue
                n += 1
                st = State()
                st.frames = []
                me = st.alloc(HObj(tc, {}, label="v1 expression"))
                if form == "list":
                    arg = st.alloc(HObj("list", kind="list", items=list(args)))
                    outs = it.call_function(st, init, [arg], {}, None, self_val=me)
                else:
                    made = []

                    def ctor(i, s_, a, k, n_, _made=made, _me=me):
                        _made.append(1)
                        return [(s2, "val", _me) if k2 == "val" else (s2, k2, v2) for (s2, k2, v2) in i.call_function(s_, init, [a[0]], {}, n_, self_val=_me)]
                    it.stubs["_TagExpressionV1"] = ctor
                    it.stubs["TagExpression"] = ctor
                    # the string form: groups separated by blanks; the list form: one option per element, handed over as it is
                    # (an option may contain blanks around its commas)
                    barg = " ".join(args) if form == "string" else st.alloc(HObj("list", kind="list", items=[a_.replace(",", " , ") if sname == "padded" else a_ for a_ in args]))
                    outs = it.call_function(st, pv1, [barg], {}, None)
                    it.stubs.pop("_TagExpressionV1", None)
                    it.stubs.pop("TagExpression", None)
                if len(outs) != 1 or outs[0][1] != "val":
                    raise AnalysisError("v1 expression %r (%s form) not foldable: %r" % (args, form, [(k, v) for _, k, v in outs][:3]))
                s1 = outs[0][0]
                for tags in universe:
                    o2 = it.call_function(s1.fork(), chk_f, [tags], {}, None, self_val=me)
                    chk.instance("U1")

                    def lit(l):
                        return (l[1:] not in tags) if l.startswith("-") else (l in tags)
                    want = all(any(lit(l) for l in g) for g in formula)
                    if len(o2) == 1 and o2[0][1] == "val" and o2[0][2] is want:
                        chk.ok("U1", {"arguments": args, "form": form, "tags": list(tags), "selected": want}, nontrivial_key=(tuple(args), form, tags))
                    else:
                        _fail(chk, "U1", init, "%r (%s) on %s -> %r" % (args, form, list(tags), [(k, v) for _, k, v in o2][:2]),
                              "the old-style expression %r (%s form) on the tags %s gives %r; its documented meaning (arguments AND-ed, "
                              "commas OR-ed, - or ~ negates, @ optional, :n is only a limit) gives %s" % (
                                  args, form, list(tags), [(k, v) for _, k, v in o2][:2], want))
    chk.absorb(it)


def _raises_named(ix, func, exc, name):
    """the raise statement that produced `exc` (an external exception class) names `name`"""
    if exc.clsname() == name:
        return True
    try:
        line = int(str(exc.origin).split(":")[1].split()[0])
    except (IndexError, ValueError):
        return False
    for n in ast.walk(func.node):
        if isinstance(n, ast.Raise) and n.lineno <= line <= (n.end_lineno or n.lineno) and n.exc is not None:
            return name in unparse(n.exc)
    return False


def check_autodetect(chk, ix):
    chk.rule("U2", WHAT["U2"])
    f = ix.func("behave.tag_expression.builder:_select_tag_expression_parser4auto")
    # (a) decision table with the word predicates as inputs
    for v1prefix, v1kw, v2kw, wild, many in itertools.product((False, True), repeat=5):
        if v1prefix and not v1kw and False:
            continue
        stubs = {"_any_word_starts_with": lambda i, s, a, k, n, _v=v1prefix: [(s, "val", _v)],
                 "_any_word_contains_keyword": lambda i, s, a, k, n, _v=v1kw: [(s, "val", _v)],
                 "_any_word_is_keyword": lambda i, s, a, k, n, _v=v2kw: [(s, "val", _v)],
                 "_any_word_contains_wildcards": lambda i, s, a, k, n, _v=wild: [(s, "val", _v)]}
        it = Interp(ix, stubs=stubs, name="auto-detect")
        it.int_sat = 50
        it.fold_regex = True
        st = State()
        st.frames = []
        text = "w1 w2" if many else "w1"
        outs = it.call_function(st, f, [text], {}, None)
        chk.absorb(it)
        chk.instance("U2")
        v2 = v2kw or wild
        if v1prefix and v2:
            want = "error"
        elif v2:
            want = "_parse_tag_expression_v2"
        elif v1kw or v1prefix or many:
            want = "_parse_tag_expression_v1"
        else:
            want = "_parse_tag_expression_v2"
        if len(outs) != 1:
            raise AnalysisError("auto-detect forks: %r" % ([(k, v) for _, k, v in outs][:3],))
        _, k, v = outs[0]
        got = "error" if (k == "raise" and _raises_named(ix, f, v, "TagExpressionError")) else (getattr(getattr(v, "func", None), "name", repr(v)) if k == "val" else repr(v))
        if got == want:
            chk.ok("U2", {"v1_not_prefix": v1prefix, "v1_comma": v1kw, "v2_keyword": v2kw, "wildcard": wild, "several_words": many, "dialect": got},
                   nontrivial_key=(v1prefix, v1kw, v2kw, wild, many))
        else:
            _fail(chk, "U2", f, "prefix=%s comma=%s v2kw=%s wild=%s many=%s -> %s" % (v1prefix, v1kw, v2kw, wild, many, got),
                  "auto-detection with v1-NOT-prefix=%s, comma=%s, v2 keyword=%s, wildcard=%s, several words=%s chooses %s, expected %s" % (
                      v1prefix, v1kw, v2kw, wild, many, got, want))
    # (b) parentheses are separated before the words are classified: the prefix test sees '-@a' in '(-@a or @b)'
    seen = {}

    def spy(name):
        def stub(it, st, args, kw, node):
            ws = args[0]
            seen[name] = list(st.obj(ws).items) if isinstance(ws, Ref) else ws
            return [(st, "val", False)]
        return stub
    it = Interp(ix, stubs={"_any_word_starts_with": spy("prefix"), "_any_word_contains_keyword": spy("comma"),
                           "_any_word_is_keyword": spy("v2kw"), "_any_word_contains_wildcards": spy("wild")}, name="auto-detect words")
    it.int_sat = 50
    it.fold_regex = True
    st = State()
    st.frames = []
    it.call_function(st, f, ["(-@a or @b) and @c"], {}, None)
    chk.instance("U2")
    want_words = ["(", "-@a", "or", "@b", ")", "and", "@c"]
    bad = {k_: v for k_, v in seen.items() if v != want_words}
    if seen and not bad:
        chk.ok("U2", {"text": "(-@a or @b) and @c", "words_classified": want_words}, nontrivial_key="words")
    else:
        _fail(chk, "U2", f, "words seen by %s" % bad, "for the text '(-@a or @b) and @c' the word predicates %s see %s instead of %s: an old-style "
              "negation prefix directly after '(' is not recognised and the mixed text is silently read as v2" % (sorted(bad), list(bad.values())[:1], want_words))


def check_autodetect_concrete(chk, ix):
    """U2 on concrete renderings: the real word predicates, constant-folded (glob.has_magic is stdlib)."""
    import glob as _glob
    f = ix.func("behave.tag_expression.builder:_select_tag_expression_parser4auto")
    # one plain word means the same in both dialects ('a:3' is tag a with a limit in v1 and a tag called 'a:3' in v2: the
    # single-word form is inherently ambiguous, so either dialect is accepted for it)
    either = ["@a", "a", "@order", "@android", "@nothing", "@a.b", "@a-b", "@a=b", "a:3"]
    v1 = ["-@a", "~@a", "-a", "~a", "@a,@b", "a,-b", "@a @b", "-a b", "~a,b c", "-@slow:3", "@a,~@b @c", "@a:3 @b", "@a:3,@b",
          "-@order", "~@not_this", "@or,@and", "-@x,@y", "@order @android", "@a.b @c-d", "~@a -@b"]
    v2 = ["a and b", "@a and @b", "not @a", "not a", "(a)", "( a or b )", "(a or b)", "a or b and not c", "not (a or b)", "a*", "@a.*",
          "foo.?", "[ab]c", "not a*", "(a) and (b)", "@order and @android", "@a or @not_this", "a and  b", "@a.b or @c-d"]
    mixed = ["-@a and @b", "not -a", "~a or b", "(-@a or @b)", "(~a)", "-a*", "~@a.*", "@a and -@b", "(@a) and (-b)", "not ~@a", "-a (b)"]
    it = Interp(ix, stubs={"glob.has_magic": lambda i, s, a, k, n: [(s, "val", _glob.has_magic(a[0]))],
                           "has_magic": lambda i, s, a, k, n: [(s, "val", _glob.has_magic(a[0]))]}, name="auto-detect concrete")
    it.int_sat = 100
    it.fold_regex = True
    it.eager_generators = True
    for text, want in [(t, "_parse_tag_expression_v1") for t in v1] + [(t, "_parse_tag_expression_v2") for t in v2] + \
            [(t, "error") for t in mixed] + [(t, "either") for t in either]:
        for form in ("text", "list"):
            st = State()
            st.frames = []
            arg = text
            if form == "list":
                if want != "_parse_tag_expression_v1" or " " not in text:
                    continue
                arg = st.alloc(HObj("list", kind="list", items=text.split()))
            outs = it.call_function(st, f, [arg], {}, None)
            chk.instance("U2")
            if len(outs) != 1:
                raise AnalysisError("auto-detect not foldable on %r: %r" % (text, [(k, v) for _, k, v in outs][:3]))
            _, k, v = outs[0]
            got = "error" if (k == "raise" and _raises_named(ix, f, v, "TagExpressionError")) else (
                getattr(getattr(v, "func", None), "name", repr(v)) if k == "val" else repr(v))
            if got == want or (want == "either" and got in ("_parse_tag_expression_v1", "_parse_tag_expression_v2")):
                chk.ok("U2", {"text": text, "form": form, "dialect": got}, nontrivial_key=(text, form))
            else:
                _fail(chk, "U2", f, "%r (%s) -> %s" % (text, form, got),
                      "auto-detection on %r (%s form) chooses %s; a %s is expected" % (
                          text, form, got, {"_parse_tag_expression_v1": "pure old-style expression (v1)", "_parse_tag_expression_v2": "pure new-style expression (v2)",
                                            "error": "TagExpressionError (old negation prefix mixed with new-style operators)",
                                            "either": "parser function (one plain tag)"}[want]))
    chk.absorb(it)


def check_tables_and_dispatch(chk, ix):
    chk.rule("U3", WHAT["U3"])
    chk.rule("U4", WHAT["U4"])
    f = ix.func("behave.tag_expression.builder:_select_tag_expression_parser4auto")
    # which keyword / prefix lists the selector hands to its word predicates (wherever those lists are defined)
    seen = {}

    def spy(name):
        def stub(it_, st_, args, kw, node):
            ks = args[1] if len(args) > 1 else None
            if isinstance(ks, Ref):
                ks = list(st_.obj(ks).items or [])
            elif isinstance(ks, tuple):
                ks = list(ks)
            seen[name] = ks
            return [(st_, "val", False)]
        return stub
    it = Interp(ix, stubs={"_any_word_starts_with": spy("prefixes"), "_any_word_contains_keyword": spy("v1kw"),
                           "_any_word_is_keyword": spy("v2kw"), "_any_word_contains_wildcards": spy("wild")}, name="auto-detect tables")
    it.int_sat = 50
    it.fold_regex = True
    st = State()
    st.frames = []
    it.call_function(st, f, ["a b"], {}, None)
    chk.absorb(it)
    if not isinstance(seen.get("v2kw"), list) or not isinstance(seen.get("prefixes"), list):
        raise AnalysisError("anchor missing: the keyword / prefix lists of _select_tag_expression_parser4auto are not constant lists any more: %r" % (seen,))
    third = _third_party_keywords()
    chk.instance("U3")
    v2 = set(seen["v2kw"])
    if third and v2 == set(third.values()):
        chk.ok("U3", {"v2_keywords": sorted(v2), "third_party_tokens": third}, nontrivial_key="v2kw")
    elif not third:
        chk.notes.append("third-party token table not readable: v2 keyword agreement not decided")
        chk.ok("U3", {"v2_keywords": sorted(v2)}, nontrivial_key="v2kw-unverified")
    else:
        _fail(chk, "U3", f, "v2 keywords %s vs %s" % (sorted(v2), sorted(third.values())), "the v2 keyword list %s differs from the grammar's tokens %s" % (sorted(v2), sorted(third.values())))
    prefixes = set(seen["prefixes"])
    # which prefixes v1's normalize_tag turns into the stored negation '-' (by evaluation, whatever its branch structure)
    nt = ix.func("behave.tag_expression.v1:TagExpression.normalize_tag")
    it2 = Interp(ix, name="normalize_tag")
    it2.int_sat = 50
    handled = set()
    for p_ in sorted(prefixes | {"~", "-", "!", "^"}):
        for decorated in (p_ + "x", p_ + "@x"):
            st = State()
            st.frames = []
            outs = it2.call_function(st, nt, [decorated], {}, None)
            if len(outs) != 1 or outs[0][1] != "val" or not isinstance(outs[0][2], str):
                raise AnalysisError("normalize_tag not foldable on %r" % decorated)
            if outs[0][2] == "-x":
                handled.add(p_)
    chk.instance("U3")
    if prefixes == handled:
        chk.ok("U3", {"v1_not_prefixes": sorted(prefixes), "normalize_tag_negates": sorted(handled)}, nontrivial_key="v1 prefixes")
    else:
        _fail(chk, "U3", f, "v1 prefixes %s vs %s" % (sorted(prefixes), sorted(handled)), "auto-detection knows the NOT prefixes %s, normalize_tag turns %s into a negation" % (sorted(prefixes), sorted(handled)))
    # U4 dispatch: evaluate TagExpressionProtocol.parse for every member (aliases included)
    from .index import EnumVal
    pc = ix.cls("behave.tag_expression.builder:TagExpressionProtocol")
    pf = pc.lookup("parse")
    want = {"V1": "v1", "V2": "v2", "STRICT": "v2", "AUTO_DETECT": "auto", "DEFAULT": "auto"}
    for member, w in sorted(want.items()):
        if member not in pc.class_consts:
            raise AnalysisError("anchor missing: TagExpressionProtocol.%s" % member)
        called = []

        def rec(tag):
            return lambda i, s_, a, k, n: (called.append(tag), [(s_, "val", "EXPR:" + tag)])[1]
        sel_tok = []

        def selector(i, s_, a, k, n):
            called.append("select")
            r = i.ix.func("behave.tag_expression.builder:_parse_tag_expression_v1")
            from .values import FuncVal
            return [(s_, "val", FuncVal(r))]
        it = Interp(ix, stubs={"_parse_tag_expression_v1": rec("v1"), "_parse_tag_expression_v2": rec("v2"),
                               "_select_tag_expression_parser4auto": selector}, name="protocol.parse")
        st = State()
        st.frames = []
        # the member as user code obtains it: TagExpressionProtocol.<member>
        mv = [v for (_, k, v) in it.get_attr(st, ClassVal(pc), member, None) if k == "val"]
        if len(mv) != 1 or not isinstance(mv[0], EnumVal):
            raise AnalysisError("TagExpressionProtocol.%s not resolved to a member: %r" % (member, mv))
        outs = it.call_function(st, pf, ["TEXT"], {}, None, self_val=mv[0])
        chk.instance("U4")
        got = "auto" if called == ["select", "v1"] else (called[0] if len(called) == 1 else repr(called))
        if got == w and len(outs) == 1 and outs[0][1] == "val":
            chk.ok("U4", {"member": member, "parses_with": {"v1": "_parse_tag_expression_v1", "v2": "_parse_tag_expression_v2", "auto": "the auto-detected parser"}[w]},
                   nontrivial_key=member)
        else:
            _fail(chk, "U4", pf, "%s -> %s" % (member, got), "TagExpressionProtocol.%s.parse uses %s; expected %s" % (member, got, w))
    mk = ix.func("behave.tag_expression.builder:make_tag_expression")
    for given in (True, False):
        used = []

        class Proto(object):
            def __init__(self, n):
                self.n = n

            def abs_call(self, it_, st_, name, args, kwargs, node):
                used.append((self.n, name))
                return [(st_, "val", "EXPR")]

            def abs_truth(self):
                return True
        it = Interp(ix, stubs={"TagExpressionProtocol.current": lambda i, s_, a, k, n: [(s_, "val", Proto("current"))]}, name="make_tag_expression")
        st = State()
        st.frames = []
        kw = {"protocol": Proto("given")} if given else {}
        outs = it.call_function(st, mk, ["TEXT"], kw, None)
        chk.instance("U4")
        w = [("given" if given else "current", "parse")]
        if used == w and len(outs) == 1 and outs[0][1] == "val" and outs[0][2] == "EXPR":
            chk.ok("U4", {"protocol_argument": given, "parsed_by": w[0][0]}, nontrivial_key=("mk", given))
        else:
            _fail(chk, "U4", mk, "protocol given=%s -> %s" % (given, used), "make_tag_expression with%s protocol argument parses through %s; expected %s" % (
                "" if given else "out", used, w))


# ----------------------------------------------------------------------
# generated universes: expression trees and their renderings (quick: a sample, thorough: all)
# ----------------------------------------------------------------------
def _trees(depth, atoms=("a", "b", "c.*")):
    """v2 expression trees: ('lit', name) | ('not', t) | ('and', t, u) | ('or', t, u)"""
    if depth == 0:
        return [("lit", x) for x in atoms]
    sub = _trees(depth - 1, atoms)
    small = _trees(0, atoms)
    out = list(sub)
    out += [("not", t) for t in sub]
    out += [(op, t, u) for op in ("and", "or") for t in sub for u in small] + [(op, u, t) for op in ("and", "or") for t in sub if t[0] != "lit" for u in small]
    seen, uniq = set(), []
    for t in out:
        if t not in seen:
            seen.add(t)
            uniq.append(t)
    return uniq


def _render(t, style):
    """style: (at, parens, spaces)"""
    at, parens, spaces = style
    if t[0] == "lit":
        r = ("@" if at else "") + t[1]
        return "(%s)" % r if parens == "all" else r
    if t[0] == "not":
        inner = _render(t[1], style)
        if t[1][0] != "lit" or parens == "all":
            inner = "(" + inner + ")" if not inner.startswith("(") or not _balanced_outer(inner) else inner
        return "not" + (" " if not inner.startswith("(") or spaces else "") + inner if False else "not " + inner
    a, b = _render(t[1], style), _render(t[2], style)
    if t[1][0] in ("and", "or") and t[1][0] != t[0] or parens == "all":
        a = a if (a.startswith("(") and _balanced_outer(a)) else "(" + a + ")"
    if t[2][0] in ("and", "or") or parens == "all":
        b = b if (b.startswith("(") and _balanced_outer(b)) else "(" + b + ")"
    sep = "  " if spaces else " "
    return a + sep + t[0] + sep + b


def _balanced_outer(text):
    depth = 0
    for i, ch in enumerate(text):
        if ch == "(":
            depth += 1
        elif ch == ")":
            depth -= 1
            if depth == 0 and i != len(text) - 1:
                return False
    return text.startswith("(") and text.endswith(")")


def _tree_table(t, names):
    import itertools as _it

    def ev(t_, env):
        if t_[0] == "lit":
            return env[t_[1]]
        if t_[0] == "not":
            return not ev(t_[1], env)
        if t_[0] == "and":
            return ev(t_[1], env) and ev(t_[2], env)
        return ev(t_[1], env) or ev(t_[2], env)
    return tuple(ev(t, dict(zip(names, bits))) for bits in _it.product((False, True), repeat=len(names)))


def _names(t):
    if t[0] == "lit":
        return {t[1]}
    return set().union(*[_names(x) for x in t[1:]])


def check_v2_renderings(chk, ix, tier="quick"):
    """T4/U2 over generated renderings: every expression tree up to depth 2 (quick: every 7th) over the operands a, b, c.*
    in 6 rendering styles is (a) sent to the v2 parser by auto-detection when it contains an operator, parenthesis or
    wildcard, and (b) normalised by the v2 builder into a text whose reading (reference reader) has the tree's truth table."""
    chk.rule("T4", WHAT["T4"])
    sel = ix.func("behave.tag_expression.builder:_select_tag_expression_parser4auto")
    f = ix.func("behave.tag_expression.builder:_parse_tag_expression_v2")
    import glob as _glob
    trees = _trees(2)
    if tier != "thorough":
        trees = trees[::7]
    else:
        trees = trees + [t for t in _trees(3) if t not in set(trees)][::5]
    styles = [(True, "min", False), (False, "min", False), (True, "all", False), (True, "min", True), (False, "all", True), (True, "all", True)]
    n = 0
    for t in trees:
        names = sorted(_names(t))
        want_table = _tree_table(t, names)
        for style in styles:
            text = _render(t, style)
            n += 1
            got = []
            it = Interp(ix, stubs={"TagExpressionParser.parse": lambda i, s_, a, k, n_: (got.append(a[-1]), [(s_, "val", "EXPR")])[1],
                                   "glob.has_magic": lambda i, s_, a, k, n_: [(s_, "val", _glob.has_magic(a[0]))]}, name="v2 renderings")
            it.int_sat = 1000
            it.list_cap = 100
            it.fold_regex = True
            it.eager_generators = True
            st = State()
            st.frames = []
            outs = it.call_function(st, f, [text], {}, None)
            chk.instance("T4")
            if len(outs) != 1 or len(got) != 1 or not isinstance(got[0], str):
                raise AnalysisError("_parse_tag_expression_v2 not foldable on %r" % text)
            try:
                rnames, rtable = _v2_table(got[0])
                same = rnames == names and rtable == want_table
            except ValueError:
                same = False
            if same and "@" not in got[0]:
                chk.ok("T4", {"rendering": text, "handed_to_parser": got[0]}, nontrivial_key=("gen", text))
            else:
                _fail(chk, "T4", f, "%r -> %r" % (text, got[0]), "the expression %r reaches the v2 parser as %r, which does not denote the same formula" % (text, got[0]))
            # auto-detection
            if t[0] != "lit" or style[1] == "all" or _glob.has_magic(t[1]):
                st = State()
                st.frames = []
                outs = it.call_function(st, sel, [text], {}, None)
                chk.instance("T4")
                ok_ = bool(outs) and all(o[1] == "val" and getattr(getattr(o[2], "func", None), "name", "") == "_parse_tag_expression_v2" for o in outs)
                if ok_:
                    chk.ok("T4", {"rendering": text, "auto_detected": "v2"}, nontrivial_key=("auto", text))
                else:
                    _fail(chk, "T4", sel, "%r auto-detected as %r" % (text, [(k, v) for _, k, v in outs][:1]),
                          "the pure new-style expression %r is not sent to the v2 parser by auto-detection: %r" % (text, [(k, v) for _, k, v in outs][:1]))
            chk.absorb(it)
    return n


def check_v1_renderings(chk, ix, tier="quick"):
    """U2 over generated old-style renderings: CNF formulas over tag names that CONTAIN the new-style keywords as
    substrings (order, android, not_this) in every decoration style, as one space-separated string: auto-detection
    chooses the v1 reading (a single plain word may go either way) and never raises."""
    import glob as _glob
    chk.rule("U2", WHAT["U2"])
    sel = ix.func("behave.tag_expression.builder:_select_tag_expression_parser4auto")
    names = ["order", "android", "not_this", "a.b-c=d"]
    lits = [(neg, nm) for nm in names for neg in (False, True)]
    groups = [(l,) for l in lits] + [(l, m) for l in lits for m in lits if l[1] < m[1]]
    formulas = [(g,) for g in groups] + [(g, h) for g in groups[:8] for h in groups[8:20]]
    if tier != "thorough":
        formulas = formulas[::3]
    styles = {"plain": ("-", ""), "at": ("-@", "@"), "tilde": ("~", ""), "tilde-at": ("~@", "@")}
    it = Interp(ix, stubs={"glob.has_magic": lambda i, s_, a, k, n_: [(s_, "val", _glob.has_magic(a[0]))]}, name="v1 renderings")
    it.int_sat = 1000
    it.list_cap = 100
    it.fold_regex = True
    it.eager_generators = True
    for formula in formulas:
        for sname, (neg_p, pos_p) in sorted(styles.items()):
            text = " ".join(",".join((neg_p if neg else pos_p) + nm for (neg, nm) in g) for g in formula)
            plain_single = len(formula) == 1 and len(formula[0]) == 1 and not formula[0][0][0]
            st = State()
            st.frames = []
            outs = it.call_function(st, sel, [text], {}, None)
            chk.instance("U2")
            if len(outs) != 1:
                raise AnalysisError("auto-detect not foldable on %r" % text)
            _, k, v = outs[0]
            got = getattr(getattr(v, "func", None), "name", repr(v)) if k == "val" else "raises %r" % (v,)
            if got == "_parse_tag_expression_v1" or (plain_single and got == "_parse_tag_expression_v2"):
                chk.ok("U2", {"old-style text": text, "dialect": got}, nontrivial_key=("v1gen", text))
            else:
                _fail(chk, "U2", sel, "%r -> %s" % (text, got), "the pure old-style expression %r is not read with the old dialect by auto-detection: %s "
                      "(tag names that merely contain and/or/not must not count as operators)" % (text, got))
    chk.absorb(it)
