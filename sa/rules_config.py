# -*- coding: utf-8 -*-
"""C20 Configuration precedence; userdata.

  Z1  Configuration.__init__: config files are loaded into the defaults, the defaults are
      installed into the parser, then the command line is parsed (in this order)
  Z2  OPTIONS consistency: every negative (--no-x / store_false) option shares its dest with a
      positive option the config-file schema exposes; both config readers handle every action
      kind of the schema, rename tags -> config_tags and resolve paths against the config dir
  Z4  command-line defines override file userdata; parse_user_define splits at the first '='
  Z5  UserData.getas: missing -> default untouched; already of the value type -> as is;
      otherwise convert(value) (errors propagate)
  Z6  format/outfiles coupling: derived outfiles and given ones are all resolved against the config dir
  Z7  loading a configuration never mutates the class-level defaults (or anything they share)
"""
from __future__ import annotations

import ast

from .index import AnalysisError, ClassInfo, unparse, NotConst
from .values import Top, HObj, Ref, Exc, State, ClassVal, GE2
from .absint import Interp
from .report import Finding

WHAT = {
    "Z8": "a switch pair whose help names one side 'the default behaviour' really defaults to that side (Configuration.defaults or option order)",
    "Z9": "both config readers store every option under its destination (file tags under config_tags), typed by its action, and resolve paths once against the config file's directory",
    "Z1": "precedence by construction: load config files into defaults, set_defaults(defaults), then parse_args",
    "Z2": "OPTIONS table consistent: negative options pair with a positive one of the same dest; both config readers handle the same action kinds, rename tags, resolve relative to the config file",
    "Z4": "command-line defines are applied after (over) file userdata; -D splits at the first '=' and a bare name means true",
    "Z5": "typed userdata getters: missing -> default as given; right type -> as is; else converted (conversion errors propagate)",
    "Z6": "outfiles derived from formats and given paths/outfiles are all resolved relative to the config file's directory",
    "Z7": "reading configuration files never mutates the class-level defaults or objects shared with them",
}


def _fail(chk, rule, func, witness, text, path=()):
    chk.fail(Finding(rule, func.fullname, witness, text, file=func.file, line=func.lineno, stmt="def " + func.name, path=list(path)))


def check_init_order(chk, ix):
    """Z1 by evaluation: Configuration.__init__ run with recording stand-ins for load_configuration / the argument parser: the files
    are loaded first, the parser then gets defaults that contain what the files set, and only then the command line is parsed."""
    chk.rule("Z1", WHAT["Z1"])
    cc = ix.cls("behave.configuration:Configuration")
    f = cc.lookup("__init__")
    if f is None:
        raise AnalysisError("anchor missing: Configuration.__init__")
    log = []

    def init(it_, st_, a, k, n):
        st_.wobj(a[0]).fields["defaults"] = st_.alloc(HObj("dict", kind="dict", items=[("color", "built-in default"), ("stage", None)]))
        st_.wobj(a[0]).fields["verbose"] = False
        for name in ("formatters", "reporters"):
            st_.wobj(a[0]).fields[name] = st_.alloc(HObj("list", kind="list", items=[]))
        return [(st_, "val", None)]

    def load(it_, st_, a, k, n):
        d = a[0]
        if not (isinstance(d, Ref) and st_.obj(d).kind == "dict"):
            raise AnalysisError("load_configuration is not given a dictionary: %r" % (d,))
        log.append(("load", d.oid))
        o = st_.wobj(d)
        o.items = [(kk, vv) for kk, vv in o.items if kk != "color"] + [("color", "from the config file")]
        return [(st_, "val", None)]

    def set_defaults(it_, st_, a, k, n):
        log.append(("set_defaults", dict(k)))
        return [(st_, "val", None)]

    def parse_args(it_, st_, a, k, n):
        log.append(("parse_args", None))
        fields = {}
        for fixed, kws in _options(ix):
            d = _dest(fixed, kws)
            if d:
                fields[d] = None
        fields.update({"paths": st_.alloc(HObj("list", kind="list", items=[])), "outfiles": None, "steps_catalog": False, "wip": False,
                       "quiet": False, "stage": None, "color": "parsed", "userdata_defines": None, "format": None})
        return [(st_, "val", st_.alloc(HObj("Namespace", fields, label="parsed args")))]
    noop = lambda it_, st_, a, k, n: [(st_, "val", None)]      # noqa: E731
    stubs = {"Configuration.init": init, "Configuration.make_command_args": lambda it_, st_, a, k, n: [(st_, "val", st_.alloc(HObj("list", kind="list", items=["features"])))],
             "load_configuration": load, "behave.configuration.load_configuration": load,
             "setup_parser": lambda it_, st_, a, k, n: [(st_, "val", st_.alloc(HObj("ParserTok", {}, open=True, label="argument parser")))],
             "ParserTok.set_defaults": set_defaults, "ParserTok.parse_args": parse_args, "Configuration.show_bad_formats_and_fail": noop,
             "os.path.normpath": lambda it_, st_, a, k, n: [(st_, "val", a[0])]}
    for name, m in cc.methods.items():
        if name.startswith("setup_"):
            stubs["Configuration." + name] = noop
    it = Interp(ix, stubs=stubs, name="Configuration.__init__")
    it.int_sat = 100
    it.list_cap = 200
    st = State()
    st.frames = []
    me = st.alloc(HObj(cc, {}, label="configuration"))
    try:
        outs = it.call_function(st, f, [st.alloc(HObj("list", kind="list", items=["features"]))], {}, None, self_val=me)
    except AnalysisError as e:
        raise AnalysisError("Configuration.__init__ not evaluable: %s" % e)
    chk.absorb(it)
    chk.instance("Z1")
    if len(outs) != 1 or outs[0][1] != "val":
        raise AnalysisError("Configuration.__init__ not evaluable: %r" % ([(k, v) for _, k, v in outs][:3],))
    order = [e[0] for e in log]
    sd = next((e[1] for e in log if e[0] == "set_defaults"), None)
    if order[:3] != ["load", "set_defaults", "parse_args"] or order.count("parse_args") != 1:
        _fail(chk, "Z1", f, "order %s" % order,
              "Configuration.__init__ does not load the config files, install the defaults and parse the command line in this order: %s" % (order,))
    elif sd.get("color") != "from the config file":
        _fail(chk, "Z1", f, "defaults object differs", "the defaults given to the parser (%r) are not the ones the config files were loaded into" % (sd.get("color"),))
    elif outs[0][0].obj(me).fields.get("color") != "parsed":
        _fail(chk, "Z1", f, "parsed value not stored", "the value the parser returns for an option is not what the Configuration stores (%r)"
              % (outs[0][0].obj(me).fields.get("color"),))
    else:
        chk.ok("Z1", {"order": order, "parser defaults": "include the config-file values", "stored": "what the parser returned"}, nontrivial_key="order")


def _options(ix):
    mod = ix.module("behave.configuration")
    node = mod.consts.get("OPTIONS")
    if not isinstance(node, (ast.List, ast.Tuple)):
        raise AnalysisError("anchor missing: behave.configuration.OPTIONS literal")
    out = []
    for el in node.elts:
        if not (isinstance(el, ast.Tuple) and len(el.elts) == 2):
            continue
        fixed_n, kw_n = el.elts
        try:
            fixed = tuple(ix.fold(fixed_n, mod))
        except NotConst:
            continue
        kws = {}
        if isinstance(kw_n, ast.Call):
            for k in kw_n.keywords:
                try:
                    kws[k.arg] = ix.fold(k.value, mod)
                except NotConst:
                    kws[k.arg] = ("expr", unparse(k.value))
        out.append((fixed, kws))
    return out


def _dest(fixed, kws):
    if "dest" in kws:
        return kws["dest"]
    for w in fixed:
        if w.startswith("--"):
            return w[2:].replace("-", "_")
    return None


def check_options_table(chk, ix):
    chk.rule("Z2", WHAT["Z2"])
    mod = ix.module("behave.configuration")
    opts = _options(ix)
    if len(opts) < 40:
        raise AnalysisError("OPTIONS table: only %d rows recognised" % len(opts))
    positive = {}
    for fixed, kws in opts:
        action = kws.get("action", "store")
        neg = any(w.startswith("--no-") for w in fixed) or action == "store_false"
        if not neg:
            positive.setdefault(_dest(fixed, kws), []).append((fixed, action))
    for fixed, kws in opts:
        action = kws.get("action", "store")
        neg = any(w.startswith("--no-") for w in fixed) or action == "store_false"
        if not neg:
            continue
        chk.instance("Z2")
        d = _dest(fixed, kws)
        if d in positive:
            chk.ok("Z2", {"negative_option": list(fixed), "dest": d, "positive": [list(p[0]) for p in positive[d]]}, nontrivial_key=fixed)
        else:
            chk.fail(Finding("Z2", "behave.configuration:OPTIONS", "%s dest=%s has no positive option" % ("/".join(fixed), d),
                             "negative option %s writes dest %r, which no positive option (and so no config-file key) shares: a value "
                             "from the config file could never be overridden by it" % ("/".join(fixed), d), file=mod.relpath, line=1))
    # that both config-file readers handle every action kind of the schema (store / store_true / append) is decided by
    # Z9 (check_readers_by_evaluation): the readers are evaluated on one option of every kind


def check_outfiles_coupling(chk, ix):
    chk.rule("Z6", WHAT["Z6"])
    f = ix.func("behave.configuration:format_outfiles_coupling")

    def join(it, st, a, k, n):
        return [(st, "val", ("joined", a[0], a[1]))]

    def normpath(it, st, a, k, n):
        return [(st, "val", ("resolved",) + tuple(a[0][1:]) if isinstance(a[0], tuple) else ("normalized", a[0]))]
    it = Interp(ix, stubs={"os.path.join": join, "os.path.normpath": normpath}, name="format_outfiles_coupling")
    it.int_sat = 100
    for case, data, want_out in (
            ("more formats than outfiles", {"format": ["json", "plain"], "outfiles": ["o1"], "paths": ["p1"]},
             [("resolved", "CFGDIR", "o1"), ("resolved", "CFGDIR", "plain.output")]),
            ("formats without outfiles", {"format": ["json"]}, [("resolved", "CFGDIR", "json.output")]),
            ("outfiles only", {"outfiles": ["o1"]}, [("resolved", "CFGDIR", "o1")])):
        st = State()
        st.frames = []
        items = []
        for k_, v in data.items():
            items.append((k_, st.alloc(HObj("list", kind="list", items=list(v)))))
        cfg = st.alloc(HObj("dict", kind="dict", items=items, label="config_data"))
        outs = it.call_function(st, f, [cfg, "CFGDIR"], {}, None)
        chk.absorb(it)
        chk.instance("Z6")
        if len(outs) != 1 or outs[0][1] != "val":
            raise AnalysisError("format_outfiles_coupling not evaluable (%s): %r" % (case, [(k, v) for _, k, v in outs][:2]))
        s = outs[0][0]
        d = dict(s.obj(cfg).items)
        got_out = list(s.obj(d["outfiles"]).items) if isinstance(d.get("outfiles"), Ref) else None
        ok = got_out == want_out
        if ok and "paths" in data:
            gp = list(s.obj(d["paths"]).items)
            ok = gp == [("resolved", "CFGDIR", "p1")]
        if ok:
            chk.ok("Z6", {"case": case, "outfiles": got_out}, nontrivial_key=case)
        else:
            _fail(chk, "Z6", f, "%s -> outfiles %r" % (case, got_out),
                  "config with %s: outfiles become %r, expected %r (every given or derived output file resolved against the "
                  "config file's directory)" % (case, got_out, want_out), s.path)


def check_defaults_not_mutated(chk, ix):
    chk.rule("Z7", WHAT["Z7"])
    f = ix.func("behave.configuration:load_configuration")
    muts = []

    def rec(st, ev):
        if ev[0] in ("mutate", "append", "extend") and ev[1] <= st.base_oid and st.heap[ev[1]].label != "defaults":
            muts.append((st, st.heap[ev[1]].label, ev[3] if len(ev) > 3 else ev[0]))

    def read_cfg(it, st, a, k, n):
        ud = st.alloc(HObj("dict", kind="dict", items=[("name", "from-file")], label="file userdata"))
        return [(st, "val", st.alloc(HObj("dict", kind="dict", items=[("userdata", ud), ("stop", True)], label="file config")))]
    it = Interp(ix, stubs={"read_configuration": read_cfg, "config_filenames": lambda i, s, a, k, n: [(s, "val", ("behave.ini", "tox.ini"))],
                           "six.iteritems": lambda i, s, a, k, n: [(s, "val", ())]}, on_event=rec, name="load_configuration")
    st = State()
    st.frames = []
    shared_ud = st.alloc(HObj("dict", kind="dict", items=[], label="Configuration.defaults['userdata'] (class level, shared)"))
    defaults = st.alloc(HObj("dict", kind="dict", items=[("userdata", shared_ud), ("stop", False)], label="defaults"))
    st.freeze_base()
    outs = it.run(f, st, [defaults], {"verbose": False})
    chk.absorb(it)
    chk.instance("Z7")
    if any(k != "val" for _, k, _ in outs):
        raise AnalysisError("load_configuration not evaluable: %r" % ([(k, v) for _, k, v in outs][:2],))
    if muts:
        s, label, how = muts[0]
        _fail(chk, "Z7", f, "mutates %s via %s" % (label, how),
              "load_configuration changes %s in place (%s): make_defaults() only shallow-copies the class-level defaults, so "
              "values read from a config file leak into every later Configuration object of the process" % (label, how), s.path)
    else:
        s = outs[0][0]
        ud = dict(s.obj(defaults).items).get("userdata")
        chk.ok("Z7", {"shared_objects_mutated": 0, "defaults['userdata']": s.obj(ud).label if isinstance(ud, Ref) else repr(ud)},
               nontrivial_key="no mutation")
    mk = ix.func("behave.configuration:Configuration.make_defaults")
    chk.instance("Z7")
    if any(isinstance(n, ast.Call) and unparse(n.func).endswith("defaults.copy") for n in ast.walk(mk.node)) or \
            any(isinstance(n, ast.Call) and unparse(n.func) in ("dict", "copy.deepcopy", "copy.copy") for n in ast.walk(mk.node)):
        chk.ok("Z7", {"make_defaults": "works on a copy of the class-level table"}, nontrivial_key="copy")
    else:
        _fail(chk, "Z7", mk, "no copy", "make_defaults hands out the class-level defaults table itself")


def check_userdata(chk, ix):
    chk.rule("Z4", WHAT["Z4"])
    chk.rule("Z5", WHAT["Z5"])
    # Z5: getas decision table
    uc = ix.cls("behave.userdata:UserData")
    f = uc.lookup("getas")
    cases = [("missing", None, "DEFAULT-OBJECT"), ("right-type", "typed", None), ("text", "text", None)]
    for case, stored, _ in cases:
        for conv_fails in (False, True):
            if case != "text" and conv_fails:
                continue
            st = State()
            st.frames = []
            called = []

            def convert(it, s, a, k, n, _f=conv_fails):
                called.append(a[0] if a else None)
                if _f:
                    return [(s, "raise", Exc("ValueError", None, "conversion"))]
                return [(s, "val", ("converted", a[0]))]
            items = [] if case == "missing" else [("name", "typed-value" if case == "right-type" else "text-value")]
            me = st.alloc(HObj(uc, {}, kind="dict", items=items, label="userdata"))
            it = Interp(ix, name="UserData.getas")
            orig_isinstance = None
            # isinstance(value, valuetype): valuetype is the converter token -> decide by case
            it.stubs["@isinstance"] = None
            from . import abscall

            def call_builtin_patch(name_case=case):
                orig = abscall.x_isinstance

                def xi(self_, s, v, cls, node):
                    if cls is convert:
                        return name_case == "right-type"
                    return orig(self_, s, v, cls, node)
                return orig, xi
            orig, xi = call_builtin_patch()
            abscall.x_isinstance = xi
            try:
                outs = it.call_function(st, f, [convert, "name", "DEFAULT-OBJECT"], {}, None, self_val=me)
            finally:
                abscall.x_isinstance = orig
            chk.absorb(it)
            chk.instance("Z5")
            got = [(k, v if k == "val" else v.clsname()) for (_, k, v) in outs]
            if case == "missing":
                want = [("val", "DEFAULT-OBJECT")]
                extra_ok = not called
            elif case == "right-type":
                want = [("val", "typed-value")]
                extra_ok = not called
            elif conv_fails:
                want = [("raise", "ValueError")]
                extra_ok = True
            else:
                want = [("val", ("converted", "text-value"))]
                extra_ok = True
            if got == want and extra_ok:
                chk.ok("Z5", {"case": case, "conversion_fails": conv_fails, "result": repr(got[0])}, nontrivial_key=(case, conv_fails))
            else:
                _fail(chk, "Z5", f, "%s fails=%s -> %r converter_called=%s" % (case, conv_fails, got, bool(called)),
                      "UserData.getas for a %s value%s gives %r (converter called with %r); expected %r%s" % (
                          case, " whose conversion fails" if conv_fails else "", got, called, want,
                          "" if extra_ok else " without calling the converter"))
    # Z4: setup_userdata / update_userdata evaluated: command-line defines end up over whatever the files (or later updates) say
    cc = ix.cls("behave.configuration:Configuration")
    for meth, call_args in (("setup_userdata", []), ("update_userdata", [{"a": "late-file", "c": "late-file"}])):
        cf = cc.lookup(meth)
        if cf is None:
            raise AnalysisError("anchor missing: Configuration.%s" % meth)
        for already_wrapped in (False, True):
            it = Interp(ix, name="Configuration." + meth)
            it.int_sat = 100
            it.list_cap = 100
            st = State()
            st.frames = []
            data = st.alloc(HObj(uc if already_wrapped else "dict", {}, kind="dict", items=[("a", "file"), ("b", "file")], label="userdata from the files"))

            def wrap(i, s_, a, k, n):
                src = a[0] if a else None
                items = list(s_.obj(src).items) if isinstance(src, Ref) and s_.obj(src).items is not None else []
                return [(s_, "val", s_.alloc(HObj(uc, {}, kind="dict", items=items, label="UserData")))]
            it.stubs["UserData"] = wrap
            defines = st.alloc(HObj("list", kind="list", items=[("a", "command line")], label="userdata_defines"))
            me = st.alloc(HObj(cc, {"userdata": data, "userdata_defines": defines}, open=True, label="config"))
            args = [st.alloc(HObj("dict", kind="dict", items=list(x.items()))) for x in call_args]
            outs = it.call_function(st, cf, args, {}, None, self_val=me)
            chk.absorb(it)
            chk.instance("Z4")
            if len(outs) != 1 or outs[0][1] != "val":
                raise AnalysisError("Configuration.%s not evaluable: %r" % (meth, [(k, v) for _, k, v in outs][:3]))
            s2 = outs[0][0]
            ud = s2.obj(me).fields.get("userdata")
            got = dict(s2.obj(ud).items) if isinstance(ud, Ref) and s2.obj(ud).items is not None else None
            if got is None:
                raise AnalysisError("Configuration.%s: resulting userdata not concrete" % meth)
            want = {"a": "command line", "b": "file"}
            if call_args:
                want["c"] = "late-file"
            if got == want:
                chk.ok("Z4", {"method": meth, "file userdata": {"a": "file", "b": "file"}, "-D": {"a": "command line"}, "result": got},
                       nontrivial_key=(meth, already_wrapped))
            else:
                _fail(chk, "Z4", cf, "%s -> %r" % (meth, got), "Configuration.%s with file userdata a=file, b=file and the command-line define a='command line' "
                      "leaves %r; expected %r (the command line wins, the rest is kept)" % (meth, got, want))


def check_readers_by_evaluation(chk, ix):
    """Z9: both config readers, evaluated on a config token holding one option of every action kind: each value is stored
    under the option's destination (tags: config_tags), with the value of its kind, and paths are coupled afterwards."""
    chk.rule("Z9", WHAT["Z9"])
    triples = [("tags", "append", None), ("name", "append", None), ("color", "store", None), ("dry_run", "store_true", None),
               ("stage", "store", None), ("format", "append", None)]
    raw = {"tags": ["@a", "not @b"], "name": ["n1"], "color": "always", "dry_run": True, "stage": "develop", "format": ["plain"]}
    want = {"config_tags": ["@a", "not @b"], "name": ["n1"], "color": "always", "dry_run": True, "stage": "develop", "format": ["plain"]}
    for rn in ("read_toml_config", "read_configparser"):
        f = ix.func("behave.configuration:" + rn)
        coupled = []
        st = State()
        st.frames = []

        def lift(v):
            return st.alloc(HObj("list", kind="list", items=list(v))) if isinstance(v, list) else v
        behave_tbl = st.alloc(HObj("dict", kind="dict", items=[(k, lift(v)) for k, v in raw.items()], label="[tool.behave]"))
        tool = st.alloc(HObj("dict", kind="dict", items=[("behave", behave_tbl)], label="tool"))
        cfgdict = st.alloc(HObj("dict", kind="dict", items=[("tool", tool)], label="pyproject"))
        cp = st.alloc(HObj("ConfigParserTok", {}, open=True, label="ConfigParser"))

        def cp_get(i, s_, a, k, n):
            v = raw[a[2]]
            return [(s_, "val", "\n".join(v) if isinstance(v, list) else v)]
        stubs = {"@with": "transparent",
                 "configfile_options_iter": lambda i, s_, a, k, n: [(s_, "val", tuple(triples))],
                 "format_outfiles_coupling": lambda i, s_, a, k, n: (coupled.append(a[1] if len(a) > 1 else None), [(s_, "val", None)])[1],
                 "_values_to_str": lambda i, s_, a, k, n: [(s_, "val", a[0])],
                 "open": lambda i, s_, a, k, n: [(s_, "val", "FILE")],
                 "tomllib.load": lambda i, s_, a, k, n: [(s_, "val", cfgdict)], "json.dumps": lambda i, s_, a, k, n: [(s_, "val", a[0])],
                 "json.loads": lambda i, s_, a, k, n: [(s_, "val", a[0])],
                 "os.path.dirname": lambda i, s_, a, k, n: [(s_, "val", "CONFIG-DIR")],
                 "ConfigParser": lambda i, s_, a, k, n: [(s_, "val", cp)],
                 "ConfigParserTok.read": lambda i, s_, a, k, n: [(s_, "val", None)],
                 "ConfigParserTok.get": cp_get,
                 "ConfigParserTok.getboolean": lambda i, s_, a, k, n: [(s_, "val", bool(raw[a[2]]))],
                 "ConfigParserTok.has_section": lambda i, s_, a, k, n: [(s_, "val", False)]}
        it = Interp(ix, stubs=stubs, name=rn)
        it.int_sat = 100
        it.list_cap = 100
        for nm in ("tomllib", "tomli"):
            it.stubs[nm + ".load"] = stubs["tomllib.load"]
        outs = it.call_function(st, f, ["some/dir/behave.cfg"], {}, None)
        chk.absorb(it)
        outs = [o for o in outs if o[1] == "val"]
        if not outs or not all(isinstance(o[2], Ref) for o in outs):
            raise AnalysisError("%s not evaluable on the config token: %r" % (rn, [(k, v) for _, k, v in outs][:3]))
        gots = []
        for (s2, _, res) in outs:
            g_ = {}
            for k, v in s2.obj(res).items:
                g_[k] = list(s2.obj(v).items) if isinstance(v, Ref) and s2.obj(v).kind == "list" and s2.obj(v).items is not None else v
            if g_ not in gots:
                gots.append(g_)
        if len(gots) != 1:
            raise AnalysisError("%s yields %d different results on one config token: %r" % (rn, len(gots), gots))
        got = gots[0]
        for key, val in sorted(want.items()):
            chk.instance("Z9")
            if got.get(key, KeyError) == val:
                chk.ok("Z9", {"reader": rn, "stored": {key: val}}, nontrivial_key=(rn, key))
            else:
                _fail(chk, "Z9", f, "%s: %s -> %r" % (rn, key, got.get(key, "missing")),
                      "%s given %r stores %r under %r; expected %r (every option under its destination, file tags under config_tags)" % (
                          rn, raw, got.get(key, "nothing"), key, val))
        chk.instance("Z9")
        extra = sorted(k for k in got if k not in want and k not in ("more_formatters", "more_runners", "userdata"))
        if extra or coupled != ["CONFIG-DIR"]:
            _fail(chk, "Z9", f, "%s: extra keys %s, coupling %s" % (rn, extra, coupled),
                  "%s also stores %s / resolves paths against %s (expected nothing else, paths resolved once against the config file's "
                  "directory)" % (rn, extra, coupled))
        else:
            chk.ok("Z9", {"reader": rn, "no other keys": True, "paths resolved against": "dirname(path)"}, nontrivial_key=(rn, "rest"))


def check_user_define_concrete(chk, ix, tier="quick"):
    """Z4 on concrete -D texts: every documented schema of parse_user_define (constant folding)."""
    chk.rule("Z4", WHAT["Z4"])
    f = ix.func("behave.userdata:parse_user_define")
    cases = [("name=value", ("name", "value")), ("name", ("name", "true")), ('"name=value"', ("name", "value")), ("'name=value'", ("name", "value")),
             ('name="value"', ("name", "value")), ("name='value'", ("name", "value")), ("  name = value  ", ("name", "value")),
             ('person = "Alice"', ("person", "Alice")), ('count = "42"', ("count", "42")), ('person=" Alice "', ("person", " Alice ")),
             ("url=http://x/?a=b", ("url", "http://x/?a=b")), ("empty=", ("empty", "")), ("a=b=c", ("a", "b=c")), ("flag ", ("flag", "true"))]
    # generated: name x padding x quoting x value (the documented schemas combined)
    gen = []
    for name in ("n", "a.b"):
        for value in ("v", "4 2", "x=y", "", "it's"):
            for pad_l, pad_r in (("", ""), (" ", " "), ("  ", "")):
                for q in ("", '"', "'"):
                    if q and q in value:
                        continue
                    gen.append(("%s%s=%s%s%s%s" % (name, pad_l, pad_r, q, value, q), (name, value)))
                    if not q:
                        continue
                    gen.append(("%s%s%s=%s%s%s" % (q, name, pad_l, pad_r, value, q), (name, value)))
    have = {c[0] for c in cases}
    gen = [g for g in gen if g[0] not in have and not (g[1][1] == "" and g[0].endswith(" "))]
    cases = cases + (gen if tier == "thorough" else gen[::4])
    it = Interp(ix, name="parse_user_define")
    it.int_sat = 1000
    it.list_cap = 100
    for text, want in cases:
        st = State()
        st.frames = []
        outs = it.call_function(st, f, [text], {}, None)
        chk.instance("Z4")
        if len(outs) != 1 or outs[0][1] != "val":
            raise AnalysisError("parse_user_define not foldable on %r: %r" % (text, [(k, v) for _, k, v in outs][:3]))
        got = outs[0][2]
        if isinstance(got, Ref):
            got = tuple(outs[0][0].obj(got).items)
        if got == want:
            chk.ok("Z4", {"-D": text, "name": want[0], "value": want[1]}, nontrivial_key=("define", text))
        else:
            _fail(chk, "Z4", f, "%r -> %r" % (text, got), "the command-line define %r is read as %r; the documented schemas give %r" % (text, got, want))
    chk.absorb(it)


def check_documented_defaults(chk, ix):
    """Z8: where a switch pair (--x / --no-x) documents one side as 'the default behaviour', the effective default of
    the shared destination is that side.  Effective default: Configuration.defaults[dest] when present, otherwise what
    argparse takes from the FIRST option of that destination in the table (store_false -> True, store_true -> False)."""
    chk.rule("Z8", WHAT["Z8"])
    mod = ix.module("behave.configuration")
    opts = _options(ix)
    cc = ix.cls("behave.configuration:Configuration")
    lc = cc.lookup_const("defaults")
    defaults = None
    if lc is not None and isinstance(lc[1], ast.Call) and unparse(lc[1].func) == "dict":
        defaults = {}
        for k in lc[1].keywords:
            try:
                defaults[k.arg] = ix.fold(k.value, lc[0].module)
            except NotConst:
                defaults[k.arg] = ("expr", unparse(k.value))
    elif lc is not None and isinstance(lc[1], ast.Dict):
        defaults = {}
        for k, v in zip(lc[1].keys, lc[1].values):
            try:
                defaults[ix.fold(k, lc[0].module)] = ix.fold(v, lc[0].module)
            except NotConst:
                pass
    if not isinstance(defaults, dict) or len(defaults) < 10:
        raise AnalysisError("anchor missing: Configuration.defaults literal")
    by_dest = {}
    for fixed, kws in opts:
        if kws.get("action") in ("store_true", "store_false"):
            by_dest.setdefault(_dest(fixed, kws), []).append((fixed, kws))
    n = 0
    for dest, rows in sorted(by_dest.items()):
        documented = [r for r in rows if isinstance(r[1].get("help"), str) and "default behaviour" in " ".join(r[1]["help"].split()).lower()]
        if len(rows) >= 2 and not documented and len({r[1]["action"] for r in rows}) == 2:
            # a two-sided switch whose help names no default: its built-in default has to be stated in Configuration.defaults -
            # otherwise it is an accident of the table order (argparse takes the FIRST option's implicit default)
            n += 1
            chk.instance("Z8")
            if dest in defaults:
                chk.ok("Z8", {"dest": dest, "documented default": None, "stated default": defaults[dest], "from": "Configuration.defaults"}, nontrivial_key=dest)
            else:
                first = rows[0][1]
                eff = first["default"] if "default" in first else (first["action"] == "store_false")
                chk.fail(Finding("Z8", "behave.configuration:OPTIONS", "%s: no stated default, effective %r" % (dest, eff),
                                 "the switch pair %s has no stated built-in default (neither in Configuration.defaults nor in a help text): an option that is "
                                 "mentioned nowhere gets %s=%r only because %s happens to be registered first" % (
                                     " / ".join("/".join(r[0]) for r in rows), dest, eff, "/".join(rows[0][0])), file=mod.relpath, line=1))
            continue
        if len(rows) < 2 or not documented:
            continue
        n += 1
        chk.instance("Z8")
        fixed, kws = documented[0]
        doc_value = kws["action"] == "store_true"
        if dest in defaults:
            eff, src = defaults[dest], "Configuration.defaults"
        else:
            first = rows[0][1]
            eff = first["default"] if "default" in first else (first["action"] == "store_false")
            src = "the first option of the table for this destination (%s)" % "/".join(rows[0][0])
        if eff is doc_value or eff == doc_value:
            chk.ok("Z8", {"dest": dest, "documented default": "/".join(fixed), "effective default": eff, "from": src}, nontrivial_key=dest)
        else:
            chk.fail(Finding("Z8", "behave.configuration:OPTIONS", "%s: documented %s, effective %r" % (dest, "/".join(fixed), eff),
                             "the help of %s says it is the default behaviour (%s=%s), but the effective default of %s is %r, taken from %s" % (
                                 "/".join(fixed), dest, doc_value, dest, eff, src), file=mod.relpath, line=1))
    if n < 8:
        raise AnalysisError("anchor drift: only %d switch pairs found (10 confirmed)" % n)


WHAT["Z10"] = "the command-line defines are merged into the userdata before anything that reads the userdata is set up (reporters, formatters)"
WHAT["Z11"] = "every Configuration gets its own option parser: setup_parser keeps no parser in module-level state"


def check_userdata_before_consumers(chk, ix):
    """Z10 (must-precede over the resolved call graph): in Configuration.__init__ the call of setup_userdata() comes before
    every call of a Configuration method that (transitively) hands the configuration to a reporter / formatter
    constructor or reads self.userdata."""
    chk.rule("Z10", WHAT["Z10"])
    cc = ix.cls("behave.configuration:Configuration")
    init = cc.lookup("__init__")

    def reads_userdata(fn, seen=None):
        seen = seen or set()
        if fn.fullname in seen:
            return False
        seen.add(fn.fullname)
        for n in ast.walk(fn.node):
            if isinstance(n, ast.Attribute) and n.attr == "userdata" and isinstance(n.ctx, ast.Load) and unparse(n.value) == "self":
                return True
            if isinstance(n, ast.Call):
                # the configuration object handed to something that is constructed: reporters and formatters read config.userdata
                if any(isinstance(a, ast.Name) and a.id == "self" for a in n.args) and unparse(n.func)[:1].isupper():
                    return True
                if isinstance(n.func, ast.Attribute) and unparse(n.func.value) == "self":
                    callee = cc.lookup(n.func.attr)
                    if callee is not None and callee.kind not in ("property",) and reads_userdata(callee, seen):
                        return True
        return False
    order = []
    for stmt in init.node.body:
        for n in ast.walk(stmt):
            if isinstance(n, ast.Call) and isinstance(n.func, ast.Attribute) and unparse(n.func.value) == "self":
                order.append((n.lineno, n.func.attr))
    order.sort()
    names = [n for _, n in order]
    if "setup_userdata" not in names:
        raise AnalysisError("anchor missing: Configuration.__init__ does not call setup_userdata()")
    at = names.index("setup_userdata")
    consumers = []
    for i, nm in enumerate(names):
        callee = cc.lookup(nm)
        if nm in ("setup_userdata", "init", "make_command_args", "make_defaults") or callee is None:
            continue
        if reads_userdata(callee):
            consumers.append((i, nm))
    if not consumers:
        raise AnalysisError("anchor drift: no setup step of Configuration.__init__ reads the userdata / constructs reporters")
    for i, nm in consumers:
        chk.instance("Z10")
        if i > at:
            chk.ok("Z10", {"setup step": nm, "runs": "after setup_userdata()"}, nontrivial_key=nm)
        else:
            _fail(chk, "Z10", init, "%s() before setup_userdata()" % nm, "Configuration.__init__ calls %s(), which reads the userdata or constructs reporters / "
                  "formatters from the configuration, before setup_userdata() has merged the command-line defines: a -D override does not reach it" % nm)


def check_parser_is_fresh(chk, ix):
    """Z11: setup_parser builds a new argparse parser on every call (parser.set_defaults of one Configuration must not be
    visible to the next)."""
    chk.rule("Z11", WHAT["Z11"])
    f = ix.func("behave.configuration:setup_parser")
    chk.instance("Z11")
    globals_ = [n for n in ast.walk(f.node) if isinstance(n, (ast.Global, ast.Nonlocal))]
    ctor_top = [s_ for s_ in f.node.body if any(isinstance(n, ast.Call) and unparse(n.func).endswith("ArgumentParser") for n in ast.walk(s_))
                and not isinstance(s_, (ast.If, ast.Try, ast.For, ast.While, ast.With))]
    early = [s_ for s_ in f.node.body if isinstance(s_, ast.If) and any(isinstance(n, ast.Return) for n in ast.walk(s_))]
    attr_cache = [n for n in ast.walk(f.node) if isinstance(n, ast.Attribute) and isinstance(n.value, ast.Name) and n.value.id == f.name]
    if not globals_ and ctor_top and not early and not attr_cache:
        chk.ok("Z11", {"setup_parser": "constructs a new ArgumentParser unconditionally, no global / function-attribute state"}, nontrivial_key="fresh")
    else:
        _fail(chk, "Z11", f, "parser kept across calls", "setup_parser %s: defaults installed into the parser by one Configuration (config-file values) stay "
              "installed for the next Configuration of the same process" % (
                  "declares module-level state (%s)" % ", ".join(unparse(g) for g in globals_) if globals_ else
                  "can return before constructing a parser" if early else "does not construct its parser unconditionally"))



WHAT["Z12"] = "every logging level name the option advertises is accepted and converted to logging's number (NOTSET = 0 included); an unknown name is a usage error"


def check_loglevel_names(chk, ix):
    """Z12: LogLevel.parse_type constant-folded on the names of LogLevel.names (any case) and on an unknown name."""
    chk.rule("Z12", WHAT["Z12"])
    import logging as _logging
    lc_ = ix.cls("behave.configuration:LogLevel")
    f = lc_.lookup("parse_type")
    ln = lc_.lookup_const("names")
    if f is None or ln is None:
        raise AnalysisError("anchor missing: LogLevel.parse_type / LogLevel.names")
    names = ix.fold(ln[1], ln[0].module)
    cases = [(n_, getattr(_logging, n_)) for n_ in names] + [(names[1].lower(), getattr(_logging, names[1])), ("notset", 0), ("BOGUS", "error")]
    for name, want in cases:
        it = Interp(ix, name="LogLevel.parse_type")
        it.int_sat = 1000
        st = State()
        st.frames = []
        outs = it.call_function(st, f, [name], {}, None, self_val=ClassVal(lc_))
        chk.absorb(it)
        chk.instance("Z12")
        if len(outs) != 1:
            raise AnalysisError("LogLevel.parse_type(%r) not foldable: %r" % (name, [(k, v) for _, k, v in outs][:3]))
        _, k, v = outs[0]
        got = "error" if k == "raise" else v
        if got == want and (want == "error" or isinstance(got, int)):
            chk.ok("Z12", {"level name": name, "parse_type": got}, nontrivial_key=name)
        else:
            chk.fail(Finding("Z12", f.fullname, "%s -> %r" % (name, got if k != "raise" else v.clsname()),
                             "LogLevel.parse_type(%r) %s; expected %s: --logging-level=%s (or logging_level = %s in a configuration file) is %s"
                             % (name, "raises %s" % v.clsname() if k == "raise" else "returns %r" % (v,), "a usage error" if want == "error" else want, name, name,
                                "rejected" if k == "raise" else "accepted"), file=f.file, line=f.lineno, stmt="def parse_type"))



def check_typed_getters_concrete(chk, ix):
    """Z5 on concrete values: getbool / getint / getfloat on a UserData that holds typed values (from a TOML file, from
    Configuration(userdata=...)) and texts (from -D, from an ini file): a typed value comes back as it is, a text is
    converted, a missing name gives the default, an unconvertible text raises ValueError."""
    chk.rule("Z5", WHAT["Z5"])
    uc = ix.cls("behave.userdata:UserData")
    cases = [("getbool", True, True), ("getbool", False, False), ("getbool", "yes", True), ("getbool", "off", False), ("getbool", " TRUE ", True),
             ("getbool", "maybe", "ValueError"), ("getbool", None, "DEFAULT"),
             ("getint", 3, 3), ("getint", "12", 12), ("getint", "x", "ValueError"), ("getint", None, "DEFAULT"),
             ("getfloat", 1.5, 1.5), ("getfloat", "2.5", 2.5), ("getfloat", None, "DEFAULT")]
    for getter, stored, want in cases:
        f = uc.lookup(getter)
        if f is None:
            raise AnalysisError("anchor missing: UserData.%s" % getter)
        it = Interp(ix, name="UserData." + getter)
        it.int_sat = 100000
        st = State()
        st.frames = []
        me = st.alloc(HObj(uc, {}, kind="dict", items=[] if stored is None else [("name", stored)], label="userdata"))
        try:
            outs = it.call_function(st, f, ["name"], {"default": "DEFAULT"} if stored is None else {}, None, self_val=me)
        except AnalysisError as e:
            raise AnalysisError("UserData.%s(%r) not foldable: %s" % (getter, stored, e))
        chk.absorb(it)
        chk.instance("Z5")
        got = [v if k == "val" else v.clsname() for (_, k, v) in outs]
        if any(isinstance(g_, Top) for g_ in got):
            raise AnalysisError("UserData.%s(%r) does not fold to a constant: %r" % (getter, stored, got))
        if len(got) == 1 and got[0] == want and type(got[0]) is type(want):
            chk.ok("Z5", {"getter": getter, "stored": repr(stored), "returns": repr(want)}, nontrivial_key=(getter, repr(stored)))
        else:
            chk.fail(Finding("Z5", f.fullname, "%s on %r -> %r" % (getter, stored, got),
                             "UserData.%s('name') with the stored value %r gives %r; expected %r (a value that already has the type comes back as it is, "
                             "a text is converted, an unconvertible text is a ValueError)" % (getter, stored, got, want),
                             file=f.file, line=f.lineno, stmt="def " + getter))



WHAT["Z13"] = "the command line reaches the option parser word for word: nothing is inserted, dropped or reordered - except the one documented '--' after a value-less --color that is followed by an existing path"


def check_command_args_unchanged(chk, ix):
    """Z13: Configuration.make_command_args evaluated on concrete argument lists (os.path.exists answered by the rule)."""
    chk.rule("Z13", WHAT["Z13"])
    cc = ix.cls("behave.configuration:Configuration")
    f = cc.lookup("make_command_args")
    if f is None:
        raise AnalysisError("anchor missing: Configuration.make_command_args")
    existing = {"features/a.feature", "features"}
    cases = [(["--no-skipped", "-T", "-D", "browser=chrome", "features/a.feature"], None),
             (["--color", "--no-skipped", "-T", "-D", "browser=chrome"], None),
             (["--color", "always", "features/a.feature"], None),
             (["--color=off", "features"], None),
             (["--color", "features/a.feature", "--stop"], ["--color", "--", "features/a.feature", "--stop"]),
             ([], None)]
    for args, want in cases:
        want = list(args) if want is None else want
        it = Interp(ix, stubs={"os.path.exists": lambda i, s_, a, k, n: [(s_, "val", a[0] in existing)],
                               "to_texts": lambda i, s_, a, k, n: [(s_, "val", a[0])]}, name="make_command_args")
        it.int_sat = 1000
        it.list_cap = 100
        st = State()
        st.frames = []
        me = st.alloc(HObj(cc, {"verbose": None}, label="config"))
        lst = st.alloc(HObj("list", kind="list", items=list(args)))
        try:
            outs = it.call_function(st, f, [lst], {}, None, self_val=me)
        except AnalysisError as e:
            raise AnalysisError("make_command_args(%r) not foldable: %s" % (args, e))
        chk.absorb(it)
        chk.instance("Z13")
        got = None
        if len(outs) == 1 and outs[0][1] == "val":
            v = outs[0][2]
            got = list(outs[0][0].obj(v).items) if isinstance(v, Ref) and outs[0][0].obj(v).items is not None else (list(v) if isinstance(v, (tuple, list)) else None)
        if got is None and not (len(outs) == 1 and outs[0][1] == "raise"):
            raise AnalysisError("make_command_args(%r) not foldable: %r" % (args, [(k, v) for _, k, v in outs][:3]))
        if got == want:
            chk.ok("Z13", {"command line": args, "handed to the parser": got}, nontrivial_key=tuple(args))
        elif len(outs) == 1 and outs[0][1] == "raise" and args[-1:] == ["--color"]:
            chk.ok("Z13", {"command line": args, "raises": outs[0][2].clsname()}, nontrivial_key=tuple(args))
        else:
            chk.fail(Finding("Z13", f.fullname, "%s -> %s" % (args, got if got is not None else outs[0][2].clsname()),
                             "the command line %r reaches the option parser as %r; expected %r (options and -D defines behind an inserted '--' are read as "
                             "paths: they are lost and the configuration file's values win)" % (args, got if got is not None else "an exception", want),
                             file=f.file, line=f.lineno, stmt="def make_command_args"))


WHAT["Z14"] = ("setup_userdata merges the -D defines into a UserData of this Configuration: the dictionary it was given (the shared "
               "class-level default when no config file sets userdata) is not written to, and the defines win")


def check_setup_userdata(chk, ix):
    """Z14: Configuration.setup_userdata evaluated with userdata = a plain dict that somebody else owns, and with a UserData."""
    chk.rule("Z14", WHAT["Z14"])
    cc = ix.cls("behave.configuration:Configuration")
    uc = ix.cls("behave.userdata:UserData")
    f = cc.lookup("setup_userdata")
    if f is None:
        raise AnalysisError("anchor missing: Configuration.setup_userdata")
    for given in ("a shared plain dict", "a UserData object"):
        def userdata_ctor(it_, st_, a, k, n):
            items = []
            if a and isinstance(a[0], Ref) and st_.obj(a[0]).items is not None:
                items = list(st_.obj(a[0]).items)
            return [(st_, "val", st_.alloc(HObj(uc, {}, kind="dict", items=items, label="UserData made here")))]
        it = Interp(ix, stubs={"UserData": userdata_ctor}, name="Configuration.setup_userdata")
        it.int_sat = 100
        it.list_cap = 100
        st = State()
        st.frames = []
        if given.startswith("a shared"):
            data = st.alloc(HObj("dict", kind="dict", items=[("from_file", "1")], label="shared defaults dict"))
        else:
            data = st.alloc(HObj(uc, {}, kind="dict", items=[("from_file", "1")], label="UserData"))
        defines = st.alloc(HObj("list", kind="list", items=[("from_file", "2"), ("only_cmdline", "x")]))
        me = st.alloc(HObj(cc, {"userdata": data, "userdata_defines": defines}, label="configuration"))
        outs = it.call_function(st, f, [], {}, None, self_val=me)
        chk.absorb(it)
        chk.instance("Z14")
        if len(outs) != 1 or outs[0][1] != "val":
            raise AnalysisError("setup_userdata not evaluable (%s): %r" % (given, [(k, v) for _, k, v in outs][:2]))
        s2 = outs[0][0]
        ud = s2.obj(me).fields.get("userdata")
        problems = []
        if not (isinstance(ud, Ref) and s2.obj(ud).cls is uc):
            problems.append("config.userdata is not a UserData afterwards")
        else:
            got = dict(s2.obj(ud).items or [])
            if got.get("from_file") != "2" or got.get("only_cmdline") != "x":
                problems.append("the -D defines are not in config.userdata (%r)" % (got,))
        if given.startswith("a shared") and dict(s2.obj(data).items or []) != {"from_file": "1"}:
            problems.append("the dictionary handed in (the shared default) was written to: %r - every later Configuration of the process starts "
                            "with these values" % (dict(s2.obj(data).items or []),))
        if not problems:
            chk.ok("Z14", {"userdata given as": given, "result": "own UserData with the defines on top"}, nontrivial_key=given)
        else:
            _fail(chk, "Z14", f, "%s: %s" % (given, problems[0]), "setup_userdata with userdata given as %s: %s" % (given, "; ".join(problems)))
    chk.require_instances("Z14", 2)


WHAT["Z15"] = "runner aliases from the config file ([behave.runners]) override the built-in aliases of the same name, the others stay"


def check_runner_aliases(chk, ix):
    """Z15: Configuration.setup_runner_aliases evaluated with a configured alias that re-defines 'default' and one that is new."""
    chk.rule("Z15", WHAT["Z15"])
    cc = ix.cls("behave.configuration:Configuration")
    f = cc.lookup("setup_runner_aliases")
    if f is None:
        raise AnalysisError("anchor missing: Configuration.setup_runner_aliases")
    for more in ({"default": "my.pkg:Runner", "fast": "my.pkg:FastRunner"}, None, {}):
        it = Interp(ix, name="Configuration.setup_runner_aliases")
        it.int_sat = 100
        st = State()
        st.frames = []
        builtin = st.alloc(HObj("dict", kind="dict", items=[("default", "behave.runner:Runner")], label="built-in aliases"))
        mr = None if more is None else st.alloc(HObj("dict", kind="dict", items=list(more.items()), label="more_runners"))
        me = st.alloc(HObj(cc, {"runner_aliases": builtin, "more_runners": mr}, label="configuration"))
        outs = it.call_function(st, f, [], {}, None, self_val=me)
        chk.absorb(it)
        chk.instance("Z15")
        if len(outs) != 1 or outs[0][1] != "val":
            raise AnalysisError("setup_runner_aliases not evaluable: %r" % ([(k, v) for _, k, v in outs][:2],))
        s2 = outs[0][0]
        ra = s2.obj(me).fields.get("runner_aliases")
        got = dict(s2.obj(ra).items) if isinstance(ra, Ref) and s2.obj(ra).items is not None else None
        want = {"default": "behave.runner:Runner"}
        want.update(more or {})
        if got == want:
            chk.ok("Z15", {"configured": more, "aliases": got}, nontrivial_key=repr(more))
        else:
            _fail(chk, "Z15", f, "more_runners=%r -> %r" % (more, got), "with the configured runner aliases %r the alias table is %r, expected %r "
                  "(what the file says wins over the built-in alias of the same name)" % (more, got, want))
    chk.require_instances("Z15", 3)
