# -*- coding: utf-8 -*-
"""C10 (and the read-back half of C17): selection by file location / name.

  L1  entity at a line -> its scenarios (Feature, Rule: walk; Outline: rows; Scenario: itself);
      isinstance ladders test subclasses before base classes (RF1)
  L3  the key list handed to bisect is sorted
  L4  build_feature: unselected = all - selected BY IDENTITY; every unselected scenario without
      setup/teardown tag is mark_skipped, no selected one is; no lines / bare file => untouched
  L6  add_location: no line (None/0) => all scenarios; a line => recorded
  L7  name selection truth tables
  L8  the per-file collector is completely re-initialised by clear() (state of one file never
      leaks into the next one)
"""
from __future__ import annotations

import ast

from .index import AnalysisError, ClassInfo, EnumVal, unparse, norm_stmt
from .values import Top, HObj, Ref, Exc, State, ClassVal, GE2
from .absint import Interp
from .report import Finding

WHAT = {
    "L10": "walk_scenarios flattens the feature: scenarios, every rule's scenarios recursively, every outline's rows (outline / rule objects only on request)",
    "L9": "location texts and features list files are read as written: FILE[:LINE], comments/blank lines skipped, names stripped and resolved against the list file's directory",
    "L1": "entity found at a line expands to exactly its scenarios; isinstance ladders test subclasses first",
    "L3": "bisect works on a sorted key list",
    "L4": "build_feature skips exactly the unselected scenarios (by identity) except setup/teardown ones",
    "L6": "location without line selects all scenarios; with a line it is recorded",
    "L7": "name selection: scenario runs iff no name filter or its name matches; outline iff some row matches",
    "L8": "collector.clear() re-initialises every field: nothing leaks from one feature file to the next",
    "RF1": "in isinstance / except ladders no class follows one of its own base classes",
}


def _fail(chk, rule, func, witness, text, path=(), line=None):
    chk.fail(Finding(rule, func.fullname, witness, text, file=func.file, line=line or func.lineno, stmt="def " + func.name,
                     path=list(path)))


# ----------------------------------------------------------------------
# RF1: ladder order (generic)
# ----------------------------------------------------------------------
def check_ladders(chk, ix, funcs, rule="RF1"):
    chk.rule(rule, WHAT["RF1"])
    for f in funcs:
        mod = f.module
        for n in ast.walk(f.node):
            chains = []
            if isinstance(n, ast.If):
                # only the head of an if/elif chain
                parent = getattr(n, "_parent", None)
                if isinstance(parent, ast.If) and parent.orelse == [n]:
                    continue
                seq = []
                cur = n
                var = None
                while isinstance(cur, ast.If):
                    t = cur.test
                    if isinstance(t, ast.Call) and unparse(t.func) == "isinstance" and len(t.args) == 2:
                        v = unparse(t.args[0])
                        if var is None:
                            var = v
                        if v == var:
                            seq.append((t.args[1], cur.lineno))
                    cur = cur.orelse[0] if len(cur.orelse) == 1 else None
                if len(seq) >= 2:
                    chains.append(("isinstance(%s, ...)" % var, seq))
            elif isinstance(n, ast.Try) and len(n.handlers) >= 2:
                chains.append(("except", [(h.type, h.lineno) for h in n.handlers if h.type is not None]))
            for label, seq in chains:
                chk.instance(rule)
                resolved = []
                for expr, ln in seq:
                    exprs = expr.elts if isinstance(expr, ast.Tuple) else [expr]
                    for e in exprs:
                        r = ix.resolve_expr(mod, e)
                        name = unparse(e).split(".")[-1]
                        resolved.append((r if isinstance(r, ClassInfo) else name, ln, unparse(e)))
                bad = None
                for i, (ci, ln, txt) in enumerate(resolved):
                    for (cj, ln2, txt2) in resolved[:i]:
                        if ci is cj or txt == txt2:
                            continue
                        try:
                            if ix.exc_is_subclass(ci, cj):
                                bad = (txt, txt2, ln)
                        except AnalysisError:
                            pass
                if bad:
                    _fail(chk, rule, f, "%s: %s after %s" % (label, bad[0], bad[1]),
                          "in %s the %s arm for %s comes after the arm for its base class %s: it can never be taken" % (
                              f.qualname, label, bad[0], bad[1]), line=bad[2])
                else:
                    chk.ok(rule, {"function": f.qualname, "ladder": label, "order": [t for _, _, t in resolved]},
                           nontrivial_key=(f.fullname, label, tuple(t for _, _, t in resolved)))


# ----------------------------------------------------------------------
def _model_token(ix, st, cls, name, **fields):
    f = {"name": name, "keyword": "Scenario", "tags": (), "parent": None}
    f.update(fields)
    return st.alloc(HObj(ix.cls("behave.model:" + cls), f, label=name))


def check_line_expansion(chk, ix):
    chk.rule("L1", WHAT["L1"])
    chk.rule("L3", WHAT["L3"])
    dbc = ix.cls("behave.runner_util:FeatureLineDatabase")
    f = dbc.lookup("select_scenarios_by_line")
    for kind in ("Feature", "Rule", "ScenarioOutline", "Scenario"):
        st = State()
        st.frames = []
        walked = st.alloc(HObj("list", kind="list", items=["walk-result"], label="walk_scenarios()"))
        rows = st.alloc(HObj("list", kind="list", items=["row1", "row2"], label="outline rows"))
        item = _model_token(ix, st, kind, "item")
        if kind in ("Feature", "Rule"):
            # direct children only (an outline as one object): not what a line addressing the container selects
            st.wobj(item).fields["scenarios"] = st.alloc(HObj("list", kind="list", items=["direct-child", "outline-object"], label="direct children"))
            st.wobj(item).fields["rules"] = st.alloc(HObj("list", kind="list", items=[], label="rules"))
            st.wobj(item).fields["run_items"] = st.alloc(HObj("list", kind="list", items=["direct-child", "outline-object"], label="run items"))
        if kind == "ScenarioOutline":
            st.wobj(item).fields["_scenarios"] = st.alloc(HObj("list", kind="list", items=[], label="row cache (not built yet)"))
        stubs = {"FeatureLineDatabase.select_run_item_by_line": lambda it, s, a, k, n: [(s, "val", item)],
                 "ScenarioContainer.walk_scenarios": lambda it, s, a, k, n: [(s, "val", walked)]}
        it = Interp(ix, stubs=stubs, attr_stubs={"ScenarioOutline.scenarios": lambda i, s, b, n: [(s, "val", rows)]},
                    name="select_scenarios_by_line")
        db = st.alloc(HObj(dbc, {}, label="line db"))
        outs = it.call_function(st, f, [7], {}, None, self_val=db)
        chk.absorb(it)
        chk.instance("L1")
        if len(outs) != 1 or outs[0][1] != "val":
            raise AnalysisError("select_scenarios_by_line not evaluable for %s" % kind)
        s, _, res = outs[0]
        items = s.obj(res).items if isinstance(res, Ref) else None
        want = {"Feature": ["walk-result"], "Rule": ["walk-result"], "ScenarioOutline": ["row1", "row2"]}.get(kind)
        ok = (items == want) if want is not None else (items is not None and len(items) == 1 and isinstance(items[0], Ref) and items[0].oid == item.oid)
        if ok:
            chk.ok("L1", {"entity": kind, "selects": "its scenarios" if kind != "Scenario" else "itself"}, nontrivial_key=kind)
        else:
            _fail(chk, "L1", f, "%s -> %r" % (kind, items), "a line addressing a %s selects %r instead of %s" % (
                kind, items, "exactly that scenario" if want is None else want))
    # L3: sorted keys
    mk = dbc.lookup("make_line_data_for")
    chk.instance("L3")
    rets = [n for n in ast.walk(mk.node) if isinstance(n, ast.Return) and n.value is not None]
    sorted_ok = all(isinstance(r.value, ast.Call) and unparse(r.value.func) == "sorted" for r in rets) and rets
    if not sorted_ok:
        # in-place sort accepted
        sorted_ok = any(isinstance(n, ast.Call) and isinstance(n.func, ast.Attribute) and n.func.attr == "sort" for n in ast.walk(mk.node))
    if sorted_ok:
        chk.ok("L3", {"make_line_data_for": "returns sorted line data"}, nontrivial_key="sorted")
    else:
        _fail(chk, "L3", mk, "line data not sorted", "make_line_data_for does not return sorted line data: bisect on the keys is meaningless")
    # which entity a line addresses: the last one that starts at or before the line (the first one for lines before it) -
    # select_run_item_by_line evaluated on a concrete line database (bisect is the stdlib's)
    sel = dbc.lookup("select_run_item_by_line")
    if sel is None:
        raise AnalysisError("anchor missing: FeatureLineDatabase.select_run_item_by_line")
    starts = [(0, "feature"), (3, "scenario@3"), (10, "outline@10"), (14, "row@14"), (15, "row@15"), (20, "scenario@20")]
    for line in (-1, 0, 1, 2, 3, 4, 9, 10, 13, 14, 15, 16, 19, 20, 21, 99):
        it = Interp(ix, name="select_run_item_by_line")
        it.int_sat = 100000
        it.list_cap = 1000
        st = State()
        st.frames = []
        data = st.alloc(HObj("dict", kind="dict", items=list(starts), label="line data"))
        db = st.alloc(HObj(dbc, {"data": data, "_line_numbers": None, "_line_entities": None}, label="line db"))
        want = [name for (ln, name) in starts if ln <= line][-1:] or [starts[0][1]]
        try:
            got = []
            cur = st
            for _round in (1, 2):        # asked twice: the cached index gives the same answer
                outs = it.call_function(cur, sel, [line], {}, None, self_val=db)
                if len(outs) != 1 or outs[0][1] != "val":
                    raise AnalysisError("select_run_item_by_line(%d) not foldable: %r" % (line, [(k, v) for _, k, v in outs][:3]))
                cur = outs[0][0]
                got.append(outs[0][2])
        except AnalysisError as e:
            raise AnalysisError("select_run_item_by_line(%d) not foldable: %s" % (line, e))
        chk.absorb(it)
        chk.instance("L3")
        if got == want * 2:
            chk.ok("L3", {"line": line, "addresses": want[0]}, nontrivial_key=("line", line))
        else:
            _fail(chk, "L3", sel, "line %d -> %r" % (line, got), "in a file whose entities start at the lines %s, line %d addresses %r (asked twice); "
                  "expected %r: the last entity that starts at or before the line" % ([ln for ln, _ in starts], line, got, want[0]))


def check_location_parsing(chk, ix):
    """L9: FileLocationParser / FeatureListParser on concrete texts (constant folding; os.path, glob, re are stdlib)"""
    import os as _os
    import glob as _glob
    chk.rule("L9", WHAT["L9"])
    made = []

    def file_location(it, st, args, kw, node):
        made.append((args[0], args[1] if len(args) > 1 else kw.get("line")))
        return [(st, "val", "LOC:%s:%s" % made[-1])]
    fold = {"os.path.isabs": _os.path.isabs, "os.path.join": _os.path.join, "os.path.normpath": _os.path.normpath,
            "glob.has_magic": _glob.has_magic}
    stubs = {k: (lambda i, s_, a, kw, n, _f=f_: [(s_, "val", _f(*a))]) for k, f_ in fold.items()}
    stubs["FileLocation"] = file_location
    fp = ix.func("behave.runner_util:FileLocationParser.parse")
    for text, want in (("a.feature", ("a.feature", None)), ("a.feature:12", ("a.feature", 12)), ("  dir/a.feature:3  ", ("dir/a.feature", 3)),
                       ("a.feature:0", ("a.feature", 0)), ("C:\\x\\a.feature:7", ("C:\\x\\a.feature", 7)), ("C:\\x\\a.feature", ("C:\\x\\a.feature", None)),
                       ("a.feature:", ("a.feature:", None)), ("dir:1/a.feature", ("dir:1/a.feature", None))):
        del made[:]
        it = Interp(ix, stubs=stubs, name="FileLocationParser.parse")
        it.fold_regex = True
        it.int_sat = 1000
        st = State()
        st.frames = []
        outs = it.call_function(st, fp, [text], {}, None, self_val=ClassVal(ix.cls("behave.runner_util:FileLocationParser")))
        chk.absorb(it)
        chk.instance("L9")
        if len(outs) != 1 or outs[0][1] != "val" or len(made) != 1:
            raise AnalysisError("FileLocationParser.parse not foldable on %r: %r" % (text, [(k, v) for _, k, v in outs][:3]))
        if made[0] == want:
            chk.ok("L9", {"text": text, "location": list(want)}, nontrivial_key=("loc", text))
        else:
            _fail(chk, "L9", fp, "%r -> %r" % (text, made[0]), "the location text %r is parsed as file %r line %r; expected file %r line %r" % (
                text, made[0][0], made[0][1], want[0], want[1]))
    lp = ix.func("behave.runner_util:FeatureListParser.parse")
    listing = "# comment\nalice.feature\n\n   # indented comment\n  bob.feature:12  \nsub/charly.feature:3\n/abs/doro.feature\n\t\ne_ticket #42 login.feature:5\n#last"
    for here in (None, "/proj/lists", "."):
        got = []
        st2 = dict(stubs)
        st2["FileLocationParser.parse"] = lambda i, s_, a, kw, n: (got.append(a[-1]), [(s_, "val", "LOC:" + str(a[-1]))])[1]
        it = Interp(ix, stubs=st2, name="FeatureListParser.parse")
        it.fold_regex = True
        it.int_sat = 1000
        st = State()
        st.frames = []
        outs = it.call_function(st, lp, [listing] + ([here] if here else []), {}, None)
        chk.absorb(it)
        chk.instance("L9")
        if len(outs) != 1 or outs[0][1] != "val":
            raise AnalysisError("FeatureListParser.parse not foldable: %r" % ([(k, v) for _, k, v in outs][:3],))
        # a '#' makes a comment only at the start of a line: file names may contain ' #'
        names = ["alice.feature", "bob.feature:12", "sub/charly.feature:3", "/abs/doro.feature", "e_ticket #42 login.feature:5"]
        want = [_os.path.normpath(n if (not here or _os.path.isabs(n)) else _os.path.join(here, n)) for n in names]
        if got == want:
            chk.ok("L9", {"listfile": listing, "here": here, "locations": got}, nontrivial_key=("list", here))
        else:
            _fail(chk, "L9", lp, "here=%r -> %r" % (here, got), "a features list file (comments, indented comments, blank lines, padded "
                  "names) read relative to %r gives the names %r; expected %r" % (here, got, want))


def check_walk_scenarios(chk, ix, rule="L10"):
    """ScenarioContainer.walk_scenarios flattens a feature: plain scenarios, the scenarios of every rule (recursively,
    incl. the rows of outlines inside rules), the rows of every outline; the outline / rule objects only on request."""
    from .rules_summary import build_tree, _attr_stubs
    chk.rule(rule, WHAT["L10"])
    f = ix.func("behave.model:ScenarioContainer.walk_scenarios")
    for kw, want in (({}, ["S0", "S1", "S2", "O1", "O2", "S3", "S2-twin", "O1-twin"]),
                     ({"with_outlines": True}, ["S0", "S1", "S2", "O", "O1", "O2", "S3", "S2-twin", "O1-twin"]),
                     ({"with_rules": True}, ["S0", "S1", "R0", "R1", "S2", "O1", "O2", "S3", "R2", "S2-twin", "O1-twin"])):
        it = Interp(ix, attr_stubs=_attr_stubs(), name="walk_scenarios")
        it.list_cap = 100
        it.int_sat = 100
        st = State()
        st.frames = []
        feature, elems = build_tree(ix, st)
        outs = it.call_function(st, f, [], dict(kw), None, self_val=feature)
        chk.absorb(it)
        chk.instance(rule)
        outs = [o for o in outs if not (o[1] == "raise" and o[2].internal == "assert")]
        if len(outs) != 1 or outs[0][1] != "val" or not isinstance(outs[0][2], Ref):
            raise AnalysisError("walk_scenarios not evaluable on the model tree: %r" % ([(k, v) for _, k, v in outs][:3],))
        s2 = outs[0][0]
        got = [s2.obj(x).label if isinstance(x, Ref) else repr(x) for x in s2.obj(outs[0][2]).items]
        if got == want:
            chk.ok(rule, {"feature": "F[S0, S1, R0[], R1[S2, O[O1, O2]], S3, R2[S2-twin, O1-twin]]", "arguments": kw, "walk_scenarios": got}, nontrivial_key=repr(kw))
        else:
            _fail(chk, rule, f, "%s -> %s" % (kw or "()", got), "walk_scenarios(%s) of the feature F[S0, S1, R0[], R1[S2, Outline O[O1, O2]], S3] "
                  "yields %s; expected %s (outline rows inside a rule belong to the flat list)" % (
                      ", ".join("%s=%s" % kv for kv in kw.items()), got, want))


def check_build_feature(chk, ix):
    chk.rule("L4", WHAT["L4"])
    for cname in ("FeatureScenarioLocationCollector", "FeatureScenarioLocationCollector2"):
        cc = ix.cls("behave.runner_util:" + cname)
        f = cc.lookup("build_feature")
        skipped = []

        def mark(it, s, a, k, n):
            skipped.append(s.obj(a[0]).label)
            return [(s, "val", None)]
        st = State()
        st.frames = []
        a = _model_token(ix, st, "Scenario", "a", keyword="Scenario", tags=())
        a2 = _model_token(ix, st, "Scenario", "a-twin", keyword="Scenario", tags=())
        st.wobj(a2).fields["name"] = "a"       # same keyword+name as the selected one (legal: two rules)
        b = _model_token(ix, st, "Scenario", "b", tags=())
        c = _model_token(ix, st, "Scenario", "setup-scenario", tags=("setup",))
        d = _model_token(ix, st, "Scenario", "teardown-scenario", tags=("teardown",))
        allsc = st.alloc(HObj("list", kind="list", items=[a, a2, b, c, d], label="all scenarios"))
        selected = st.alloc(HObj("set", kind="set", items=[a], label="selected"))
        stubs = {"Scenario.mark_skipped": mark,
                 "ScenarioContainer.walk_scenarios": lambda it, s, aa, k, n: [(s, "val", allsc)],
                 "FeatureScenarioLocationCollector.discover_selected_scenarios": lambda it, s, aa, k, n: [(s, "val", selected)]}
        # Collector2 (the one parse_features uses): its own discover_selected_scenarios runs for real on a
        # line database that answers "line 3 -> [a]"
        dbtok = st.alloc(HObj("LineDbTok", {}, label="line database"))
        stubs["FeatureLineDatabase.make"] = lambda it, s, aa, k, n: [(s, "val", dbtok)]
        stubs["LineDbTok.select_scenarios_by_line"] = lambda it, s, aa, k, n: [(s, "val", s.alloc(HObj("list", kind="list", items=[a])))]
        it = Interp(ix, stubs=stubs, name=cname + ".build_feature")
        feat = _model_token(ix, st, "Feature", "F")
        lines = st.alloc(HObj("set", kind="set", items=[3], label="scenario_lines"))
        col = st.alloc(HObj(cc, {"feature": feat, "filename": "x", "use_all_scenarios": False, "scenario_lines": lines,
                                 "all_scenarios": st.alloc(HObj("set", kind="set", items=[])),
                                 "selected_scenarios": st.alloc(HObj("set", kind="set", items=[]))}, label="collector"))
        outs = it.call_function(st, f, [], {}, None, self_val=col)
        chk.absorb(it)
        chk.instance("L4")
        if len(outs) != 1 or outs[0][1] != "val":
            raise AnalysisError("%s.build_feature not evaluable: %r" % (cname, [(k, v) for _, k, v in outs][:2]))
        want = ["a-twin", "b"]
        if sorted(skipped) == want:
            chk.ok("L4", {"collector": cname, "selected": ["a"], "marked_skipped": sorted(skipped)}, nontrivial_key=cname)
        else:
            _fail(chk, "L4", f, "%s skips %s" % (cname, sorted(skipped)),
                  "with scenario 'a' selected, %s.build_feature marks %s as skipped; expected %s (another scenario with the "
                  "same name as the selected one, and 'b'; never the selected one, never @setup/@teardown ones)" % (
                      cname, sorted(skipped), want), outs[0][0].path)
        # no lines / use_all => untouched
        for variant in ("no lines", "use_all"):
            skipped[:] = []
            st2 = State()
            st2.frames = []
            feat2 = _model_token(ix, st2, "Feature", "F")
            lines2 = st2.alloc(HObj("set", kind="set", items=[] if variant == "no lines" else [3]))
            col2 = st2.alloc(HObj(cc, {"feature": feat2, "filename": "x", "use_all_scenarios": variant == "use_all",
                                       "scenario_lines": lines2, "all_scenarios": st2.alloc(HObj("set", kind="set", items=[])),
                                       "selected_scenarios": st2.alloc(HObj("set", kind="set", items=[]))}, label="collector"))
            outs = it.call_function(st2, f, [], {}, None, self_val=col2)
            chk.instance("L4")
            if len(outs) == 1 and outs[0][1] == "val" and not skipped and isinstance(outs[0][2], Ref) and outs[0][2].oid == feat2.oid:
                chk.ok("L4", {"collector": cname, "case": variant, "feature": "untouched"}, nontrivial_key=(cname, variant))
            else:
                _fail(chk, "L4", f, "%s %s" % (cname, variant), "%s.build_feature with %s does not return the feature untouched (skipped: %s)" % (cname, variant, skipped))


def check_add_location_and_clear(chk, ix):
    chk.rule("L6", WHAT["L6"])
    chk.rule("L8", WHAT["L8"])
    cc = ix.cls("behave.runner_util:FeatureScenarioLocationCollector")
    f = cc.lookup("add_location")
    it = Interp(ix, name="add_location")
    for line, want_all in ((None, True), (0, True), (12, False)):
        st = State()
        st.frames = []
        lines = st.alloc(HObj("set", kind="set", items=[]))
        col = st.alloc(HObj(cc, {"feature": None, "filename": None, "use_all_scenarios": False, "scenario_lines": lines}, label="collector"))
        loc = st.alloc(HObj("LocTok", {"filename": "x.feature", "line": line}, label="location"))
        outs = it.call_function(st, f, [loc], {}, None, self_val=col)
        chk.instance("L6")
        if len(outs) != 1 or outs[0][1] != "val":
            raise AnalysisError("add_location not evaluable")
        s = outs[0][0]
        use_all = s.obj(col).fields.get("use_all_scenarios")
        recorded = list(s.obj(s.obj(col).fields["scenario_lines"]).items or [])
        if (use_all is True) == want_all and (recorded == ([] if want_all else [12])):
            chk.ok("L6", {"location.line": line, "use_all_scenarios": use_all, "lines": recorded}, nontrivial_key=repr(line))
        else:
            _fail(chk, "L6", f, "line=%r -> use_all=%r lines=%r" % (line, use_all, recorded),
                  "add_location with line %r gives use_all_scenarios=%r, recorded lines %r" % (line, use_all, recorded))
    chk.absorb(it)
    # L8: clear() covers every attribute assigned anywhere in the collector classes
    for c in [cc] + ix.subclasses(cc):
        clear = c.lookup("clear")
        if clear is None:
            raise AnalysisError("anchor missing: %s.clear" % c.name)

        def assigned(fn):
            out = set()
            for n in ast.walk(fn.node):
                if isinstance(n, (ast.Assign, ast.AugAssign)):
                    for t in (n.targets if isinstance(n, ast.Assign) else [n.target]):
                        if isinstance(t, ast.Attribute) and isinstance(t.value, ast.Name) and t.value.id == "self":
                            out.add(t.attr)
            return out
        everywhere = set()
        for k in c.mro():
            if isinstance(k, ClassInfo):
                for m in list(k.methods.values()) + list(k.setters.values()):
                    everywhere |= assigned(m)
        # attributes reset by clear (through super calls too)
        cleared = set()
        seen = set()
        todo = [clear]
        while todo:
            fn = todo.pop()
            if fn.fullname in seen:
                continue
            seen.add(fn.fullname)
            cleared |= assigned(fn)
            for n in ast.walk(fn.node):
                if isinstance(n, ast.Call) and isinstance(n.func, ast.Attribute) and n.func.attr == "clear" \
                        and isinstance(n.func.value, ast.Call) and unparse(n.func.value.func) == "super":
                    chain = fn.cls.mro()
                    for k in chain[chain.index(fn.cls) + 1:]:
                        if isinstance(k, ClassInfo) and "clear" in k.methods:
                            todo.append(k.methods["clear"])
                            break
        chk.instance("L8")
        missing = sorted(everywhere - cleared)
        if missing:
            _fail(chk, "L8", clear, "%s.clear misses %s" % (c.name, ",".join(missing)),
                  "%s.clear() does not re-initialise %s: parse_features re-uses one collector for all files, so the "
                  "value computed for one feature file is applied to the next" % (c.name, missing))
        else:
            chk.ok("L8", {"collector": c.name, "fields": sorted(everywhere)}, nontrivial_key=c.name)


def check_name_selection(chk, ix):
    chk.rule("L7", WHAT["L7"])
    sc = ix.cls("behave.model:Scenario")
    f = sc.lookup("should_run_with_name_select")
    for has_name in (False, True):
        for match in (True, False):
            st = State()
            st.frames = []
            nre = st.alloc(HObj("NameReStub", {}, label="name_re"))
            stubs = {"NameReStub.search": lambda it, s, a, k, n, _m=match: [(s, "val", Top("match", True, truth=True) if _m else None)]}
            it = Interp(ix, stubs=stubs, name="Scenario.should_run_with_name_select")
            cfg = st.alloc(HObj("ConfigStub", {"name": ["pattern"] if has_name else None, "name_re": nre}, label="config"))
            if has_name:
                st.wobj(cfg).fields["name"] = st.alloc(HObj("list", kind="list", items=["pattern"]))
            me = st.alloc(HObj(sc, {"name": "scenario name"}, label="scenario"))
            outs = it.call_function(st, f, [cfg], {}, None, self_val=me)
            chk.absorb(it)
            chk.instance("L7")
            got = None
            if len(outs) == 1 and outs[0][1] == "val":
                tv = it.truth(outs[0][0], outs[0][2])
                got = tv[0][1] if len(tv) == 1 else None
            want = (not has_name) or match
            if got is want:
                chk.ok("L7", {"name_filter": has_name, "name_matches": match, "runs": got}, nontrivial_key=("scn", has_name, match))
            else:
                _fail(chk, "L7", f, "filter=%s match=%s -> %s" % (has_name, match, got),
                      "Scenario.should_run_with_name_select: name filter=%s, matches=%s gives %s" % (has_name, match, got))
    # outline: some row
    oc = ix.cls("behave.model:ScenarioOutline")
    fo = oc.lookup("should_run_with_name_select")
    for rows in ((False, False), (False, True), ()):
        for has_name in (True, False):
            st = State()
            st.frames = []
            toks = [st.alloc(HObj("RowTok", {"sel": r}, label="row")) for r in rows]
            lst = st.alloc(HObj("list", kind="list", items=toks))
            stubs = {"RowTok.should_run_with_name_select": lambda it, s, a, k, n: [(s, "val", s.obj(a[0]).fields["sel"])]}
            it = Interp(ix, stubs=stubs, attr_stubs={"ScenarioOutline.scenarios": lambda i, s, b, n: [(s, "val", lst)]},
                        name="ScenarioOutline.should_run_with_name_select")
            cfg = st.alloc(HObj("ConfigStub", {"name": "x" if has_name else None}, label="config"))
            me = st.alloc(HObj(oc, {"name": "o", "_scenarios": st.alloc(HObj("list", kind="list", items=[], label="row cache (not built yet)"))},
                               label="outline"))
            outs = it.call_function(st, fo, [cfg], {}, None, self_val=me)
            chk.absorb(it)
            chk.instance("L7")
            got = outs[0][2] if len(outs) == 1 and outs[0][1] == "val" else None
            want = (not has_name) or any(rows)
            if got is want:
                chk.ok("L7", {"outline_rows_matching": list(rows), "name_filter": has_name, "runs": got},
                       nontrivial_key=("outline", rows, has_name))
            else:
                _fail(chk, "L7", fo, "rows=%s filter=%s -> %s" % (rows, has_name, got),
                      "ScenarioOutline.should_run_with_name_select with rows matching %s gives %s" % (list(rows), got))
