# -*- coding: utf-8 -*-
"""C02 S4/S5: step order and per-scenario copies, decided by evaluating the
step-iteration code abstractly on labelled step tokens.

  S4  Scenario.all_steps = inherited (feature) background steps, then the rule/feature
      background's own steps, then the scenario's own steps
  S5  background steps seen by a scenario are per-scenario copies (reset), never the
      Background's own Step objects, never shared between two scenarios / outline rows
"""
from __future__ import annotations

from .index import AnalysisError, ClassInfo
from .values import Top, HObj, Ref, Exc, State, ClassVal
from .absint import Interp
from .report import Finding

WHAT = {
    "S4": "all_steps order: inherited background steps, background steps, own steps",
    "S5": "background steps used by a scenario / outline row are fresh reset copies, not shared objects",
}


def _tok(st, origin):
    return st.alloc(HObj("StepTok", {"origin": origin, "is_copy": False, "was_reset": False, "name": origin,
                                     "text": None, "table": None}, label=origin))


def _stubs(counter):
    def copy_copy(it, st, args, kw, node):
        src = args[0]
        if isinstance(src, Ref):
            o = st.obj(src)
            f = dict(o.fields)
            f["is_copy"] = True
            f["was_reset"] = False
            counter["copies"] += 1
            return [(st, "val", st.alloc(HObj(o.cls, f, label=(o.label or "") + "'")))]
        return [(st, "val", Top("copy"))]

    def reset(it, st, args, kw, node):
        st.wobj(args[0]).fields["was_reset"] = True
        return [(st, "val", None)]
    return {"copy.copy": copy_copy, "copy.deepcopy": copy_copy, "StepTok.reset": reset, "@with": "transparent"}


def _origins(st, val):
    out = []
    items = val if isinstance(val, (tuple, list)) else (st.obj(val).items if isinstance(val, Ref) else None)
    if isinstance(val, Ref) and st.obj(val).kind == "iterator" and items is not None:
        items = items[st.obj(val).fields.get("@pos", 0):]
    if items is None:
        return None
    for x in items:
        o = st.obj(x)
        out.append((o.fields.get("origin"), o.fields.get("is_copy"), o.fields.get("was_reset"), x.oid))
    return out


def check_step_order(chk, ix):
    for r in ("S4", "S5"):
        chk.rule(r, WHAT[r])
    counter = {"copies": 0}
    it = Interp(ix, stubs=_stubs(counter), name="step order")
    bgc = ix.cls("behave.model:Background")
    scc = ix.cls("behave.model:Scenario")
    prop = scc.lookup("all_steps")
    if prop is None:
        raise AnalysisError("anchor missing: Scenario.all_steps")
    for variant in ("rule+feature background", "feature background only", "no background", "inheritance disabled"):
        st = State()
        st.frames = []
        f1, r1, s1, s2 = _tok(st, "f1"), _tok(st, "r1"), _tok(st, "s1"), _tok(st, "s2")

        def lst(items):
            return st.alloc(HObj("list", kind="list", items=list(items)))
        fbg = st.alloc(HObj(bgc, {"steps": lst([f1]), "inherited_background": None, "_inherited_steps": None,
                                  "_use_inheritance": True, "name": "fbg"}, label="feature background"))
        rbg = st.alloc(HObj(bgc, {"steps": lst([r1]), "inherited_background": fbg, "_inherited_steps": None,
                                  "_use_inheritance": variant != "inheritance disabled", "name": "rbg"},
                            label="rule background"))
        bg = {"rule+feature background": rbg, "feature background only": fbg, "no background": None,
              "inheritance disabled": rbg}[variant]
        want = {"rule+feature background": ["f1", "r1", "s1", "s2"], "feature background only": ["f1", "s1", "s2"],
                "no background": ["s1", "s2"], "inheritance disabled": ["r1", "s1", "s2"]}[variant]
        results = []
        for i in range(2):
            sc = st.alloc(HObj(scc, {"steps": lst([s1, s2]), "background": bg, "_background_steps": None,
                                     "_use_background": True, "name": "sc%d" % i}, label="scenario%d" % i))
            outs = it.call_function(st, prop, [], {}, None, self_val=sc)
            if len(outs) != 1 or outs[0][1] != "val":
                raise AnalysisError("Scenario.all_steps not evaluable on tokens (%s): %r" % (variant, outs))
            st = outs[0][0]
            val = outs[0][2]
            if isinstance(val, Ref) and st.obj(val).kind not in ("list", "iterator"):
                raise AnalysisError("Scenario.all_steps returns a non-sequence")
            org = _origins(st, val)
            if org is None:
                raise AnalysisError("Scenario.all_steps result not concrete (%s)" % variant)
            results.append(org)
        chk.instance("S4")
        chk.instance("S5")
        got = [o for (o, _, _, _) in results[0]]
        if got == want:
            chk.ok("S4", {"variant": variant, "order": got}, nontrivial_key=variant)
        else:
            chk.fail(Finding("S4", prop.fullname, "%s: %s" % (variant, ",".join(map(str, got))),
                             "step order with %s is %s, expected %s" % (variant, got, want),
                             file=prop.file, line=prop.lineno, stmt="def all_steps / iter_steps"))
        # S5: background-derived steps are copies, reset, and distinct between the two scenarios
        problems = []
        own = {"s1", "s2"}
        for (o, cp, rs, oid) in results[0] + results[1]:
            if o not in own and not cp:
                problems.append("%s is the Background's own Step object" % o)
            elif o not in own and not rs:
                problems.append("copy of %s is not reset" % o)
        oids0 = {oid for (o, _, _, oid) in results[0] if o not in own}
        oids1 = {oid for (o, _, _, oid) in results[1] if o not in own}
        if oids0 & oids1:
            problems.append("two scenarios share background Step objects")
        if problems:
            chk.fail(Finding("S5", prop.fullname, "%s: %s" % (variant, problems[0]),
                             "background steps of a scenario (%s): %s" % (variant, "; ".join(sorted(set(problems)))),
                             file=prop.file, line=prop.lineno, stmt="def background_steps"))
        else:
            chk.ok("S5", {"variant": variant, "background_steps": "fresh reset copies per scenario"}, nontrivial_key=variant)
    chk.absorb(it)
    check_row_background_steps(chk, ix)
    check_step_for_row_is_a_copy(chk, ix)
    chk.require_instances("S4", 4)
    chk.require_instances("S5", 5)


def check_row_background_steps(chk, ix):
    """S5 for outline rows: what make_scenario_for hands to Scenario(background_steps=...)."""
    counter = {"copies": 0}
    stubs = _stubs(counter)
    captured = []

    def scenario_ctor(it, st, args, kw, node):
        captured.append((st, kw.get("background_steps", "<absent>"), kw.get("steps", args[5] if len(args) > 5 else None)))
        return [(st, "val", st.alloc(HObj("RowScenario", {}, open=True, label="row scenario")))]
    stubs["Scenario"] = scenario_ctor
    stubs["ScenarioOutlineBuilder.make_scenario_name"] = lambda it, st, a, k, n: [(st, "val", "name")]
    stubs["ScenarioOutlineBuilder.make_row_tags"] = lambda it, st, a, k, n: [(st, "val", st.alloc(HObj("list", kind="list", items=[])))]

    def has_param(it, st, a, k, n):
        s2 = st.fork()
        st.note("background steps contain placeholders")
        s2.note("background steps contain no placeholder")
        return [(st, "val", True), (s2, "val", False)]
    stubs["ScenarioOutlineBuilder.has_parametrized_steps"] = has_param

    def step_has_param(it, st, a, k, n):
        # asked about ONE step: either answer is possible for every step
        s2 = st.fork()
        st.note("this step contains a placeholder")
        s2.note("this step contains no placeholder")
        return [(st, "val", True), (s2, "val", False)]
    stubs["ScenarioOutlineBuilder.is_parametrized_step"] = step_has_param

    def step_for_row(it, st, args, kw, node):
        src = args[1] if isinstance(args[0], ClassVal) else args[0]
        o = st.obj(src)
        f = dict(o.fields)
        f["is_copy"] = True
        f["rendered"] = True
        return [(st, "val", st.alloc(HObj(o.cls, f, label=(o.label or "") + "*")))]
    stubs["ScenarioOutlineBuilder.make_step_for_row"] = step_for_row
    it = Interp(ix, stubs=stubs, name="make_scenario_for")
    func = ix.func("behave.model:ScenarioOutlineBuilder.make_scenario_for")
    st = State()
    st.frames = []
    b1, b2, t1 = _tok(st, "b1"), _tok(st, "b2"), _tok(st, "t1")
    tmpl_bg = st.alloc(HObj("list", kind="list", items=[b1, b2], label="template background_steps"))
    # b1 is inherited (the feature's background), b2 is the rule's own background step
    own_bg = st.alloc(HObj("list", kind="list", items=[b2], label="background.steps"))
    bg_obj = st.alloc(HObj("BackgroundStub", {"steps": own_bg, "inherited_steps": st.alloc(HObj("list", kind="list", items=[b1])),
                                              "all_steps": st.alloc(HObj("list", kind="list", items=[b1, b2]))}, label="template background"))
    tmpl = st.alloc(HObj("TemplateStub", {"background_steps": tmpl_bg, "background": bg_obj,
                                          "steps": st.alloc(HObj("list", kind="list", items=[t1]))},
                         open=True, label="template"))
    builder = st.alloc(HObj(ix.cls("behave.model:ScenarioOutlineBuilder"), {"annotation_schema": "x"}, label="builder"))
    example = st.alloc(HObj("ExampleStub", {"tags": st.alloc(HObj("list", kind="list", items=[]))}, open=True))
    row = st.alloc(HObj("RowStub", {}, open=True))
    st.freeze_base()
    outs = it.run(func, st, [example, row, tmpl, Top("params", True)], {}, self_val=builder)
    chk.absorb(it)
    chk.instance("S5")
    if not captured:
        raise AnalysisError("make_scenario_for: no Scenario(...) construction found")
    for (s, bgs, steps) in captured:
        problems = []
        if bgs == "<absent>":
            problems.append("background_steps not passed (row would copy lazily) - fine")
            problems = []
        elif bgs is None:
            pass
        elif isinstance(bgs, Ref):
            if bgs.oid == tmpl_bg.oid:
                problems.append("the template's own background_steps list is handed to the row scenario")
            else:
                for x in (s.obj(bgs).items or []):
                    if isinstance(x, Ref) and x.oid <= s.base_oid:
                        problems.append("a background Step object of the template is shared with the row scenario")
                got = [s.obj(x).fields.get("origin") for x in (s.obj(bgs).items or []) if isinstance(x, Ref)]
                if s.obj(bgs).items is not None and got != ["b1", "b2"]:
                    problems.append("the row scenario gets the background steps %s, the template has b1 (inherited from the feature) and b2 (own)" % got)
        if isinstance(steps, Ref):
            for x in (s.obj(steps).items or []):
                if isinstance(x, Ref) and x.oid <= s.base_oid:
                    problems.append("a template Step object is shared with the row scenario")
        if problems:
            chk.fail(Finding("S5", func.fullname, problems[0],
                             "outline row: " + "; ".join(sorted(set(problems))) +
                             " (rows would overwrite each other's step status / run other background steps than their template)",
                             file=func.file, line=func.lineno, stmt="def make_scenario_for", path=list(s.path)))
        else:
            chk.ok("S5", {"row_background_steps": "None or fresh copies", "row_steps": "fresh copies"},
                   nontrivial_key=("row", repr(bgs is None)))


WHAT["S7"] = "an exception raised while matching/converting step parameters becomes a MatchWithError (step error), it never escapes the lookup"


def check_match_protection(chk, ix):
    """S7: Matcher.match turns every Exception of check_match (type conversion) except the
    deliberate NotImplementedError pass-through into a MatchWithError."""
    chk.rule("S7", WHAT["S7"])
    mc = ix.cls("behave.matchers:Matcher")
    func = mc.lookup("match")
    if func is None:
        raise AnalysisError("anchor missing: Matcher.match")
    overriders = [c.name for c in ix.subclasses(mc) if "match" in c.methods]
    if overriders:
        chk.notes.append("Matcher.match overridden in %s (explored on the base implementation only)" % overriders)
    raised = ["AssertionError", "ValueError", "TypeError", "KeyError", "IndexError", "ZeroDivisionError",
              "AttributeError", "RuntimeError", "LookupError", "ArithmeticError", "OSError", "StepParseError",
              "Exception", "NotImplementedError"]

    def check_match(it, st, args, kw, node):
        outs = []
        for val, lab in ((None, "no match"), ((), "match")):
            s = st.fork()
            s.ghost["cm"] = lab
            outs.append((s, "val", val))
        for cn in raised:
            s = st.fork()
            s.ghost["cm"] = cn
            cls = ix.cls(cn) if cn in ix.classes_by_name else cn
            outs.append((s, "raise", Exc(cls, None, "type converter")))
        return outs
    stubs = {"Matcher.check_match": check_match, "@with": "transparent",
             "ExceptionUtil.has_traceback": lambda it, st, a, k, n: [(st, "val", True)],
             "ExceptionUtil.set_traceback": lambda it, st, a, k, n: [(st, "val", None)],
             "Match.__init__": lambda it, st, a, k, n: [(st, "val", None)]}
    it = Interp(ix, stubs=stubs, name="Matcher.match")
    st = State()
    st.frames = []
    me = st.alloc(HObj(mc, {"func": Top("func", True), "pattern": "p"}, open=True, label="matcher"))
    st.freeze_base()
    outs = it.run(func, st, ["some step text"], {}, self_val=me)
    chk.absorb(it)
    chk.instance("S7")
    for (s, k, v) in outs:
        cm = s.ghost.get("cm")
        if cm in ("no match", "match"):
            continue
        cls = ix.cls(cm) if cm in ix.classes_by_name else cm
        passthrough = ix.exc_is_subclass(cls, "NotImplementedError")
        if k == "raise":
            if passthrough:
                chk.ok("S7", None, nontrivial_key=("pass", cm))
            else:
                chk.fail(Finding("S7", func.fullname, "escapes=%s" % cm,
                                 "%s raised by a type converter escapes Matcher.match (and the step lookup, which "
                                 "Step.run/Scenario.run call outside any try block)" % cm,
                                 file=func.file, line=func.lineno, stmt="def match", path=list(s.path)))
        else:
            okk = isinstance(v, Ref) and isinstance(s.obj(v).cls, ClassInfo) and s.obj(v).cls.name == "MatchWithError"
            if okk or passthrough:
                chk.ok("S7", {"converter_raises": cm, "result": "MatchWithError"}, nontrivial_key=("wrap", cm))
            else:
                chk.fail(Finding("S7", func.fullname, "swallowed=%s" % cm,
                                 "%s raised by a type converter is swallowed (result %r) instead of becoming a step error" % (cm, v),
                                 file=func.file, line=func.lineno, stmt="def match", path=list(s.path)))
    # MatchWithError.run raises StepParseError whatever the converter raised (Step.run maps it to the status error: an AssertionError of a
    # converter must not make the step "failed", a StepNotImplementedError must not make it "pending") - by evaluation
    mw = ix.cls("behave.matchers:MatchWithError")
    rf = mw.lookup("run")
    if rf is None:
        raise AnalysisError("anchor missing: MatchWithError.run")
    for cn in ("ValueError", "TypeError", "AssertionError", "KeyError", "RuntimeError", "StepNotImplementedError", "Exception"):
        it = Interp(ix, name="MatchWithError.run")
        st = State()
        st.frames = []
        cls = ix.cls(cn) if cn in ix.classes_by_name else cn
        err = st.alloc(HObj(cls, {"args": ("converter problem",)}, kind="exc", open=True, label="stored " + cn))
        me = st.alloc(HObj(mw, {"stored_error": err, "func": Top("func", True), "arguments": st.alloc(HObj("list", kind="list", items=[])),
                                "location": "steps.py:1"}, label="match with error"))
        outs = it.call_function(st, rf, [Top("context", True)], {}, None, self_val=me)
        chk.absorb(it)
        chk.instance("S7")
        kinds = sorted({(k, v.clsname() if k == "raise" else repr(v)) for (_, k, v) in outs})
        if kinds == [("raise", "StepParseError")]:
            chk.ok("S7", {"stored error": cn, "MatchWithError.run raises": "StepParseError"}, nontrivial_key=("mwe.run", cn))
        else:
            chk.fail(Finding("S7", rf.fullname, "stored %s -> %s" % (cn, kinds),
                             "MatchWithError.run with a stored %s ends with %s, not with StepParseError: Step.run maps the exception class to the "
                             "step status (AssertionError: failed, StepNotImplementedError: pending), a failed type conversion is an error" % (cn, kinds),
                             file=rf.file, line=rf.lineno, stmt="def run"))



WHAT["S8"] = "continue_after_failed_step is a switch of the Scenario CLASS (documented: set it in before_all): scenarios that were parsed before it was set follow it"


def check_continue_switch_is_class_level(chk, ix):
    """S8: a Scenario built by its own __init__, then Scenario.continue_after_failed_step set on the class (as a
    before_all hook does, after the features were parsed): the scenario reads the new value."""
    chk.rule("S8", WHAT["S8"])
    scc = ix.cls("behave.model:Scenario")
    init = scc.lookup("__init__")
    if init is None:
        raise AnalysisError("anchor missing: Scenario.__init__")
    it = Interp(ix, stubs={"copy.copy": lambda i, s_, a, k, n: [(s_, "val", a[0])], "os.getcwd": lambda i, s_, a, k, n: [(s_, "val", "/cwd")],
                           "make_relpath_if_possible": lambda i, s_, a, k, n: [(s_, "val", a[0])],
                           "FileLocation": lambda i, s_, a, k, n: [(s_, "val", "LOC:%s:%s" % (a[0], a[1] if len(a) > 1 else None))]},
                name="Scenario.__init__ + class switch")
    it.int_sat = 100
    it.list_cap = 100
    st = State()
    st.frames = []
    me = st.alloc(HObj(scc, {}, label="scenario"))
    try:
        outs = it.call_function(st, init, ["x.feature", 3, "Scenario", "a name"], {}, None, self_val=me)
    except AnalysisError as e:
        raise AnalysisError("Scenario.__init__ not evaluable: %s" % e)
    chk.absorb(it)
    if len(outs) != 1 or outs[0][1] != "val":
        raise AnalysisError("Scenario.__init__ not evaluable: %r" % [(k, v) for _, k, v in outs][:3])
    cur = outs[0][0]
    for value in (True, False):
        chk.instance("S8")
        o2 = it.set_attr(cur, ClassVal(scc), "continue_after_failed_step", value, None)
        cur = o2[0][0]
        got = it.get_attr(cur, me, "continue_after_failed_step", None)
        if len(got) == 1 and got[0][1] == "val" and got[0][2] is value:
            chk.ok("S8", {"Scenario.continue_after_failed_step set on the class to": value, "an existing scenario reads": value}, nontrivial_key=value)
        else:
            chk.fail(Finding("S8", init.fullname, "class switch %s -> instance reads %r" % (value, [(k, v) for _, k, v in got][:2]),
                             "after Scenario.continue_after_failed_step = %s (set on the class, as documented for before_all) a scenario that was "
                             "parsed earlier reads %r: the switch has no effect on the features of the run" % (value, [(k, v) for _, k, v in got][:2]),
                             file=init.file, line=init.lineno, stmt="def __init__"))



def check_step_for_row_is_a_copy(chk, ix):
    """S5 (row steps): ScenarioOutlineBuilder.make_step_for_row evaluated on steps with and without placeholders, text and
    table: what it returns is never the template's own Step object (every row runs - and reports - its own steps)."""
    chk.rule("S5", WHAT["S5"])
    bc = ix.cls("behave.model:ScenarioOutlineBuilder")
    f = bc.lookup("make_step_for_row")
    if f is None:
        raise AnalysisError("anchor missing: ScenarioOutlineBuilder.make_step_for_row")
    stc = ix.cls("behave.model:Step")
    for title, name, text in (("plain step", "a plain step", None), ("step with a placeholder", "a <thing>", None), ("plain step with text", "a step", "doc <x>")):
        counter = {"copies": 0}
        stubs = _stubs(counter)
        it = Interp(ix, stubs=stubs, name="make_step_for_row")
        it.int_sat = 100
        it.list_cap = 100
        it.fold_regex = True
        st = State()
        st.frames = []
        step = st.alloc(HObj(stc, {"name": name, "text": text, "table": None, "keyword": "Given", "step_type": "given", "origin": "template",
                                   "is_copy": False, "was_reset": False}, label="template step"))
        row = st.alloc(HObj("dict", kind="dict", items=[("thing", "apple"), ("x", "1")], label="row"))
        it.stubs["RowTok.items"] = lambda i, s_, a, k, n: [(s_, "val", (("thing", "apple"), ("x", "1")))]
        rowtok = st.alloc(HObj("RowTok", {}, open=True, label="row"))
        try:
            outs = it.call_function(st, f, [step, rowtok, None], {}, None, self_val=ClassVal(bc))
        except AnalysisError as e:
            raise AnalysisError("make_step_for_row not evaluable (%s): %s" % (title, e))
        chk.absorb(it)
        chk.instance("S5")
        if len(outs) != 1 or outs[0][1] != "val" or not isinstance(outs[0][2], Ref):
            raise AnalysisError("make_step_for_row not evaluable (%s): %r" % (title, [(k, v) for _, k, v in outs][:3]))
        if outs[0][2].oid != step.oid:
            chk.ok("S5", {"template step": title, "row step": "a copy"}, nontrivial_key=("row step", title))
        else:
            chk.fail(Finding("S5", f.fullname, "%s: the template's own Step" % title,
                             "make_step_for_row returns the outline's own Step object for a %s: all rows share it, so the status, duration and error of "
                             "one row's step overwrite the other rows' (reports show a failed row as passed, or the reverse)" % title,
                             file=f.file, line=f.lineno, stmt="def make_step_for_row"))
