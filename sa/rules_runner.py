# -*- coding: utf-8 -*-
"""Obligations on ModelRunner.run_model, ModelRunner.run_hook, run_behave / main.

  V4  run_model result truthy <=> a feature failed, KeyboardInterrupt, aborted,
      a hook failed, undefined steps grew, or the final cleanups raised               (C01)
  V5  run_behave returns 1 <=> runner.run() truthy or a listed exception was caught   (C01)
  V6  a failing hook is counted (hook_failures) ; *_all hooks abort                   (C01, C12)
  V7  abort wiring: Context.abort -> root 'aborted' -> ModelRunner.aborted           (C01)
  H1  run_hook: no Exception escapes; exactly the element concerned is marked;
      dry-run => user hook not called                                                 (C12)
  H4  before_all first, after_all after the loop on every path; failed before_all => no feature (C12)
  H5  a failing hook writes nothing but the concerned element's failure fields        (C12)
  STM after a failing feature with --stop / abort no further feature runs             (C01, C12)
  Y4  reporter.feature(f) exactly once per feature (run or not), reporter.end() once  (C14)
  F4  uri() before each run feature; close() exactly once per formatter, after the loop (C15)
  X8  the root-level cleanups run after after_all and feed the verdict                (C13)
"""
from __future__ import annotations

import ast

from .index import EnumVal, AnalysisError, ClassInfo, unparse
from .values import Top, GE2, HObj, Ref, Exc, State
from .explore import explore_run_model, explore_run_hook, HOOK_NAMES, LAYERS, Exit
from .report import Finding
from .absint import Interp
from .world import World

WHAT = {
    "V4": "run_model's result is truthy exactly when something went wrong (feature failed, interrupt, abort, hook failure, new undefined steps, cleanup error)",
    "V5": "run_behave returns 1 exactly when runner.run() is truthy or an exception was reported; main passes it on",
    "V6": "a raising hook increments hook_failures; before_all/after_all failures abort the run",
    "V7": "verdict wiring: Context.abort sets the root attribute that ModelRunner.aborted reads; runner.undefined_steps hands out the very list run_model measures",
    "H1": "run_hook contains every Exception, marks exactly the element concerned, does nothing in dry-run",
    "H4": "before_all first, after_all after the feature loop on every path, no feature after a failed before_all",
    "H5": "a failing hook writes only the concerned element's failure fields",
    "STM": "after a failing feature with --stop or an aborted run no further feature is run - and only then is a feature passed over",
    "Y4": "every feature is reported to every reporter exactly once, run or not; end() once",
    "F4": "uri() before each run feature; every formatter closed exactly once after the loop",
    "K10": "the capture is set up before the first hook of the run (before_all) is called",
    "X8": "root cleanups run after after_all, inside try/except, and a failure makes the run fail",
}

RM = "behave.runner:ModelRunner.run_model"
RH = "behave.runner:ModelRunner.run_hook"


def _f(rule, fi, fname, ex, witness, text, imprecise=False):
    return Finding(rule, fname, witness, text, file=fi.file, line=fi.lineno, stmt="def " + fi.name,
                   path=ex.path if ex is not None else [], imprecise=imprecise or bool(ex is not None and ex.facts.get("imprecise")))


# ----------------------------------------------------------------------
def check_run_model(chk, ix, rules, tier="quick", mutate=None):
    fi = ix.func(RM)
    for r in rules:
        chk.rule(r, WHAT[r])
        chk.instance(r)
    it, exits = explore_run_model(ix, thorough=(tier == "thorough"), mutate=mutate)
    chk.absorb(it)
    for ex in exits:
        f = ex.facts
        if ex.kind == "raise":
            cls = ex.val.clsname()
            for r in rules & {"V4", "H4"}:
                chk.fail(_f(r, fi, RM, ex, "escapes=%s" % cls, "exception %s escapes run_model (%s)" % (cls, ex.val)))
            continue
        if "V4" in rules:
            hookfail = f["hook_failed_any"]
            want = bool(f["child_failed"] or f["ki"] or f["aborted"] is True or hookfail
                        or f["undefined_grew"] or f["cleanups_failed"] or f.get("hook_failures_grew"))
            got = f["truthy"]
            if got is None:
                chk.fail(_f("V4", fi, RM, ex, "undetermined", "truth value of run_model's result not determined: %r" % (f["ret"],), True))
            elif got is want:
                chk.ok("V4", {"result": got, "feature_failed": f["child_failed"], "interrupted": f["ki"],
                              "aborted": f["aborted"] is True, "hook_failed": hookfail,
                              "undefined_grew": f["undefined_grew"], "cleanups_failed": f["cleanups_failed"]},
                       nontrivial_key=(got, f["child_failed"], f["ki"], f["aborted"] is True, hookfail,
                                       f["undefined_grew"], f["cleanups_failed"]))
            else:
                chk.fail(_f("V4", fi, RM, ex, "result=%s feature_failed=%s interrupted=%s aborted=%s hook_failed=%s undefined_grew=%s cleanups_failed=%s" % (
                    got, f["child_failed"], f["ki"], f["aborted"] is True, hookfail, f["undefined_grew"], f["cleanups_failed"]),
                    "run verdict %s although feature_failed=%s, interrupted=%s, aborted=%s, hook_failed=%s, "
                    "undefined_grew=%s, cleanups_failed=%s (%s)" % (
                        got, f["child_failed"], f["ki"], f["aborted"] is True, hookfail, f["undefined_grew"],
                        f["cleanups_failed"], "false green" if want else "false red")))
        if "V6" in rules and f["dry_run"] is False:
            hf = f["hook_failures"]
            counted = hf in (1, GE2) or (isinstance(hf, int) and hf > 0)
            if f["hook_failed_any"] and not counted:
                chk.fail(_f("V6", fi, RM, ex, "hook-failure-not-counted", "a failing *_all hook is not reflected in hook_failures"))
            elif f["hook_failed_any"] and f["aborted"] is not True:
                chk.fail(_f("V6", fi, RM, ex, "all-hook-failure-no-abort", "a failing before_all/after_all hook does not abort the run"))
            else:
                chk.ok("V6", None, nontrivial_key=("model", f["hook_failed_any"]))
        if "H4" in rules and f["dry_run"] is False:
            err = f["h4_err"]
            if not err and f["allseq"] != "ended":
                err = "run_model returns without calling after_all (state %s)" % f["allseq"]
            if err:
                chk.fail(_f("H4", fi, RM, ex, err, "before_all/after_all bracket: " + err))
            else:
                chk.ok("H4", {"sequence_state": f["allseq"], "features_run": repr(f["n_run"])},
                       nontrivial_key=(f["allseq"], repr(f["n_run"]), f["hook_failed_any"]))
        if "STM" in rules:
            if f["stop_err"]:
                chk.fail(_f("STM", fi, RM, ex, "feature-after-stop", f["stop_err"]))
            elif f.get("skip_err"):
                chk.fail(_f("STM", fi, RM, ex, "feature-passed-over", f["skip_err"] + " (false green)"))
            else:
                chk.ok("STM", None, nontrivial_key=(repr(f["n_run"]), f["child_failed"], f["aborted"] is True))
        if "Y4" in rules:
            err = f["y4_err"]
            if not err and not all(f["ended"]):
                err = "reporter.end() not called for every reporter"
            if err:
                chk.fail(_f("Y4", fi, RM, ex, err, "reporter protocol: " + err))
            else:
                chk.ok("Y4", {"reporters_ended": f["ended"]}, nontrivial_key=(repr(f["n_run"]), f["child_failed"], f["ki"]))
        if "F4" in rules:
            err = f["f4_err"]
            if not err and not all(f["closed"]):
                err = "formatter.close() not called for every formatter"
            if err:
                chk.fail(_f("F4", fi, RM, ex, err, "formatter protocol: " + err))
            else:
                chk.ok("F4", {"formatters_closed": f["closed"]}, nontrivial_key=(repr(f["n_run"]), f["ki"]))
        if "K10" in rules:
            if f.get("k10_err"):
                chk.fail(_f("K10", fi, RM, ex, "before_all before setup_capture", f["k10_err"]))
            else:
                chk.ok("K10", {"capture set up": "before the first hook"}, nontrivial_key=("k10", f["allseq"]))
        if "X8" in rules:
            if not f["cleanups_called"]:
                chk.fail(_f("X8", fi, RM, ex, "root-cleanups-not-run", "run_model returns without running the test-run level cleanups"))
            elif f["cleanups_failed"] and f["truthy"] is not True:
                chk.fail(_f("X8", fi, RM, ex, "root-cleanup-error-ignored", "a raising test-run level cleanup does not make the run fail"))
            else:
                chk.ok("X8", None, nontrivial_key=(f["cleanups_failed"], f["truthy"]))
    return len(exits)


# ----------------------------------------------------------------------
def check_run_hook(chk, ix, rules, tier="quick", mutate=None):
    fi = ix.func(RH)
    for r in rules:
        chk.rule(r, WHAT[r])
    n = 0
    for name in HOOK_NAMES:
        for layers in LAYERS:
            if not ("tag" in name or "all" in name):
                tgt = name.split("_", 1)[1]
                # element hooks: explore with the natural layer sets only
                need = {"feature": ("feature",), "rule": ("feature", "rule"),
                        "scenario": ("feature", "rule", "scenario"), "step": ("feature", "rule", "scenario")}[tgt]
                if layers != need:
                    continue
            elif "all" in name and layers != ("feature",):
                continue
            it, exits = explore_run_hook(ix, name, layers, mutate=mutate)
            chk.absorb(it)
            for r in rules:
                chk.instance(r)
            for ex in exits:
                n += 1
                _hook_exit(chk, fi, ex, rules)
    return n


def _hook_exit(chk, fi, ex, rules):
    f = ex.facts
    name, layers = f["name"], f["layers"]
    key = "hook=%s layers=%s user=%s dry=%s" % (name, "+".join(layers), f["userhook"], f["dry_run"])
    uh = f["userhook"]
    if ex.kind == "raise":
        cls = ex.val.clsname()
        base_only = cls in ("KeyboardInterrupt", "SystemExit", "GeneratorExit")
        if "H1" in rules:
            if base_only and uh == cls:
                chk.ok("H1", None, nontrivial_key=("escape", name, cls))
            else:
                chk.fail(_f("H1", fi, RH, ex, "escapes=%s %s" % (cls, key),
                            "%s escapes run_hook (user hook outcome: %s; %s)" % (cls, uh, ex.val)))
        return
    raised = uh not in (None, "return")
    if "H1" in rules:
        err = None
        if f["dry_run"] is True and uh is not None:
            err = "user hook called in dry-run mode"
        elif raised:
            want = [] if "all" in name else [f["target"]]
            if sorted(f["marked"]) != sorted(want):
                err = "failing hook marks %s as hook_failed, expected %s" % (f["marked"] or "nothing", want or "nothing")
            elif want and isinstance(f["error_message"][want[0]], Top):
                err = "failing hook leaves no error message on the %s" % want[0]
        elif f["marked"]:
            err = "elements marked hook_failed although the hook did not fail: %s" % f["marked"]
        if err:
            chk.fail(_f("H1", fi, RH, ex, err + " | " + key, "run_hook: " + err))
        else:
            chk.ok("H1", {"hook": name, "context_layers": list(layers), "user_hook": uh, "marked": f["marked"]},
                   nontrivial_key=(name, layers, uh, f["dry_run"]))
    if "V6" in rules:
        hf = f["hook_failures"]
        err = None
        if raised and hf != 1:
            err = "failing hook: hook_failures is %r (expected an increment by one)" % (hf,)
        elif not raised and hf != 0:
            err = "hook_failures changed to %r although no hook failed" % (hf,)
        elif raised and ("all" in name) != bool(f["aborted"]):
            err = "failing %s hook: run aborted=%s" % (name, f["aborted"])
        elif not raised and f["abort_called"]:
            err = "run aborted although the hook did not fail"
        if err:
            chk.fail(_f("V6", fi, RH, ex, err + " | " + key, "run_hook: " + err))
        else:
            chk.ok("V6", None, nontrivial_key=(name, raised))
    if "H5" in rules:
        allowed = set()
        if raised and f["target"]:
            allowed = {"%s:%s" % (f["target"], a) for a in ("hook_failed", "error_message", "exception", "exc_traceback")}
        extra = [w for w in f["written"] if w not in allowed]
        if extra:
            chk.fail(_f("H5", fi, RH, ex, "writes=%s | %s" % (",".join(extra), key),
                        "run_hook writes %s (beyond the concerned element's failure fields)" % extra))
        else:
            chk.ok("H5", None, nontrivial_key=(name, layers, raised))


# ----------------------------------------------------------------------
def check_run_behave(chk, ix, mutate=None):
    """V5 by exploration of run_behave with a runner whose run() returns truthy/falsy
    or raises each class of the except ladder (read from the source), and of main."""
    chk.rule("V5", WHAT["V5"])
    fi = ix.func("behave.__main__:run_behave")
    func = mutate(fi) if mutate else fi
    trys = [n for n in ast.walk(func.node) if isinstance(n, ast.Try) and n.handlers]
    if not trys:
        raise AnalysisError("run_behave: no try statement found (anchor vanished)")
    handler_classes = []
    probe = Interp(ix, name="handler classes")
    from .absexpr import _ModuleScope
    from .values import ClassVal as _ClassVal, ModuleVal as _ModuleVal

    def class_names(expr):
        """the exception classes an except clause names (directly, as a tuple, or through a module-level table)"""
        st0 = State()
        st0.frames = [{}]
        probe.cur_func = _ModuleScope(fi.module)
        try:
            outs = probe.eval(st0, expr)
        finally:
            probe.cur_func = None
        if len(outs) != 1 or outs[0][1] != "val":
            raise AnalysisError("run_behave: except clause %s not resolvable" % unparse(expr))
        v = outs[0][2]
        vs = v if isinstance(v, tuple) else (v,)
        names = []
        for x in vs:
            if isinstance(x, _ClassVal):
                names.append(x.name())
            elif isinstance(x, _ModuleVal) and not hasattr(x.mod, "tree"):
                names.append(str(x.mod).split(".")[-1])
            else:
                raise AnalysisError("run_behave: except clause %s names %r, not an exception class" % (unparse(expr), x))
        return names
    for t in trys:
        for h in t.handlers:
            if h.type is not None:
                handler_classes.extend(class_names(h.type))
    w = World(ix)
    stubs = dict(w.stubs)
    stubs["@with"] = "transparent"
    for nm in ("reset_runtime", "print_undefined_step_snippets", "make_scoped_class_name", "print_tags_help",
               "print_language_list", "print_language_help", "print_formatters", "print_runners"):
        stubs[nm] = lambda it, st, a, k, n: [(st, "val", None)]
    mod = fi.module

    def runner_run(it, st, args, kw, node):
        outs = []
        for val in (True, False):
            s = st.fork()
            s.ghost["run_result"] = val
            s.note("runner.run() returns %s" % val)
            outs.append((s, "val", val))
        names = list(dict.fromkeys(handler_classes + ["KeyboardInterrupt", "SystemExit"]))
        for cn in names:
            s = st.fork()
            r = ix.resolve_name(mod, cn)
            cls = r if isinstance(r, ClassInfo) else cn
            s.ghost["run_raised"] = cn
            s.note("runner.run() raises %s" % cn)
            outs.append((s, "raise", Exc(cls, None, "runner.run()")))
        return outs
    stubs["RunnerObj.run"] = runner_run

    def plugin(it, st, args, kw, node):
        return [(st, "val", st.alloc(HObj("PluginStub", {}, label="plugin")))]
    stubs["RunnerPlugin"] = plugin
    stubs["PluginStub.make_runner"] = lambda it, st, a, k, n: [(st, "val", st.alloc(HObj(
        "RunnerObj", {"undefined_steps": Top("undefined_steps", True)}, label="runner")))]
    it = Interp(ix, stubs=stubs, name="run_behave")
    it.allow_guess = True       # the module-level DEBUG switch (an environment setting) is explored both ways
    st = State()
    cfg = st.alloc(HObj("ConfigStub", {
        "version": False, "tags_help": False, "lang": "en", "lang_list": False, "lang_help": None,
        "format": st.alloc(HObj("list", kind="list", items=["plain"])),
        "outputs": st.alloc(HObj("list", kind="list", items=[])),
        "defaults": st.alloc(HObj("dict", kind="dict", items=[])),
        "default_format": "pretty", "runner": "behave.runner:Runner",
        "show_snippets": Top("bool:show_snippets", True, domain=(False, True)),
    }, open=True, label="config"))
    st.frames = []
    st.freeze_base()
    outs = it.run(func, st, [cfg], {"runner_class": Top("runner_class", True)})
    chk.absorb(it)
    chk.instance("V5")
    for (s, k, v) in outs:
        ex = Exit(s, k, v, {"imprecise": list(s.imprecise)})
        rr, raised = s.ghost.get("run_result"), s.ghost.get("run_raised")
        if k == "raise":
            cls = v.clsname()
            # re-raised after reporting (generic Exception arm / DEBUG) or a BaseException: process exits non-zero
            chk.ok("V5", None, nontrivial_key=("raise", cls))
            continue
        want = 1 if (rr is True or raised is not None) else 0
        if v == want:
            chk.ok("V5", {"runner.run()": ("raises " + raised) if raised else ("returns %s" % rr), "return_code": v},
                   nontrivial_key=(rr, raised, v))
        else:
            chk.fail(_f("V5", fi, "behave.__main__:run_behave", ex, "run=%s raised=%s code=%r" % (rr, raised, v),
                        "run_behave returns %r although runner.run() %s" % (
                            v, ("raised " + raised) if raised else ("returned %s" % rr))))
    # -- main(): passes run_behave's value on, 1 for reported configuration errors
    mf = ix.func("behave.__main__:main")
    mf = mutate(mf) if mutate else mf
    stubs2 = dict(stubs)
    stubs2["Configuration"] = lambda it, st, a, k, n: [(st, "val", st.alloc(HObj("ConfigStub", {}, open=True)))] + [
        (st.fork(), "raise", Exc(ix.cls("ConfigError") if "ConfigError" in ix.classes_by_name else "Exception", None, "Configuration()"))]

    def rb(it, st, a, k, n):
        outs = []
        for code in (0, 1):
            s = st.fork()
            s.ghost["rb"] = code
            outs.append((s, "val", code))
        return outs
    stubs2["run_behave"] = rb
    it2 = Interp(ix, stubs=stubs2, name="main")
    st2 = State()
    st2.freeze_base()
    outs = it2.run(mf, st2, [], {})
    chk.absorb(it2)
    chk.instance("V5")
    for (s, k, v) in outs:
        ex = Exit(s, k, v, {"imprecise": list(s.imprecise)})
        code = s.ghost.get("rb")
        if k == "raise":
            chk.fail(_f("V5", mf, "behave.__main__:main", ex, "escapes=%s" % v.clsname(), "exception escapes main(): %s" % v))
        elif (code is not None and v == code) or (code is None and v == 1):
            chk.ok("V5", {"main_returns": v, "run_behave": code}, nontrivial_key=("main", code, v))
        else:
            chk.fail(_f("V5", mf, "behave.__main__:main", ex, "run_behave=%r main=%r" % (code, v),
                        "main() returns %r although run_behave returned %r" % (v, code)))


# ----------------------------------------------------------------------
def check_abort_wiring(chk, ix):
    """V7 (structural): the key written by Context.abort is the one ModelRunner.aborted reads."""
    chk.rule("V7", WHAT["V7"])
    ctx = ix.cls("behave.runner:Context")
    mr = ix.cls("behave.runner:ModelRunner")

    def fail(fn, witness, text):
        chk.fail(Finding("V7", fn.fullname, witness, text, file=fn.file, line=fn.lineno, stmt="def " + fn.name))
    # 1.-4. by evaluation, on a Context made by its own __init__: a new run is not aborted; after ModelRunner.abort() - and after
    # context.abort() called from a deeper layer (a scenario frame pushed) - ModelRunner.aborted is true
    for via in ("runner.abort()", "context.abort() in a pushed frame"):
        stubs = {"weakref.proxy": lambda i, s_, a, k, n: [(s_, "val", a[0])], "@with": "transparent",
                 "Context.use_with_user_mode": lambda i, s_, a, k, n: [(s_, "val", "USER-MODE")]}
        it = Interp(ix, stubs=stubs, name="abort wiring")
        it.shared_consts = True
        it.int_sat = 100
        it.list_cap = 100
        st = State()
        st.frames = []
        cfg = st.alloc(HObj("ConfigTok", {"dry_run": False, "verbose": False}, open=True, label="config"))
        runner = st.alloc(HObj(mr, {"config": cfg, "hooks": st.alloc(HObj("dict", kind="dict", items=[])), "hook_failures": 0}, open=True, label="runner"))
        c = st.alloc(HObj(ctx, {}, label="context"))
        o0 = it.call_function(st, ctx.lookup("__init__"), [runner], {}, None, self_val=c)
        if len(o0) != 1 or o0[0][1] != "val":
            raise AnalysisError("Context.__init__ not evaluable: %r" % ([(k, v) for _, k, v in o0][:2],))
        cur = o0[0][0]
        cur.wobj(runner).fields["context"] = c

        def read(state):
            r = it.get_attr(state, runner, "aborted", None)
            if len(r) != 1 or r[0][1] != "val":
                raise AnalysisError("ModelRunner.aborted not evaluable: %r" % ([(k, v) for _, k, v in r][:2],))
            tv = it.truth(r[0][0], r[0][2])
            if len(tv) != 1:
                raise AnalysisError("ModelRunner.aborted is not a definite value: %r" % (r[0][2],))
            return tv[0][0], tv[0][1]
        cur, before = read(cur)
        if via.startswith("context"):
            o1 = it.call_function(cur, ctx.lookup("_push"), ["scenario"], {}, None, self_val=c) if ctx.lookup("_push") else [(cur, "val", None)]
            if len(o1) != 1 or o1[0][1] != "val":
                raise AnalysisError("Context._push not evaluable: %r" % ([(k, v) for _, k, v in o1][:2],))
            cur = o1[0][0]
            target, recv = ctx.lookup("abort"), c
        else:
            target, recv = mr.lookup("abort"), runner
        try:
            o2 = it.call_function(cur, target, [], {"reason": "user"}, None, self_val=recv)
        except AnalysisError as e:
            if "unexpected kwargs" not in str(e):
                raise
            # Python raises TypeError here: abort(reason=...) is how run_hook and ModelRunner.abort call it
            chk.instance("V7")
            fail(target, "%s(reason=...) is a TypeError" % via.split("(")[0],
                 "%s: %s - the documented call abort(reason=...) (made by ModelRunner.abort and from run_hook's exception handler for "
                 "before_all / after_all failures) raises a TypeError instead of aborting the run" % (via, e))
            continue
        if len(o2) != 1 or o2[0][1] != "val":
            raise AnalysisError("%s not evaluable: %r" % (via, [(k, v) for _, k, v in o2][:2]))
        cur, after = read(o2[0][0])
        chk.absorb(it)
        chk.instance("V7")
        if before is False and after is True:
            chk.ok("V7", {"abort through": via, "runner.aborted before": before, "after": after}, nontrivial_key=("abort", via))
        else:
            fail(ctx.lookup("abort"), "%s: aborted %s -> %s" % (via, before, after),
                 "ModelRunner.aborted is %s on a fresh Context and %s after %s; expected False, then True: an abort requested by user code "
                 "(or by --stop handling) must be what run_model reads when it decides to stop and to fail the run" % (before, after, via))
    # 5. the list model code appends undefined steps to (runner.undefined_steps) is the one run_model measures
    us = mr.methods.get("undefined_steps")
    rm = ix.func(RM)
    chk.instance("V7")
    if us is None:
        # a plain attribute: run_model must read the same attribute
        ok = any(isinstance(n, ast.Attribute) and n.attr == "undefined_steps" for n in ast.walk(rm.node))
        if ok:
            chk.ok("V7", "runner.undefined_steps is a plain attribute read by run_model", nontrivial_key="undefined attr")
        else:
            fail(rm, "run_model does not read runner.undefined_steps", "run_model does not look at runner.undefined_steps")
    else:
        it = Interp(ix, name="ModelRunner.undefined_steps")
        st = State()
        st.frames = []
        store = st.alloc(HObj("list", kind="list", items=[], label="stored undefined steps"))
        fields = {}
        for n in ast.walk(mr.methods["__init__"].node):
            if isinstance(n, ast.Assign) and isinstance(n.targets[0], ast.Attribute) and unparse(n.targets[0].value) == "self" \
                    and isinstance(n.value, ast.List) and not n.value.elts and "undefined" in n.targets[0].attr:
                fields[n.targets[0].attr] = store
        if not fields:
            raise AnalysisError("anchor missing: ModelRunner.__init__ creates no undefined-steps list")
        me = st.alloc(HObj(mr, fields, label="runner"))
        outs = it.call_function(st, us, [], {}, None, self_val=me)
        vals = [v for (_, k, v) in outs if k == "val"]
        reads = [unparse(n) for n in ast.walk(rm.node) if isinstance(n, ast.Attribute) and "undefined_steps" in n.attr]
        if len(vals) == 1 and isinstance(vals[0], Ref) and vals[0].oid == store.oid and reads:
            chk.ok("V7", {"runner.undefined_steps": "returns the stored list itself", "run_model reads": sorted(set(reads))}, nontrivial_key="undefined list")
        else:
            fail(us, "undefined_steps returns %r" % (vals,), "runner.undefined_steps does not hand out the stored list itself (%r): steps that "
                 "model code appends through it are lost and the 'new undefined steps' part of the verdict is never true (false green "
                 "in dry-run)" % (vals,))


def check_tag_hook_owner_real_context(chk, ix):
    """H1 with a Context made by its own __init__ (whatever attributes that defines at the root level): a failing tag
    hook is charged to the innermost element that is currently set on the context - scenario, else rule, else feature."""
    from .values import ClassVal
    chk.rule("H1", WHAT["H1"])
    cc = ix.cls("behave.runner:Context")
    mr = ix.cls("behave.runner:ModelRunner")
    rh = mr.lookup("run_hook")
    for levels in (("feature",), ("feature", "rule"), ("feature", "scenario"), ("feature", "rule", "scenario")):
        stubs = {"weakref.proxy": lambda i, s_, a, k, n: [(s_, "val", a[0])], "@with": "transparent",
                 "Context.use_with_user_mode": lambda i, s_, a, k, n: [(s_, "val", "USER-MODE")],
                 "ExceptionUtil.describe": lambda i, s_, a, k, n: [(s_, "val", "error text")],
                 "ExceptionUtil.set_traceback": lambda i, s_, a, k, n: [(s_, "val", None)],
                 "print": lambda i, s_, a, k, n: [(s_, "val", None)],
                 "ElemTok.store_exception_context": lambda i, s_, a, k, n: [(s_, "val", None)]}
        it = Interp(ix, stubs=stubs, name="run_hook with a real Context")
        it.shared_consts = True
        it.int_sat = 100
        it.list_cap = 100
        st = State()
        st.frames = []

        def user_hook(i, s_, a, k, n):
            return [(s_, "raise", Exc("RuntimeError", None, "user hook"))]
        user_hook.__name__ = "before_tag"
        cfg = st.alloc(HObj("ConfigTok", {"dry_run": False, "verbose": False}, open=True, label="config"))
        runner = st.alloc(HObj(mr, {"config": cfg, "hooks": st.alloc(HObj("dict", kind="dict", items=[("before_tag", user_hook)])),
                                    "hook_failures": 0}, open=True, label="runner"))
        ctx = st.alloc(HObj(cc, {}, label="context"))
        o0 = it.call_function(st, cc.lookup("__init__"), [runner], {}, None, self_val=ctx)
        if len(o0) != 1 or o0[0][1] != "val":
            raise AnalysisError("Context.__init__ not evaluable: %r" % ([(k, v) for _, k, v in o0][:2],))
        cur = o0[0][0]
        elems = {}
        for lv in levels:
            e = cur.alloc(HObj("ElemTok", {"hook_failed": False, "error_message": None, "tags": ("sometag",), "name": lv, "keyword": lv.title()}, label=lv))
            elems[lv] = e
            outs = it.set_attr(cur, ctx, lv, e, None)
            if len(outs) != 1 or outs[0][1] != "next":
                raise AnalysisError("context.%s = element not evaluable" % lv)
            cur = outs[0][0]
        outs = it.call_function(cur, rh, ["before_tag", ctx, "sometag"], {}, None, self_val=runner)
        chk.absorb(it)
        chk.instance("H1")
        if len(outs) != 1 or outs[0][1] != "val":
            raise AnalysisError("run_hook not evaluable with a real Context (%s): %r" % ("/".join(levels), [(k, v) for _, k, v in outs][:3]))
        s2 = outs[0][0]
        marked = [lv for lv in levels if s2.obj(elems[lv]).fields.get("hook_failed") is True]
        want = [levels[-1]]
        if marked == want:
            chk.ok("H1", {"context built by Context.__init__ with": list(levels), "failing before_tag charged to": marked}, nontrivial_key=("real-context", levels))
        else:
            chk.fail(_f("H1", rh, RH, None, "elements %s: charged to %s" % ("/".join(levels), marked or "nobody"),
                        "a raising before_tag hook while the context holds %s is charged to %s, expected %s: the failure is not recorded on "
                        "the element whose tag it is, so that element still runs and reports passed" % (list(levels), marked or "nobody", want)))
