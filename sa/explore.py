# -*- coding: utf-8 -*-
"""Explorations of behave's run methods in the abstract world; each returns the
list of abstract exits with the facts the obligations need."""
from __future__ import annotations

from .index import EnumVal, AnalysisError
from .values import Top, Ref, HObj, Exc, GE2, AbsSeq
from .absint import Interp
from .world import World, S
from .monitors import (MonitorSet, Recorder, capture_monitor, formatter_seq_recorder, Dfa)


class Exit(object):
    def __init__(self, st, kind, val, facts):
        self.st = st
        self.kind = kind        # 'val' | 'raise'
        self.val = val
        self.facts = facts

    @property
    def path(self):
        return list(self.st.path)

    def __repr__(self):
        return "<Exit %s %r %s>" % (self.kind, self.val, self.facts)


def _sname(v):
    return v.name if isinstance(v, EnumVal) else repr(v)


def _hook_recorder():
    def fn(st, ev):
        if ev[0] == "hook":
            name, failed = ev[1], ev[3]
            seq = st.ghost.get("hookseq", ())
            if len(seq) < 8:
                st.ghost["hookseq"] = seq + ((name, {False: "ok", True: "failed", "base": "base"}[failed]),)
        elif ev[0] == "stepfunc":
            seq = st.ghost.get("hookseq", ())
            st.ghost["hookseq"] = seq + (("stepfunc", ev[1]),)
            st.ghost["stepfunc"] = ev[1]
    return Recorder(fn)


def explore_step_run(ix, quiet, capture, with_scenario, hooks_may_raise_base=False, mutate=None):
    """All abstract behaviours of Step.run(runner, quiet, capture)."""
    w = World(ix)
    mons = MonitorSet([capture_monitor(), formatter_seq_recorder(w.n_formatters), _hook_recorder()])
    it = Interp(ix, stubs=w.stubs, on_event=mons, name="Step.run")
    st = w.new_state()
    mons.init(st)
    runner = w.make_runner(st)
    step = w.make_step(st)
    ctx = st.obj(st.obj(runner).fields["context"])
    scen = None
    if with_scenario:
        own = frozenset(["wip"]) if with_scenario == "own-wip" else frozenset()
        eff = frozenset(["wip"]) if with_scenario in ("own-wip", "inherited-wip") else frozenset()
        scen = st.alloc(HObj("ScenarioStub", {
            "tags": own, "effective_tags": eff, "should_skip": False}, label="scenario"))
        ctx.fields["scenario"] = scen
        st.ghost["current_scenario"] = scen.oid
    st.ghost["current_step"] = step.oid
    st.ghost["no_user_abort"] = True
    if hooks_may_raise_base:
        st.ghost["hooks_may_raise_base"] = True
    st.pinned = st.pinned + (step.oid,) + ((scen.oid,) if scen else ())
    func = ix.func("behave.model:Step.run")
    if mutate:
        func = mutate(func)
    outs = it.run(func, st, [runner], {"quiet": quiet, "capture": capture}, self_val=step)
    exits = []
    for (s, k, v) in outs:
        so = s.obj(step)
        cfg = s.obj(s.obj(runner).fields["config"])
        dry = cfg.fields.get("dry_run")
        wip = with_scenario in ("own-wip", "inherited-wip")
        hookseq = s.ghost.get("hookseq", ())
        hk = {n: r for (n, r) in hookseq if n != "stepfunc"}
        facts = {
            "quiet": quiet, "capture": capture, "with_scenario": with_scenario,
            "status": so.fields.get("status"),
            "found": s.ghost.get("found"),
            "dry_run": dry if isinstance(dry, bool) else None,
            "wip": wip,
            "before": hk.get("before_step"), "after": hk.get("after_step"),
            "stepfunc": s.ghost.get("stepfunc"),
            "hookseq": hookseq,
            "cap": s.ghost.get("cap"), "cap_err": s.ghost.get("cap.err"),
            "fmt": [s.ghost.get("fmt%d" % i, ()) for i in range(w.n_formatters)],
            "aborted": s.ghost.get("aborted") is True,
            "undefined_added": s.obj(s.obj(runner).fields["undefined_steps"]).count,
            "hook_failed": so.fields.get("hook_failed"),
            "error_message_set": not isinstance(so.fields.get("error_message"), Top)
            or so.fields.get("error_message").tag != "step.error_message0",
            "captured_replaced": not (isinstance(so.fields.get("captured"), Ref)
                                      and s.obj(so.fields.get("captured")).label == "captured"),
            "imprecise": list(s.imprecise),
        }
        exits.append(Exit(s, k, v, facts))
    return it, exits
