# -*- coding: utf-8 -*-
"""Explorations of behave's run methods in the abstract world; each returns the
list of abstract exits with the facts the obligations need."""
from __future__ import annotations

from .index import EnumVal, AnalysisError
from .values import Top, Ref, HObj, Exc, GE2, AbsSeq
from .absint import Interp
from .world import World, S
from .monitors import (MonitorSet, Recorder, capture_monitor, formatter_seq_recorder, Dfa)


class Exit(object):
    def __init__(self, st, kind, val, facts):
        self.st = st
        self.kind = kind        # 'val' | 'raise'
        self.val = val
        self.facts = facts

    @property
    def path(self):
        return list(self.st.path)

    def __repr__(self):
        return "<Exit %s %r %s>" % (self.kind, self.val, self.facts)


def _sname(v):
    return v.name if isinstance(v, EnumVal) else repr(v)


def _hook_recorder():
    def fn(st, ev):
        if ev[0] == "capture" and ev[1] in ("start", "stop"):
            ce = st.ghost.get("cap_events", ())
            if ev[1] not in ce:
                st.ghost["cap_events"] = ce + (ev[1],)
        if ev[0] == "hook":
            name, failed = ev[1], ev[3]
            seq = st.ghost.get("hookseq", ())
            if len(seq) < 8:
                st.ghost["hookseq"] = seq + ((name, {False: "ok", True: "failed", "base": "base"}[failed]),)
        elif ev[0] == "stepfunc":
            seq = st.ghost.get("hookseq", ())
            st.ghost["hookseq"] = seq + (("stepfunc", ev[1]),)
            st.ghost["stepfunc"] = ev[1]
    return Recorder(fn)


def explore_step_run(ix, quiet, capture, with_scenario, hooks_may_raise_base=False, mutate=None):
    """All abstract behaviours of Step.run(runner, quiet, capture)."""
    w = World(ix)
    mons = MonitorSet([capture_monitor(), formatter_seq_recorder(w.n_formatters), _hook_recorder()])
    it = Interp(ix, stubs=w.stubs, on_event=mons, name="Step.run")
    it.allow_guess = True        # paths through an unknown are reported as imprecise (exit 2) by the rules built on this exploration
    st = w.new_state()
    mons.init(st)
    runner = w.make_runner(st)
    step = w.make_step(st)
    ctx = st.obj(st.obj(runner).fields["context"])
    scen = None
    if with_scenario:
        own = frozenset(["wip"]) if with_scenario == "own-wip" else frozenset()
        eff = frozenset(["wip"]) if with_scenario in ("own-wip", "inherited-wip") else frozenset()
        scen = st.alloc(HObj("ScenarioStub", {
            "tags": own, "effective_tags": eff, "should_skip": False}, label="scenario"))
        ctx.fields["scenario"] = scen
        st.ghost["current_scenario"] = scen.oid
    st.ghost["current_step"] = step.oid
    st.ghost["no_user_abort"] = True
    if hooks_may_raise_base:
        st.ghost["hooks_may_raise_base"] = True
    st.pinned = st.pinned + (step.oid,) + ((scen.oid,) if scen else ())
    func = ix.func("behave.model:Step.run")
    if mutate:
        func = mutate(func)
    st.freeze_base()
    outs = it.run(func, st, [runner], {"quiet": quiet, "capture": capture}, self_val=step)
    exits = []
    for (s, k, v) in outs:
        so = s.obj(step)
        cfg = s.obj(s.obj(runner).fields["config"])
        dry = cfg.fields.get("dry_run")
        wip = with_scenario in ("own-wip", "inherited-wip")
        hookseq = s.ghost.get("hookseq", ())
        hk = {n: r for (n, r) in hookseq if n != "stepfunc"}
        facts = {
            "quiet": quiet, "capture": capture, "with_scenario": with_scenario,
            "status": so.fields.get("status"),
            "found": s.ghost.get("found"),
            "dry_run": dry if isinstance(dry, bool) else None,
            "wip": wip,
            "before": hk.get("before_step"), "after": hk.get("after_step"),
            "stepfunc": s.ghost.get("stepfunc"),
            "hookseq": hookseq,
            "cap": s.ghost.get("cap"), "cap_err": s.ghost.get("cap.err"),
            "cap_events": list(s.ghost.get("cap_events", ())),
            "fmt": [s.ghost.get("fmt%d" % i, ()) for i in range(w.n_formatters)],
            "aborted": s.ghost.get("aborted") is True,
            "undefined_added": s.obj(s.obj(runner).fields["undefined_steps"]).count,
            "hook_failed": so.fields.get("hook_failed"),
            "error_message_set": not isinstance(so.fields.get("error_message"), Top)
            or so.fields.get("error_message").tag != "step.error_message0",
            "captured_replaced": not (isinstance(so.fields.get("captured"), Ref)
                                      and s.obj(so.fields.get("captured")).label == "captured"),
            "imprecise": list(s.imprecise),
        }
        exits.append(Exit(s, k, v, facts))
    return it, exits


# ----------------------------------------------------------------------
# Scenario.run
# ----------------------------------------------------------------------
import ast as _ast


def find_loops(func, pred):
    """For-nodes of ``func`` whose body satisfies pred(for_node)."""
    return [n for n in _ast.walk(func.node) if isinstance(n, _ast.For) and pred(n)]


def _calls_method_on_target(for_node, meth):
    tgt = for_node.target.id if isinstance(for_node.target, _ast.Name) else None
    for n in _ast.walk(for_node):
        if isinstance(n, _ast.Call) and isinstance(n.func, _ast.Attribute) and n.func.attr == meth \
                and isinstance(n.func.value, _ast.Name) and n.func.value.id == tgt:
            return True
    return False


STEP_SYMBOLS_QUICK = ["passed", "pending_warn", "failed", "error", "error+abort", "undefined", "pending",
                      "hook_error", "skip-scenario"]


def step_run_summary(world, symbols):
    """Summary of Step.run (proved by V1/S1/F1 on its own source): sets the step's
    status, returns False iff it has_failed, emits match+result to each formatter."""
    def stub(it, st, args, kw, node):
        step = args[0]
        outs = []
        for sym in symbols:
            s = st.fork()
            name = sym.split("+")[0]
            o = s.wobj(step)
            if sym == "skip-scenario":
                o.fields["status"] = S("skipped")
                cur = s.ghost.get("current_element")
                if cur is not None:
                    s.wobj(cur).fields["should_skip"] = True
                ret = True
            else:
                o.fields["status"] = S(name)
                from . import oracle
                ret = name not in oracle.HAS_FAILED
            if sym.endswith("+abort"):
                s.ghost["aborted"] = True
                it.emit(s, ("abort",))
            s.note("%s: step.run(): step ends %s, returns %s" % (it.loc(node), sym, ret))
            it.emit(s, ("step.run", step.oid, sym, ret))
            fm = s.obj(world._runner_of(s)).fields["formatters"]
            for f in s.obj(fm).items:
                it.emit(s, ("fmt", s.obj(f).fields["idx"], "match", None))
                it.emit(s, ("fmt", s.obj(f).fields["idx"], "result", step.oid))
            outs.append((s, "val", ret))
        return outs
    return stub


def explore_scenario_run(ix, symbols=None, cls="behave.model:Scenario", mutate=None, continue_after_failed=False,
                         thorough=False):
    from .monitors import scope_monitor, scenario_capture_monitor
    w = World(ix)
    func = ix.func("behave.model:Scenario.run")
    if mutate:
        func = mutate(func)
    run_loops = find_loops(func, lambda n: _calls_method_on_target(n, "run"))
    if len(run_loops) != 1:
        raise AnalysisError("Scenario.run: expected exactly one step loop calling step.run(), found %d" % len(run_loops))
    run_loop = id(run_loops[0])

    # ---- monitors -------------------------------------------------------
    def rec(st, ev):
        g = st.ghost
        k = ev[0]
        if k == "hook":
            name, failed = ev[1], ev[3]
            state = g.get("hk", "idle")
            if failed is True and name.startswith("before"):
                g["before_failed"] = True
            if failed is True:
                g["any_hook_failed"] = True
            order = {"idle": 0, "BT": 1, "B": 2, "BODY": 3, "A": 4, "AT": 5}
            nxt = {"before_tag": "BT", "before_scenario": "B", "after_scenario": "A", "after_tag": "AT"}.get(name)
            if nxt is None:
                g.setdefault("hk.err", "unexpected hook %s" % name)
                return
            allowed = {"BT": ("idle", "BT"), "B": ("idle", "BT"), "A": ("B", "BODY"), "AT": ("A", "AT")}[nxt]
            if state not in allowed:
                g.setdefault("hk.err", "hook %s in bracket state %s" % (name, state))
            g["hk"] = nxt
            if ev[2] is not None and ev[2] != g.get("current_element") and "tag" not in name:
                g.setdefault("hk.err", "hook %s called for a different element" % name)
        elif k == "step.run":
            if g.get("cached_last") is not None:
                g["cache_then_child"] = True
            if g.get("hk") in ("B",):
                g["hk"] = "BODY"
            elif g.get("hk") in ("A", "AT", "BT"):
                g.setdefault("hk.err", "step run in bracket state %s" % g.get("hk"))
            if g.get("before_failed"):
                g.setdefault("hk.err", "step run although a before hook failed")
            if g.get("step_failed") and not continue_after_failed:
                g.setdefault("s3.err", "step.run() after an earlier step of the scenario did not pass")
            if g.get("skipped_by_step"):
                g.setdefault("s3.err", "step.run() after a step skipped the scenario")
            g["n_run"] = 1 if g.get("n_run", 0) == 0 else GE2
            if ev[3] is False:
                g["step_failed"] = True
            if ev[2] == "skip-scenario":
                g["skipped_by_step"] = True
            g["iter_run"] = True
        elif k == "iter" and ev[1] == run_loop:
            # close the previous iteration
            _close_iteration(st)
            g["phase"] = "loop"
            g["iter_open"] = True
            g["iter_result"] = False
            g["iter_run"] = False
            g["iter_nomatch"] = False
            g["cur_step"] = ev[3]
        elif k == "loopexit" and ev[1] == run_loop:
            _close_iteration(st)
            g["iter_open"] = False
            g["phase"] = "after"
        elif k == "fmt":
            i, m = ev[1], ev[2]
            key = "f%d" % i
            cur = g.get(key, "start")
            t = {("start", "scenario"): "scn", ("scn", "step"): "ann", ("ann", "step"): "ann",
                 ("ann", "match"): "m", ("r", "match"): "m", ("m", "result"): "r"}
            nxt = t.get((cur, m))
            if nxt is None:
                g.setdefault("fmt.err", "formatter %d: %s after %s" % (i, m, cur))
            else:
                g[key] = nxt
            if m == "result":
                if g.get("iter_open"):
                    g["iter_result"] = True
                    if g.get("gap"):
                        g.setdefault("f2.err", "result emitted for a step after an earlier step of the same "
                                               "scenario got none (formatters that count steps go out of step)")
        elif k == "pop":
            if ev[1]:
                g["pop_raised"] = True
        elif k == "append" and ev[2] == "undefined_steps":
            g["undefined_added"] = True
            g["pending_undef"] = False
        elif k == "find_match":
            if ev[1] is False and g.get("iter_open"):
                g["pending_undef"] = True
                g["iter_nomatch"] = True
        elif k == "setattr" and ev[3] == "_cached_status" and ev[1] == g.get("current_element"):
            v = ev[4]
            final = isinstance(v, EnumVal) and v.name != "untested"
            g["cached_last"] = (g.get("phase", "before"), "final" if final else
                                ("untested" if isinstance(v, EnumVal) else "computed"))
            g["cache_then_child"] = False

    def _close_iteration(st):
        g = st.ghost
        if not g.get("iter_open"):
            return
        if not g.get("iter_result"):
            g["gap"] = True
        if g.get("pending_undef"):
            g.setdefault("v2.err", "a step without matching definition was not appended to runner.undefined_steps")
            g["pending_undef"] = False
        cs = g.get("cur_step")
        if isinstance(cs, Ref) and cs.oid in st.heap:
            stv = st.heap[cs.oid].fields.get("status")
            if isinstance(stv, Top) and stv.tag == "step.status0":
                g["unassigned_step"] = True
            elif isinstance(stv, EnumVal):
                if not g.get("iter_run"):
                    if stv.name not in ("skipped", "undefined", "untested"):
                        g.setdefault("s3.err", "step that was not run was given status %s" % stv.name)
                    elif g.get("iter_nomatch") and stv.name != "undefined":
                        g.setdefault("s3.err", "a remaining step for which no step definition was found ends %s instead of undefined" % stv.name)
                    g["notrun_" + stv.name] = True
        g["cur_step"] = None

    mons = MonitorSet([Recorder(rec), scope_monitor(), scenario_capture_monitor()])

    def on_return(f, st, kind, val):
        if f.qualname == "Scenario.should_run" and kind == "return" or (f.qualname == "Scenario.should_run" and kind == "next"):
            n = st.ghost.get("n_should_run", 0)
            st.ghost["should_run#%d" % (n + 1)] = val
            st.ghost["n_should_run"] = n + 1

    stubs = dict(w.stubs)
    symbols = symbols or STEP_SYMBOLS_QUICK
    stubs["Step.run"] = step_run_summary(w, symbols)
    stubs["TagAndStatusStatement.effective_tags"] = lambda it, st, a, k, n: [(st, "val", Top("effective_tags", True))]

    def compute_status(it, st, args, kw, node):
        from . import oracle
        if thorough:
            return [(st, "val", Top("computed-status", True, domain=tuple(S(n) for n in oracle.SCENARIO_STATUSES)))]
        return [(st, "val", Top("computed-status", True))]
    stubs["Scenario.compute_status"] = compute_status

    def tags_check(it, st, args, kw, node):
        s2 = st.fork()
        st.note("%s: tag expression selects the scenario" % it.loc(node))
        s2.note("%s: tag expression does not select the scenario" % it.loc(node))
        return [(st, "val", True), (s2, "val", False)]
    stubs["TagExprStub.check"] = tags_check

    def name_search(it, st, args, kw, node):
        s2 = st.fork()
        return [(st, "val", Top("match-object", True, truth=True)), (s2, "val", None)]
    stubs["NameReStub.search"] = name_search
    attr_stubs = {"RunnerStub.aborted": lambda it, st, base, node: w.read_aborted(it, st, node)}
    it = Interp(ix, stubs=stubs, on_event=mons, name="Scenario.run", on_return=on_return, attr_stubs=attr_stubs)
    it.allow_guess = True        # paths through an unknown are reported as imprecise (exit 2) by the rules built on this exploration
    it.same_seq_same_length = True

    st = w.new_state()
    mons.init(st)
    cfg = w.make_config(st)
    st.obj(cfg).field_domains["name"] = (None, "pattern") if thorough else (None,)
    runner = w.make_runner(st, cfg)
    ci = ix.cls(cls)

    def tag_factory(interp, s):
        return [(s, Top("tag", True), "tag")]

    def step_factory(interp, s):
        ref = w.make_step(s, label="step")
        return [(s, ref, "step")]

    def absl(name, factory):
        o = HObj("list", kind="list", items=None, label=name)
        o.base = name
        o.fields["@seq"] = AbsSeq(name, factory)
        return st.alloc(o)

    fields = {
        "tags": absl("tags", tag_factory),
        "steps": absl("steps", step_factory),
        "_background_steps": absl("bgsteps", step_factory),
        "background": Top("scenario.background", True, domain=(None, "bg")),
        "_use_background": True,
        "should_skip": Top("bool:scenario.should_skip0", True, domain=(False, True)),
        "skip_reason": None,
        "hook_failed": Top("bool:scenario.hook_failed0", True, domain=(False, True)),
        "_cached_status": Top("scenario.cached0", True),
        "was_dry_run": Top("was_dry_run0", True),
        "captured": st.alloc(HObj("CapturedStub", {}, label="captured")),
        "name": Top("scenario.name", True), "keyword": Top("kw", True),
        "error_message": None, "exception": None, "exc_traceback": None,
        "parent": Top("parent", True), "feature": Top("feature", True),
        "_row": Top("row", True), "description": Top("descr", True),
        "location": Top("loc", True),
    }
    scen = st.alloc(HObj(ci, fields, label="scenario"))
    if continue_after_failed:
        st.wobj(scen).fields["continue_after_failed_step"] = True
    st.ghost["current_element"] = scen.oid
    st.ghost["hooks_may_raise_base"] = False
    st.ghost["hooks_may_skip"] = True
    st.ghost["hooks_may_peek"] = True
    if not thorough:
        st.ghost["no_user_abort"] = True
    st.pinned = st.pinned + (scen.oid,)
    st.freeze_base()
    outs = it.run(func, st, [runner], {}, self_val=scen)
    exits = []
    for (s, k, v) in outs:
        g = s.ghost
        so = s.obj(scen)
        cfgo = s.obj(cfg)
        facts = {
            "ret": v if k == "val" else None,
            "hook_failed": so.fields.get("hook_failed"),
            "cached": so.fields.get("_cached_status"),
            "should_skip": so.fields.get("should_skip"),
            "dry_run": cfgo.fields.get("dry_run") if isinstance(cfgo.fields.get("dry_run"), bool) else None,
            "show_skipped": cfgo.fields.get("show_skipped") if isinstance(cfgo.fields.get("show_skipped"), bool) else None,
            "selected1": g.get("should_run#1"), "selected2": g.get("should_run#2"),
            "aborted": g.get("aborted"), "aborted_at_entry": g.get("aborted_at_entry", False),
            "step_failed": g.get("step_failed", False), "pop_raised": g.get("pop_raised", False),
            "any_hook_failed": g.get("any_hook_failed", False), "before_failed": g.get("before_failed", False),
            "hk": g.get("hk", "idle"), "hk_err": g.get("hk.err"), "s3_err": g.get("s3.err"),
            "fmt_err": g.get("fmt.err"), "f2_err": g.get("f2.err"),
            "fmt": [g.get("f%d" % i, "start") for i in range(w.n_formatters)],
            "scope": g.get("scope"), "scope_err": g.get("scope.err"),
            "scap": g.get("scap"), "scap_err": g.get("scap.err"),
            "n_run": g.get("n_run", 0), "unassigned_step": g.get("unassigned_step", False),
            "undefined_added": g.get("undefined_added", False),
            "skipped_by_step": g.get("skipped_by_step", False),
            "gap": g.get("gap", False), "v2_err": g.get("v2.err"),
            "cached_last": g.get("cached_last"), "cache_then_child": g.get("cache_then_child", False),
            "notrun": sorted(k[7:] for k in g if k.startswith("notrun_")),
            "imprecise": list(s.imprecise),
        }
        exits.append(Exit(s, k, v, facts))
    return it, exits


# ----------------------------------------------------------------------
# ScenarioContainer.run (Feature / Rule), ScenarioOutline.run
# ----------------------------------------------------------------------
CHILD_SYMBOLS = ["ok", "failed", "ok+abort", "failed+abort", "ok+peek", "failed+undefined", "ok+skipparent"]


def child_run_stub(world, container_ref_getter, symbols):
    """A child's run(runner): returns failed True/False; may abort the run; user code
    inside may read the container's status (which caches a final value); may record
    undefined steps."""
    def stub(it, st, args, kw, node):
        outs = []
        syms = symbols
        if st.ghost.get("hook_skipped_element"):
            # element.skip() marks every child skipped as well: a skipped child runs nothing and reports 'not failed'
            syms = ["ok"]
        for sym in syms:
            s = st.fork()
            parts = sym.split("+")
            failed = parts[0] == "failed"
            if "abort" in parts:
                s.ghost["aborted"] = True
                it.emit(s, ("abort",))
            if "peek" in parts:
                c = container_ref_getter(s)
                if c is not None:
                    s.wobj(c).fields["_cached_status"] = S("failed")
                    it.emit(s, ("setattr", c.oid, None, "_cached_status", S("failed")))
            if "skipparent" in parts:
                c = container_ref_getter(s)
                if c is not None:
                    s.wobj(c).fields["should_skip"] = True
                    s.ghost["skipped_midrun"] = True
            if "hookfail" in parts:
                # a hook failed inside the child but the child itself reports success (a retried scenario, a step hook of a
                # nested execute_steps whose caller swallowed the error): the runner's counter is what is left of it
                rr = s.wobj(world._runner_of(s))
                cur_hf = rr.fields.get("hook_failures")
                from .absexpr import x_add
                rr.fields["hook_failures"] = (x_add(cur_hf, 1) if not isinstance(cur_hf, Top) else 1) if cur_hf is not None else 1
                s.ghost["hook_failures_grew"] = True
            if "undefined" in parts:
                r = s.obj(world._runner_of(s))
                lst = r.fields.get("undefined_steps") or r.fields.get("_undefined_steps")
                lo = s.wobj(lst)
                lo.count = 1 if lo.count == 0 else GE2
                s.ghost["undefined_grew"] = True
            if "KI" in parts:
                s.note("%s: child.run() is interrupted (KeyboardInterrupt)" % it.loc(node))
                it.emit(s, ("child.run", args[0].oid, "KI"))
                outs.append((s, "raise", Exc("KeyboardInterrupt", None, "child.run")))
                continue
            s.note("%s: child.run() -> %s" % (it.loc(node), sym))
            it.emit(s, ("child.run", args[0].oid, failed))
            outs.append((s, "val", failed))
        return outs
    return stub


def _bracket_recorder(entity, body_event="child.run", continue_flag=False):
    order_after = {"BT": ("idle", "BT"), "B": ("idle", "BT"), "A": ("B", "BODY"), "AT": ("A", "AT")}

    def rec(st, ev):
        g = st.ghost
        k = ev[0]
        if k == "hook":
            name, failed = ev[1], ev[3]
            if failed is True and name.startswith("before"):
                g["before_failed"] = True
            if failed is True:
                g["any_hook_failed"] = True
            nxt = {"before_tag": "BT", "before_" + entity: "B", "after_" + entity: "A", "after_tag": "AT"}.get(name)
            if nxt is None:
                g.setdefault("hk.err", "unexpected hook %s" % name)
                return
            if g.get("hk", "idle") not in order_after[nxt]:
                g.setdefault("hk.err", "hook %s in bracket state %s" % (name, g.get("hk", "idle")))
            g["hk"] = nxt
            if ev[2] is not None and ev[2] != g.get("current_element"):
                g.setdefault("hk.err", "hook %s called for/attributed to a different element" % name)
        elif k == body_event:
            if g.get("cached_last") is not None:
                g["cache_then_child"] = True
            if g.get("hk") == "B":
                g["hk"] = "BODY"
            elif g.get("hk") in ("A", "AT", "BT"):
                g.setdefault("hk.err", "body runs in bracket state %s" % g.get("hk"))
            if g.get("before_failed"):
                g.setdefault("hk.err", "body runs although a before hook failed")
            if g.get("stop_now"):
                g.setdefault("stop.err", "a child is run after a failure although --stop is set or the run is aborted")
            g["n_run"] = 1 if g.get("n_run", 0) == 0 else GE2
            if ev[2] is True:
                g["child_failed"] = True
            if ev[2] == "KI":
                g["ki"] = True
            g["last_child_failed"] = ev[2] is True
            g["phase"] = "loop"
        elif k == "iter":
            # a new iteration: was the previous failing child a reason to stop?
            if g.get("last_child_failed"):
                cfg_stop = g.get("@stop")
                if cfg_stop is True or g.get("aborted") is True:
                    g["stop_now"] = True
        elif k == "fmt":
            i, m = ev[1], ev[2]
            key = "f%d" % i
            cur = g.get(key, "start")
            t = {("start", entity): "O", ("O", "background"): "OB",
                 ("O", "eof"): "C", ("OB", "eof"): "C", ("O", "rule_finished"): "C", ("OB", "rule_finished"): "C",
                 ("start", "uri"): "start"}
            nxt = t.get((cur, m))
            if nxt is None:
                g.setdefault("fmt.err", "formatter %d: %s after %s" % (i, m, cur))
            else:
                g[key] = nxt
            if m in ("eof", "rule_finished") and m != ("eof" if entity == "feature" else "rule_finished"):
                g.setdefault("fmt.err", "wrong closing callback %s for %s" % (m, entity))
            if m == "background":
                g["bg_announced"] = True
            if m in ("eof", "rule_finished"):
                g["told_finished"] = True
        elif k == "pop":
            if ev[1]:
                g["pop_raised"] = True
        elif k == "setattr" and ev[3] == "_cached_status" and ev[1] == g.get("current_element"):
            v = ev[4]
            final = isinstance(v, EnumVal) and v.name != "untested"
            if final and g.get("told_finished"):
                # a formatter writes the element (its status included) when it is told that the element is finished
                g.setdefault("fmt.err", "the %s's status is set to %s after the formatters were told that the %s is finished "
                             "(a report written at that callback shows the old status)" % (entity, v.name, entity))
            g["cached_last"] = (g.get("phase", "before"), "final" if final else
                                ("untested" if isinstance(v, EnumVal) else "computed"))
            g["cache_then_child"] = False
            g["cached_const"] = v.name if isinstance(v, EnumVal) else None
        elif k == "loopexit":
            if g.get("phase") == "loop" or ev[2] in ("run_items", "scenarios"):
                g["phase"] = "after"
        elif k == "mark_skipped":
            g["marked_skipped"] = True
    return Recorder(rec)


def _absl(st, name, factory):
    o = HObj("list", kind="list", items=None, label=name)
    o.base = name
    o.fields["@seq"] = AbsSeq(name, factory)
    return st.alloc(o)


def explore_container_run(ix, cls, thorough=False, mutate=None):
    """cls: 'behave.model:Feature' or 'behave.model:Rule' (ScenarioContainer.run)."""
    from .monitors import scope_monitor
    w = World(ix)
    ci = ix.cls(cls)
    func = ci.lookup("run")
    if func is None:
        raise AnalysisError("no run() for %s" % cls)
    if mutate:
        func = mutate(func)
    entity = "feature" if ci.name == "Feature" else "rule"
    mons = MonitorSet([_bracket_recorder(entity), scope_monitor()])
    stubs = dict(w.stubs)
    stubs["@with"] = "transparent"
    holder = {}
    symbols = CHILD_SYMBOLS if thorough else ["ok", "failed", "failed+abort", "ok+peek", "ok+skipparent"]
    stubs["ChildStub.run"] = child_run_stub(w, lambda s: holder.get("self"), symbols)

    def sel_stub(tag):
        def f(it, st, args, kw, node):
            s2 = st.fork()
            st.note("%s: %s -> True" % (it.loc(node), tag))
            s2.note("%s: %s -> False" % (it.loc(node), tag))
            return [(st, "val", True), (s2, "val", False)]
        return f
    stubs["ChildStub.should_run_with_name_select"] = sel_stub("child.should_run_with_name_select")
    stubs["ChildStub.should_run_with_tags"] = sel_stub("child.should_run_with_tags")
    stubs["TagExprStub.check"] = sel_stub("tag expression selects the " + entity)

    def mark_skipped(it, st, args, kw, node):
        it.emit(st, ("mark_skipped", args[0].oid))
        return [(st, "val", None)]
    stubs["ChildStub.mark_skipped"] = mark_skipped
    stubs["TagAndStatusStatement.effective_tags"] = lambda it, st, a, k, n: [(st, "val", Top("effective_tags", True))]
    stubs["ScenarioContainer.compute_status"] = lambda it, st, a, k, n: [(st, "val", Top("computed-status", True))]

    def on_return(f, st, kind, val):
        if f.qualname == "ScenarioContainer.should_run":
            n = st.ghost.get("n_should_run", 0)
            if n == 0:
                cur = st.ghost.get("current_element")
                v0 = st.heap[cur].fields.get("should_skip") if cur in st.heap else None
                st.ghost["should_skip_entry"] = v0 if isinstance(v0, bool) else None
            st.ghost["should_run#%d" % (n + 1)] = val
            st.ghost["n_should_run"] = n + 1

    def on_event(st, ev):
        # remember config.stop once it is concrete (for the stop monitor)
        mons(st, ev)
    attr_stubs = {"RunnerStub.aborted": lambda it, st, base, node: w.read_aborted(it, st, node)}
    it = Interp(ix, stubs=stubs, on_event=on_event, name=ci.name + ".run", on_return=on_return, attr_stubs=attr_stubs)
    it.allow_guess = True        # paths through an unknown are reported as imprecise (exit 2) by the rules built on this exploration
    st = w.new_state()
    mons.init(st)
    cfg = w.make_config(st)
    st.obj(cfg).field_domains["name"] = (None, "pattern") if thorough else (None,)
    runner = w.make_runner(st, cfg)

    def tag_factory(interp, s):
        return [(s, Top("tag", True), "tag")]

    def child_factory(interp, s):
        # make config.stop visible to the monitor
        c = s.obj(cfg).fields.get("stop")
        if isinstance(c, bool):
            s.ghost["@stop"] = c
        return [(s, s.alloc(HObj("ChildStub", {}, open=True, label="child")), "run item")]
    bg_with_steps = st.alloc(HObj("BackgroundTok", {"steps": st.alloc(HObj("list", kind="list", items=["bg-step"])), "name": "bg", "inherited_steps": ()},
                                  open=True, label="background with steps"))
    bg_without_steps = st.alloc(HObj("BackgroundTok", {"steps": st.alloc(HObj("list", kind="list", items=[])), "name": "bg", "inherited_steps": ()},
                                     open=True, label="background without steps"))
    fields = {
        "tags": _absl(st, "tags", tag_factory),
        "run_items": _absl(st, "run_items", child_factory),
        "scenarios": _absl(st, "scenarios_list", child_factory),
        # no background / a background with steps / a background without steps of its own (a name, a description, or a rule
        # background that only inherits): a background that exists is announced
        "background": Top("container.background", True, domain=(None, bg_with_steps, bg_without_steps)),
        "should_skip": Top("bool:should_skip0", True, domain=(False, True)),
        "skip_reason": None,
        "hook_failed": Top("bool:hook_failed0", True, domain=(False, True)),
        "_cached_status": Top("cached0", True),
        "run_starttime": 0, "run_endtime": 0,
        "name": Top("name", True), "keyword": Top("kw", True),
        "error_message": None, "exception": None, "exc_traceback": None,
        "parent": Top("parent", True), "feature": Top("feature", True),
        "description": Top("descr", True), "location": Top("loc", True),
        "captured": st.alloc(HObj("CapturedStub", {}, label="captured")),
    }
    me = st.alloc(HObj(ci, fields, label=entity))
    holder["self"] = me
    st.ghost["current_element"] = me.oid
    st.ghost["no_user_abort"] = not thorough
    st.ghost["hooks_may_skip"] = True
    st.pinned = st.pinned + (me.oid,)
    st.freeze_base()
    outs = it.run(func, st, [runner], {}, self_val=me)
    exits = []
    for (s, k, v) in outs:
        g = s.ghost
        so = s.obj(me)
        cfgo = s.obj(cfg)
        b = lambda x: x if isinstance(x, bool) else None
        facts = {
            "entity": entity, "ret": v if k == "val" else None,
            "child_failed": g.get("child_failed", False), "any_hook_failed": g.get("any_hook_failed", False),
            "before_failed": g.get("before_failed", False), "pop_raised": g.get("pop_raised", False),
            "hk": g.get("hk", "idle"), "hk_err": g.get("hk.err"), "stop_err": g.get("stop.err"),
            "fmt": [g.get("f%d" % i, "start") for i in range(w.n_formatters)], "fmt_err": g.get("fmt.err"),
            "bg_announced": g.get("bg_announced", False),
            "background": (s.obj(so.fields["background"]).label if isinstance(so.fields.get("background"), Ref) else
                           ("none" if so.fields.get("background") is None else "undecided")),
            "scope": g.get("scope"), "scope_err": g.get("scope.err"),
            "n_run": g.get("n_run", 0), "cached": so.fields.get("_cached_status"), "cached_last": g.get("cached_last"),
            "cache_then_child": g.get("cache_then_child", False), "cached_const": g.get("cached_const"),
            "n_children": g.get("#n:run_items", g.get("#iter:run_items")),
            "hook_failed": so.fields.get("hook_failed"),
            "should_skip": so.fields.get("should_skip"), "skipped_midrun": g.get("skipped_midrun", False) or g.get("hook_skipped_element", False),
            "should_skip_entry": g.get("should_skip_entry"),
            "dry_run": b(cfgo.fields.get("dry_run")), "show_skipped": b(cfgo.fields.get("show_skipped")),
            "stop": b(cfgo.fields.get("stop")),
            "selected1": g.get("should_run#1"), "selected2": g.get("should_run#2"),
            "aborted": g.get("aborted"), "aborted_at_entry": g.get("aborted_at_entry", False),
            "imprecise": list(s.imprecise),
        }
        exits.append(Exit(s, k, v, facts))
    return it, exits


def explore_outline_run(ix, thorough=False, mutate=None):
    w = World(ix)
    func = ix.func("behave.model:ScenarioOutline.run")
    if mutate:
        func = mutate(func)
    mons = MonitorSet([_bracket_recorder("outline")])
    stubs = dict(w.stubs)
    holder = {}
    symbols = CHILD_SYMBOLS if thorough else ["ok", "failed", "failed+abort", "ok+peek"]
    stubs["ChildStub.run"] = child_run_stub(w, lambda s: holder.get("self"), symbols)
    attr_stubs = {"RunnerStub.aborted": lambda it, st, base, node: w.read_aborted(it, st, node)}
    st = w.new_state()
    mons.init(st)
    cfg = w.make_config(st)
    runner = w.make_runner(st, cfg)

    def child_factory(interp, s):
        c = s.obj(cfg).fields.get("stop")
        if isinstance(c, bool):
            s.ghost["@stop"] = c
        return [(s, s.alloc(HObj("ChildStub", {}, open=True, label="row scenario")), "row scenario")]
    seq = AbsSeq("scenarios", child_factory)
    attr_stubs["ScenarioOutline.scenarios"] = lambda it, s, base, node: [(s, "val", seq)]
    it = Interp(ix, stubs=stubs, on_event=mons, name="ScenarioOutline.run", attr_stubs=attr_stubs)
    it.allow_guess = True        # paths through an unknown are reported as imprecise (exit 2) by the rules built on this exploration
    ci = ix.cls("behave.model:ScenarioOutline")
    me = st.alloc(HObj(ci, {"_cached_status": Top("cached0", True), "should_skip": False,
                            "hook_failed": False, "name": Top("name", True)}, label="outline"))
    holder["self"] = me
    st.ghost["current_element"] = me.oid
    st.pinned = st.pinned + (me.oid,)
    st.freeze_base()
    outs = it.run(func, st, [runner], {}, self_val=me)
    exits = []
    for (s, k, v) in outs:
        g = s.ghost
        b = lambda x: x if isinstance(x, bool) else None
        facts = {"entity": "outline", "ret": v if k == "val" else None, "child_failed": g.get("child_failed", False),
                 "stop_err": g.get("stop.err"), "n_run": g.get("n_run", 0),
                 "cached": s.obj(me).fields.get("_cached_status"), "cached_last": g.get("cached_last"),
                 "cache_then_child": g.get("cache_then_child", False),
                 "stop": b(s.obj(cfg).fields.get("stop")), "aborted": g.get("aborted"),
                 "imprecise": list(s.imprecise)}
        exits.append(Exit(s, k, v, facts))
    return it, exits


# ----------------------------------------------------------------------
# ModelRunner.run_model
# ----------------------------------------------------------------------
def explore_run_model(ix, thorough=False, mutate=None):
    w = World(ix)
    func = ix.func("behave.runner:ModelRunner.run_model")
    if mutate:
        func = mutate(func)
    ci = ix.cls("behave.runner:ModelRunner")

    def rec(st, ev):
        g = st.ghost
        k = ev[0]
        if k == "hook":
            name, failed = ev[1], ev[3]
            seq = g.get("allseq", "start")
            if name == "before_all":
                if not g.get("capture_ready"):
                    g.setdefault("k10.err", "the before_all hook runs before the capture is set up: logging handlers and streams it installs are not "
                                 "taken over by the capture (their output goes to the real streams during the whole run)")
                if seq != "start":
                    g.setdefault("h4.err", "before_all called in state %s" % seq)
                g["allseq"] = "began"
                if failed is True:
                    g["before_all_failed"] = True
            elif name == "after_all":
                if seq not in ("began", "features"):
                    g.setdefault("h4.err", "after_all called in state %s" % seq)
                g["allseq"] = "ended"
            else:
                g.setdefault("h4.err", "unexpected hook %s in run_model" % name)
            if failed is True:
                g["hook_failed_any"] = True
        elif k == "setup_capture":
            g["capture_ready"] = True
        elif k == "child.run":
            if g.get("allseq", "start") not in ("began", "features"):
                g.setdefault("h4.err", "a feature is run in state %s (before before_all / after after_all)" % g.get("allseq", "start"))
            g["allseq"] = "features"
            if g.get("before_all_failed"):
                g.setdefault("h4.err", "a feature is run although before_all failed")
            if g.get("stop_now"):
                g.setdefault("stop.err", "a feature is run after a failure although --stop is set or the run is aborted")
            if ev[2] is True:
                g["child_failed"] = True
            if ev[2] == "KI":
                g["ki"] = True
            g["last_child_failed"] = ev[2] is True or ev[2] == "KI"
            g["iter_ran"] = True
            g["n_run"] = 1 if g.get("n_run", 0) == 0 else GE2
            # uri must have been announced to every formatter for this feature
            if g.get("uri_seen") != tuple(range(w.n_formatters)):
                g.setdefault("f4.err", "feature run without uri() to every formatter first")
            g["uri_seen"] = ()
        elif k == "iter":
            _close(st)
            g["iter_open"] = True
            g["iter_ran"] = False
            g["cur_feature"] = ev[3]
            g["rep_feature"] = ()
            if g.get("last_child_failed"):
                if g.get("@stop") is True or g.get("aborted") is True:
                    g["stop_now"] = True
        elif k == "loopexit":
            _close(st)
            g["iter_open"] = False
            g["loop_done"] = True
        elif k == "fmt":
            if ev[2] == "uri":
                g["uri_seen"] = tuple(sorted(set(g.get("uri_seen", ()) + (ev[1],))))
            elif ev[2] == "close":
                key = "closed%d" % ev[1]
                if g.get(key):
                    g.setdefault("f4.err", "formatter %d closed twice" % ev[1])
                if not g.get("loop_done"):
                    g.setdefault("f4.err", "formatter closed before the feature loop ended")
                g[key] = True
        elif k == "reporter":
            if ev[2] == "feature":
                cur = g.get("cur_feature")
                if not g.get("iter_open") or not isinstance(cur, Ref) or ev[3] != cur.oid:
                    g.setdefault("y4.err", "reporter.feature() called outside the loop or for another feature")
                if ev[1] in g.get("rep_feature", ()):
                    g.setdefault("y4.err", "reporter %d gets the same feature twice" % ev[1])
                g["rep_feature"] = tuple(sorted(g.get("rep_feature", ()) + (ev[1],)))
            elif ev[2] == "end":
                key = "ended%d" % ev[1]
                if g.get(key):
                    g.setdefault("y4.err", "reporter %d ended twice" % ev[1])
                g[key] = True
        elif k == "cleanups":
            g["cleanups_called"] = True
            if ev[1]:
                g["cleanups_failed"] = True

    def _close(st):
        g = st.ghost
        if g.get("iter_open"):
            if not g.get("iter_ran"):
                # a feature of the loaded model was passed over: only an abort (incl. a failed before_all or an
                # interrupt) or an earlier failure under --stop justifies that
                cause = g.get("aborted") is True or g.get("before_all_failed") or g.get("ki") or \
                    (g.get("child_failed") and g.get("@stop") is True)
                if not cause:
                    g.setdefault("skip.err", "a feature is passed over although the run is not aborted and no earlier feature "
                                             "failed under --stop: its failures can never show in the verdict")
            if g.get("rep_feature", ()) != tuple(range(2)):
                g.setdefault("y4.err", "a feature is not reported to every reporter (reported to %s)" % (g.get("rep_feature", ()),))
        g["cur_feature"] = None

    mons = MonitorSet([Recorder(rec)])
    stubs = dict(w.stubs)
    stubs["@with"] = "transparent"
    holder = {}
    symbols = ["ok", "failed", "ok+abort", "failed+abort", "failed+undefined", "ok+undefined", "ok+hookfail", "KI"]
    stubs["ChildStub.run"] = child_run_stub(w, lambda s: None, symbols)

    def run_hook(it, st, args, kw, node):
        outs = w.hook_summary(it, st, args[1], None, node)
        for (s, k, v) in outs:
            if s.ghost.pop("hook_failures", None):
                r = s.wobj(holder["runner"])
                from .absexpr import x_add
                cur = r.fields.get("hook_failures")
                r.fields["hook_failures"] = x_add(cur, 1) if not isinstance(cur, Top) else cur
                s.ghost["hook_failure_counted"] = True
        return outs
    stubs["ModelRunner.run_hook"] = run_hook
    stubs["ModelRunner.setup_capture"] = lambda it, st, a, k, n: (it.emit(st, ("setup_capture",)), [(st, "val", None)])[1]
    attr_stubs = {"ContextStub.aborted": lambda it, st, base, node: w.read_aborted(it, st, node)}
    it = Interp(ix, stubs=stubs, on_event=mons, name="ModelRunner.run_model", attr_stubs=attr_stubs)
    it.allow_guess = True        # paths through an unknown are reported as imprecise (exit 2) by the rules built on this exploration
    st = w.new_state()
    mons.init(st)
    cfg = w.make_config(st)
    runner = w.make_runner(st, cfg, real_class=ci)
    holder["runner"] = runner

    def feature_factory(interp, s):
        c = s.obj(cfg).fields.get("stop")
        if isinstance(c, bool):
            s.ghost["@stop"] = c
        return [(s, s.alloc(HObj("ChildStub", {}, open=True, label="feature")), "feature")]
    features = AbsSeq("features", feature_factory)
    st.ghost["no_user_abort"] = not thorough
    st.freeze_base()
    outs = it.run(func, st, [], {"features": features}, self_val=runner)
    exits = []
    for (s, k, v) in outs:
        g = s.ghost
        ro = s.obj(runner)
        und = s.obj(ro.fields["_undefined_steps"])
        truthy = None
        if k == "val":
            tv = it.truth(s.fork(), v) if not isinstance(v, Top) else []
            truthy = tv[0][1] if len(tv) == 1 else None
        facts = {
            "ret": v if k == "val" else None, "truthy": truthy,
            "child_failed": g.get("child_failed", False), "ki": g.get("ki", False),
            "aborted": g.get("aborted"), "hook_failed_any": g.get("hook_failed_any", False),
            "hook_failures": ro.fields.get("hook_failures"),
            "undefined_grew": und.count != 0, "cleanups_failed": g.get("cleanups_failed", False),
            "hook_failures_grew": g.get("hook_failures_grew", False),
            "cleanups_called": g.get("cleanups_called", False),
            "allseq": g.get("allseq", "start"), "h4_err": g.get("h4.err"), "stop_err": g.get("stop.err"), "skip_err": g.get("skip.err"),
            "y4_err": g.get("y4.err"), "f4_err": g.get("f4.err"), "k10_err": g.get("k10.err"),
            "closed": [bool(g.get("closed%d" % i)) for i in range(w.n_formatters)],
            "ended": [bool(g.get("ended%d" % i)) for i in range(2)],
            "dry_run": s.obj(cfg).fields.get("dry_run") if isinstance(s.obj(cfg).fields.get("dry_run"), bool) else None,
            "n_run": g.get("n_run", 0),
            "imprecise": list(s.imprecise),
        }
        exits.append(Exit(s, k, v, facts))
    return it, exits


# ----------------------------------------------------------------------
# ModelRunner.run_hook
# ----------------------------------------------------------------------
HOOK_NAMES = ["before_all", "after_all", "before_feature", "after_feature", "before_rule", "after_rule",
              "before_scenario", "after_scenario", "before_step", "after_step", "before_tag", "after_tag"]
LAYERS = [("feature",), ("feature", "rule"), ("feature", "scenario"), ("feature", "rule", "scenario")]


def explore_run_hook(ix, name, layers, mutate=None):
    """run_hook(name, context, arg) with the context holding the given layers."""
    w = World(ix)
    func = ix.func("behave.runner:ModelRunner.run_hook")
    if mutate:
        func = mutate(func)
    ci = ix.cls("behave.runner:ModelRunner")
    watched = {}

    def rec(st, ev):
        g = st.ghost
        if ev[0] == "setattr":
            oid, attr = ev[1], ev[3]
            if oid in watched:
                g["w:%s:%s" % (watched[oid], attr)] = True
        elif ev[0] == "userhook":
            g["userhook"] = ev[1]
        elif ev[0] == "abort":
            g["abort_called"] = True

    mons = MonitorSet([Recorder(rec)])
    stubs = dict(w.stubs)
    stubs["@with"] = "transparent"
    stubs["ContextStub.use_with_user_mode"] = lambda it, st, a, k, n: [(st, "val", None)]
    stubs["ExceptionUtil.describe"] = lambda it, st, a, k, n: [(st, "val", "<exception text>")]
    stubs["ExceptionUtil.set_traceback"] = lambda it, st, a, k, n: [(st, "val", None)]

    def user_hook(it, st, args, kw, node):
        outs = []
        ok = st.fork()
        it.emit(ok, ("userhook", "return"))
        ok.note("user hook returns")
        outs.append((ok, "val", None))
        from .world import USER_EXC
        for exc in USER_EXC:
            se = st.fork()
            it.emit(se, ("userhook", exc))
            se.note("user hook raises %s" % exc)
            cls = ix.cls(exc) if exc in ix.classes_by_name else exc
            outs.append((se, "raise", Exc(cls, None, "user hook")))
        return outs

    def hooks_getitem(it, st, args, kw, node):
        return [(st, "val", user_hook)]
    stubs["HooksStub.__getitem__"] = hooks_getitem
    it = Interp(ix, stubs=stubs, on_event=mons, name="ModelRunner.run_hook")
    it.allow_guess = True        # paths through an unknown are reported as imprecise (exit 2) by the rules built on this exploration
    st = w.new_state()
    mons.init(st)
    cfg = w.make_config(st)
    runner = w.make_runner(st, cfg, real_class=ci)
    st.wobj(st.obj(runner).fields["hooks"]).open = True
    st.wobj(runner).fields["hook_failures"] = 0
    ctxr = st.obj(runner).fields["context"]
    elems = {}
    for layer in ("feature", "rule", "scenario", "step"):
        o = HObj("ElementStub", {"hook_failed": False, "error_message": Top("error_message0", True, domain=(None, "earlier message")),
                                 "exception": None, "exc_traceback": None, "tags": Top("tags", True)},
                 label=layer)
        elems[layer] = st.alloc(o)
        watched[elems[layer].oid] = layer
    for layer in layers:
        st.wobj(ctxr).fields[layer] = elems[layer]
    stubs["ElementStub.store_exception_context"] = w.store_exc

    def store_exc(it_, s, args, kw, node):
        it_.emit(s, ("setattr", args[0].oid, None, "exception", args[1]))
        return w.store_exc(it_, s, args, kw, node)
    it.stubs["ElementStub.store_exception_context"] = store_exc
    # argument of the hook
    if "tag" in name:
        arg = "sometag"
        target = layers[-1]
    elif "all" in name:
        arg = None
        target = None
    else:
        target = name.split("_", 1)[1]
        arg = elems[target]
    args = [name, ctxr] + ([arg] if arg is not None else [])
    st.pinned = st.pinned + tuple(e.oid for e in elems.values())
    st.freeze_base()
    outs = it.run(func, st, args, {}, self_val=runner)
    exits = []
    for (s, k, v) in outs:
        g = s.ghost
        marked = [l for l, r in elems.items() if s.obj(r).fields.get("hook_failed") is True]
        written = sorted(kk[2:] for kk in g if kk.startswith("w:"))
        cfgo = s.obj(cfg)
        facts = {
            "name": name, "layers": layers, "target": target,
            "userhook": g.get("userhook"), "marked": marked, "written": written,
            "hook_failures": s.obj(runner).fields.get("hook_failures"),
            "aborted": g.get("aborted") is True, "abort_called": g.get("abort_called", False),
            "dry_run": cfgo.fields.get("dry_run") if isinstance(cfgo.fields.get("dry_run"), bool) else None,
            "error_message": {l: s.obj(r).fields.get("error_message") for l, r in elems.items()},
            "imprecise": list(s.imprecise),
        }
        exits.append(Exit(s, k, v, facts))
    return it, exits
