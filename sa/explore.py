# -*- coding: utf-8 -*-
"""Explorations of behave's run methods in the abstract world; each returns the
list of abstract exits with the facts the obligations need."""
from __future__ import annotations

from .index import EnumVal, AnalysisError
from .values import Top, Ref, HObj, Exc, GE2, AbsSeq
from .absint import Interp
from .world import World, S
from .monitors import (MonitorSet, Recorder, capture_monitor, formatter_seq_recorder, Dfa)


class Exit(object):
    def __init__(self, st, kind, val, facts):
        self.st = st
        self.kind = kind        # 'val' | 'raise'
        self.val = val
        self.facts = facts

    @property
    def path(self):
        return list(self.st.path)

    def __repr__(self):
        return "<Exit %s %r %s>" % (self.kind, self.val, self.facts)


def _sname(v):
    return v.name if isinstance(v, EnumVal) else repr(v)


def _hook_recorder():
    def fn(st, ev):
        if ev[0] == "hook":
            name, failed = ev[1], ev[3]
            seq = st.ghost.get("hookseq", ())
            if len(seq) < 8:
                st.ghost["hookseq"] = seq + ((name, {False: "ok", True: "failed", "base": "base"}[failed]),)
        elif ev[0] == "stepfunc":
            seq = st.ghost.get("hookseq", ())
            st.ghost["hookseq"] = seq + (("stepfunc", ev[1]),)
            st.ghost["stepfunc"] = ev[1]
    return Recorder(fn)


def explore_step_run(ix, quiet, capture, with_scenario, hooks_may_raise_base=False, mutate=None):
    """All abstract behaviours of Step.run(runner, quiet, capture)."""
    w = World(ix)
    mons = MonitorSet([capture_monitor(), formatter_seq_recorder(w.n_formatters), _hook_recorder()])
    it = Interp(ix, stubs=w.stubs, on_event=mons, name="Step.run")
    st = w.new_state()
    mons.init(st)
    runner = w.make_runner(st)
    step = w.make_step(st)
    ctx = st.obj(st.obj(runner).fields["context"])
    scen = None
    if with_scenario:
        own = frozenset(["wip"]) if with_scenario == "own-wip" else frozenset()
        eff = frozenset(["wip"]) if with_scenario in ("own-wip", "inherited-wip") else frozenset()
        scen = st.alloc(HObj("ScenarioStub", {
            "tags": own, "effective_tags": eff, "should_skip": False}, label="scenario"))
        ctx.fields["scenario"] = scen
        st.ghost["current_scenario"] = scen.oid
    st.ghost["current_step"] = step.oid
    st.ghost["no_user_abort"] = True
    if hooks_may_raise_base:
        st.ghost["hooks_may_raise_base"] = True
    st.pinned = st.pinned + (step.oid,) + ((scen.oid,) if scen else ())
    func = ix.func("behave.model:Step.run")
    if mutate:
        func = mutate(func)
    outs = it.run(func, st, [runner], {"quiet": quiet, "capture": capture}, self_val=step)
    exits = []
    for (s, k, v) in outs:
        so = s.obj(step)
        cfg = s.obj(s.obj(runner).fields["config"])
        dry = cfg.fields.get("dry_run")
        wip = with_scenario in ("own-wip", "inherited-wip")
        hookseq = s.ghost.get("hookseq", ())
        hk = {n: r for (n, r) in hookseq if n != "stepfunc"}
        facts = {
            "quiet": quiet, "capture": capture, "with_scenario": with_scenario,
            "status": so.fields.get("status"),
            "found": s.ghost.get("found"),
            "dry_run": dry if isinstance(dry, bool) else None,
            "wip": wip,
            "before": hk.get("before_step"), "after": hk.get("after_step"),
            "stepfunc": s.ghost.get("stepfunc"),
            "hookseq": hookseq,
            "cap": s.ghost.get("cap"), "cap_err": s.ghost.get("cap.err"),
            "fmt": [s.ghost.get("fmt%d" % i, ()) for i in range(w.n_formatters)],
            "aborted": s.ghost.get("aborted") is True,
            "undefined_added": s.obj(s.obj(runner).fields["undefined_steps"]).count,
            "hook_failed": so.fields.get("hook_failed"),
            "error_message_set": not isinstance(so.fields.get("error_message"), Top)
            or so.fields.get("error_message").tag != "step.error_message0",
            "captured_replaced": not (isinstance(so.fields.get("captured"), Ref)
                                      and s.obj(so.fields.get("captured")).label == "captured"),
            "imprecise": list(s.imprecise),
        }
        exits.append(Exit(s, k, v, facts))
    return it, exits


# ----------------------------------------------------------------------
# Scenario.run
# ----------------------------------------------------------------------
import ast as _ast


def find_loops(func, pred):
    """For-nodes of ``func`` whose body satisfies pred(for_node)."""
    return [n for n in _ast.walk(func.node) if isinstance(n, _ast.For) and pred(n)]


def _calls_method_on_target(for_node, meth):
    tgt = for_node.target.id if isinstance(for_node.target, _ast.Name) else None
    for n in _ast.walk(for_node):
        if isinstance(n, _ast.Call) and isinstance(n.func, _ast.Attribute) and n.func.attr == meth \
                and isinstance(n.func.value, _ast.Name) and n.func.value.id == tgt:
            return True
    return False


STEP_SYMBOLS_QUICK = ["passed", "pending_warn", "failed", "error", "error+abort", "undefined", "pending",
                      "hook_error", "skip-scenario"]


def step_run_summary(world, symbols):
    """Summary of Step.run (proved by V1/S1/F1 on its own source): sets the step's
    status, returns False iff it has_failed, emits match+result to each formatter."""
    def stub(it, st, args, kw, node):
        step = args[0]
        outs = []
        for sym in symbols:
            s = st.fork()
            name = sym.split("+")[0]
            o = s.obj(step)
            if sym == "skip-scenario":
                o.fields["status"] = S("skipped")
                cur = s.ghost.get("current_element")
                if cur is not None:
                    s.heap[cur].fields["should_skip"] = True
                ret = True
            else:
                o.fields["status"] = S(name)
                from . import oracle
                ret = name not in oracle.HAS_FAILED
            if sym.endswith("+abort"):
                s.ghost["aborted"] = True
                it.emit(s, ("abort",))
            s.note("%s: step.run(): step ends %s, returns %s" % (it.loc(node), sym, ret))
            it.emit(s, ("step.run", step.oid, sym, ret))
            fm = s.obj(world._runner_of(s)).fields["formatters"]
            for f in s.obj(fm).items:
                it.emit(s, ("fmt", s.obj(f).fields["idx"], "match", None))
                it.emit(s, ("fmt", s.obj(f).fields["idx"], "result", step.oid))
            outs.append((s, "val", ret))
        return outs
    return stub


def explore_scenario_run(ix, symbols=None, cls="behave.model:Scenario", mutate=None, continue_after_failed=False,
                         thorough=False):
    from .monitors import scope_monitor, scenario_capture_monitor
    w = World(ix)
    func = ix.func("behave.model:Scenario.run")
    if mutate:
        func = mutate(func)
    run_loops = find_loops(func, lambda n: _calls_method_on_target(n, "run"))
    if len(run_loops) != 1:
        raise AnalysisError("Scenario.run: expected exactly one step loop calling step.run(), found %d" % len(run_loops))
    run_loop = id(run_loops[0])

    # ---- monitors -------------------------------------------------------
    def rec(st, ev):
        g = st.ghost
        k = ev[0]
        if k == "hook":
            name, failed = ev[1], ev[3]
            state = g.get("hk", "idle")
            if failed is True and name.startswith("before"):
                g["before_failed"] = True
            if failed is True:
                g["any_hook_failed"] = True
            order = {"idle": 0, "BT": 1, "B": 2, "BODY": 3, "A": 4, "AT": 5}
            nxt = {"before_tag": "BT", "before_scenario": "B", "after_scenario": "A", "after_tag": "AT"}.get(name)
            if nxt is None:
                g.setdefault("hk.err", "unexpected hook %s" % name)
                return
            allowed = {"BT": ("idle", "BT"), "B": ("idle", "BT"), "A": ("B", "BODY"), "AT": ("A", "AT")}[nxt]
            if state not in allowed:
                g.setdefault("hk.err", "hook %s in bracket state %s" % (name, state))
            g["hk"] = nxt
            if ev[2] is not None and ev[2] != g.get("current_element") and "tag" not in name:
                g.setdefault("hk.err", "hook %s called for a different element" % name)
        elif k == "step.run":
            if g.get("hk") in ("B",):
                g["hk"] = "BODY"
            elif g.get("hk") in ("A", "AT", "BT"):
                g.setdefault("hk.err", "step run in bracket state %s" % g.get("hk"))
            if g.get("before_failed"):
                g.setdefault("hk.err", "step run although a before hook failed")
            if g.get("step_failed") and not continue_after_failed:
                g.setdefault("s3.err", "step.run() after an earlier step of the scenario did not pass")
            if g.get("skipped_by_step"):
                g.setdefault("s3.err", "step.run() after a step skipped the scenario")
            g["n_run"] = 1 if g.get("n_run", 0) == 0 else GE2
            if ev[3] is False:
                g["step_failed"] = True
            if ev[2] == "skip-scenario":
                g["skipped_by_step"] = True
            g["iter_run"] = True
        elif k == "iter" and ev[1] == run_loop:
            # close the previous iteration
            _close_iteration(st)
            g["phase"] = "loop"
            g["iter_open"] = True
            g["iter_result"] = False
            g["iter_run"] = False
            g["cur_step"] = ev[3]
        elif k == "loopexit" and ev[1] == run_loop:
            _close_iteration(st)
            g["iter_open"] = False
            g["phase"] = "after"
        elif k == "fmt":
            i, m = ev[1], ev[2]
            key = "f%d" % i
            cur = g.get(key, "start")
            t = {("start", "scenario"): "scn", ("scn", "step"): "ann", ("ann", "step"): "ann",
                 ("scn", "match"): "m", ("ann", "match"): "m", ("r", "match"): "m", ("m", "result"): "r"}
            nxt = t.get((cur, m))
            if nxt is None:
                g.setdefault("fmt.err", "formatter %d: %s after %s" % (i, m, cur))
            else:
                g[key] = nxt
            if m == "result":
                if g.get("iter_open"):
                    g["iter_result"] = True
                    if g.get("gap"):
                        g.setdefault("f2.err", "result emitted for a step after an earlier step of the same "
                                               "scenario got none (formatters that count steps go out of step)")
        elif k == "pop":
            if ev[1]:
                g["pop_raised"] = True
        elif k == "append" and ev[2] == "undefined_steps":
            g["undefined_added"] = True
            g["pending_undef"] = False
        elif k == "find_match":
            if ev[1] is False and g.get("iter_open"):
                g["pending_undef"] = True
        elif k == "setattr" and ev[3] == "_cached_status" and ev[1] == g.get("current_element"):
            v = ev[4]
            final = isinstance(v, EnumVal) and v.name != "untested"
            g["cached_last"] = (g.get("phase", "before"), "final" if final else
                                ("untested" if isinstance(v, EnumVal) else "computed"))

    def _close_iteration(st):
        g = st.ghost
        if not g.get("iter_open"):
            return
        if not g.get("iter_result"):
            g["gap"] = True
        if g.get("pending_undef"):
            g.setdefault("v2.err", "a step without matching definition was not appended to runner.undefined_steps")
            g["pending_undef"] = False
        cs = g.get("cur_step")
        if isinstance(cs, Ref) and cs.oid in st.heap:
            stv = st.heap[cs.oid].fields.get("status")
            if isinstance(stv, Top) and stv.tag == "step.status0":
                g["unassigned_step"] = True
            elif isinstance(stv, EnumVal):
                if not g.get("iter_run"):
                    if stv.name not in ("skipped", "undefined", "untested"):
                        g.setdefault("s3.err", "step that was not run was given status %s" % stv.name)
                    g["notrun_" + stv.name] = True
        g["cur_step"] = None

    mons = MonitorSet([Recorder(rec), scope_monitor(), scenario_capture_monitor()])

    def on_return(f, st, kind, val):
        if f.qualname == "Scenario.should_run" and kind == "return" or (f.qualname == "Scenario.should_run" and kind == "next"):
            n = st.ghost.get("n_should_run", 0)
            st.ghost["should_run#%d" % (n + 1)] = val
            st.ghost["n_should_run"] = n + 1

    stubs = dict(w.stubs)
    symbols = symbols or STEP_SYMBOLS_QUICK
    stubs["Step.run"] = step_run_summary(w, symbols)
    stubs["TagAndStatusStatement.effective_tags"] = lambda it, st, a, k, n: [(st, "val", Top("effective_tags", True))]

    def compute_status(it, st, args, kw, node):
        from . import oracle
        if thorough:
            return [(st, "val", Top("computed-status", True, domain=tuple(S(n) for n in oracle.SCENARIO_STATUSES)))]
        return [(st, "val", Top("computed-status", True))]
    stubs["Scenario.compute_status"] = compute_status

    def tags_check(it, st, args, kw, node):
        s2 = st.fork()
        st.note("%s: tag expression selects the scenario" % it.loc(node))
        s2.note("%s: tag expression does not select the scenario" % it.loc(node))
        return [(st, "val", True), (s2, "val", False)]
    stubs["TagExprStub.check"] = tags_check

    def name_search(it, st, args, kw, node):
        s2 = st.fork()
        return [(st, "val", Top("match-object", True, truth=True)), (s2, "val", None)]
    stubs["NameReStub.search"] = name_search
    attr_stubs = {"RunnerStub.aborted": lambda it, st, base, node: w.read_aborted(it, st, node)}
    it = Interp(ix, stubs=stubs, on_event=mons, name="Scenario.run", on_return=on_return, attr_stubs=attr_stubs)

    st = w.new_state()
    mons.init(st)
    cfg = w.make_config(st)
    st.obj(cfg).field_domains["name"] = (None, "pattern") if thorough else (None,)
    runner = w.make_runner(st, cfg)
    ci = ix.cls(cls)

    def tag_factory(interp, s):
        return [(s, Top("tag", True), "tag")]

    def step_factory(interp, s):
        ref = w.make_step(s, label="step")
        return [(s, ref, "step")]

    def absl(name, factory):
        o = HObj("list", kind="list", items=None, label=name)
        o.base = name
        o.fields["@seq"] = AbsSeq(name, factory)
        return st.alloc(o)

    fields = {
        "tags": absl("tags", tag_factory),
        "steps": absl("steps", step_factory),
        "_background_steps": absl("bgsteps", step_factory),
        "background": Top("scenario.background", True, domain=(None, "bg")),
        "_use_background": True,
        "should_skip": Top("bool:scenario.should_skip0", True, domain=(False, True)),
        "skip_reason": None,
        "hook_failed": Top("bool:scenario.hook_failed0", True, domain=(False, True)),
        "_cached_status": Top("scenario.cached0", True),
        "was_dry_run": Top("was_dry_run0", True),
        "captured": st.alloc(HObj("CapturedStub", {}, label="captured")),
        "name": Top("scenario.name", True), "keyword": Top("kw", True),
        "error_message": None, "exception": None, "exc_traceback": None,
        "parent": Top("parent", True), "feature": Top("feature", True),
        "_row": Top("row", True), "description": Top("descr", True),
        "location": Top("loc", True),
    }
    scen = st.alloc(HObj(ci, fields, label="scenario"))
    if continue_after_failed:
        st.obj(scen).fields["continue_after_failed_step"] = True
    st.ghost["current_element"] = scen.oid
    st.ghost["hooks_may_raise_base"] = False
    if not thorough:
        st.ghost["no_user_abort"] = True
    st.pinned = st.pinned + (scen.oid,)
    outs = it.run(func, st, [runner], {}, self_val=scen)
    exits = []
    for (s, k, v) in outs:
        g = s.ghost
        so = s.obj(scen)
        cfgo = s.obj(cfg)
        facts = {
            "ret": v if k == "val" else None,
            "hook_failed": so.fields.get("hook_failed"),
            "cached": so.fields.get("_cached_status"),
            "should_skip": so.fields.get("should_skip"),
            "dry_run": cfgo.fields.get("dry_run") if isinstance(cfgo.fields.get("dry_run"), bool) else None,
            "show_skipped": cfgo.fields.get("show_skipped") if isinstance(cfgo.fields.get("show_skipped"), bool) else None,
            "selected1": g.get("should_run#1"), "selected2": g.get("should_run#2"),
            "aborted": g.get("aborted"), "aborted_at_entry": g.get("aborted_at_entry", False),
            "step_failed": g.get("step_failed", False), "pop_raised": g.get("pop_raised", False),
            "any_hook_failed": g.get("any_hook_failed", False), "before_failed": g.get("before_failed", False),
            "hk": g.get("hk", "idle"), "hk_err": g.get("hk.err"), "s3_err": g.get("s3.err"),
            "fmt_err": g.get("fmt.err"), "f2_err": g.get("f2.err"),
            "fmt": [g.get("f%d" % i, "start") for i in range(w.n_formatters)],
            "scope": g.get("scope"), "scope_err": g.get("scope.err"),
            "scap": g.get("scap"), "scap_err": g.get("scap.err"),
            "n_run": g.get("n_run", 0), "unassigned_step": g.get("unassigned_step", False),
            "undefined_added": g.get("undefined_added", False),
            "skipped_by_step": g.get("skipped_by_step", False),
            "gap": g.get("gap", False), "v2_err": g.get("v2.err"),
            "cached_last": g.get("cached_last"),
            "notrun": sorted(k[7:] for k in g if k.startswith("notrun_")),
            "imprecise": list(s.imprecise),
        }
        exits.append(Exit(s, k, v, facts))
    return it, exits
