# -*- coding: UTF-8 -*-
"""
Equivalence transcript for property C13 (context scoping and cleanups).

Prints a canonical transcript of what is observable through the public
behaviour of behave.runner.Context, behave.fixture and real behave runs:

  PART 1: hand-written boundary histories
  PART 2: exhaustive short operation histories
  PART 3: seeded random long operation histories (cleanups raising at random)
  PART 4: fixtures (generator / plain / failing / composite / by tag)
  PART 5: execute_steps (text/table restored, failure messages)
  PART 6: real runs (python -m behave as subprocess) with raising cleanups

Run once on the clean tree and once on the patched tree: output must be equal.
"""

from __future__ import print_function
import sys
sys.path.insert(0, "/tmp/wtW/C13")

import hashlib
import io
import itertools
import os
import random
import re
import shutil
import subprocess
import tempfile
import textwrap
import warnings
from contextlib import contextmanager

import behave
assert behave.__file__.startswith("/tmp/wtW/C13/"), behave.__file__
from behave.runner import (Context, ContextMode, ContextMaskWarning,
                           scoped_context_layer, use_context_with_mode)
from behave.fixture import (fixture, use_fixture, use_fixture_by_tag,
                            use_composite_fixture_with, fixture_call_params,
                            InvalidFixtureError, is_context_manager)

OUT = []


def emit(text=""):
    # -- CANONICAL FORM: No object addresses, no line numbers of python files.
    text = re.sub(r"0x[0-9a-fA-F]+", "0xADDR", text)
    text = re.sub(r"\.py:\d+", ".py:N", text)
    OUT.append(text)


def normalize(text):
    text = re.sub(r"line \d+", "line N", text)
    text = re.sub(r"0x[0-9a-fA-F]+", "0xADDR", text)
    text = re.sub(r"\d+m\d+\.\d+s", "XmX.XXXs", text)
    text = re.sub(r"\d+\.\d+s", "X.XXXs", text)
    text = re.sub(r'"duration": [0-9.e+-]+', '"duration": D', text)
    return text


# -----------------------------------------------------------------------------
# SUPPORT
# -----------------------------------------------------------------------------
class Config(object):
    def __init__(self, verbose=False):
        self.verbose = verbose


class StubRunner(object):
    def __init__(self, verbose=False):
        self.config = Config(verbose)
        self.captured = "CAPTURED"
        self.formatters = []


class Boom(Exception):
    pass


def func_name(func):
    name = getattr(func, "__name__", None)
    if not name:
        name = getattr(func, "label", None) or func.__class__.__name__
    return name


def show_value(value):
    if callable(value) and not isinstance(value, type):
        return "<callable %s>" % func_name(value)
    if isinstance(value, ContextMode):
        return value.name
    if isinstance(value, Config):
        return "<config>"
    return repr(value)


def dump(context, log):
    # pylint: disable=protected-access
    parts = []
    for frame in context._stack:
        items = []
        for key, value in frame.items():     # -- KEEP: insertion order
            if key == "@cleanups":
                value = "[%s]" % ",".join(func_name(f) for f in value)
            else:
                value = show_value(value)
            items.append("%s=%s" % (key, value))
        parts.append("{%s}" % " ".join(items))
    log("  stack: %s" % " | ".join(parts))
    log("  origin: %s" % " ".join("%s:%s" % (k, v.name)
                                  for k, v in sorted(context._origin.items())))
    log("  record: %s" % " ".join("%s:%s@%s[%s]" % (k, os.path.basename(v[0]), v[2], v[3])
                                  for k, v in sorted(context._record.items())))
    log("  mode: %s root_is_last: %s" %
        (context._mode.name,
         bool(context._stack) and context._stack[-1] is context._root))


class Session(object):
    """Runs operations on one Context and logs everything that is observable."""
    NAMES = ["a", "b", "c", "text", "table", "failed", "tags", "feature"]

    def __init__(self, label, verbose=False, handler=None, fail_on_errors=None):
        self.lines = []
        self.calls = []
        self.counter = 0
        self.runner = StubRunner(verbose)
        self.context = Context(self.runner)
        self.log("SESSION %s verbose=%s handler=%s fail_on_errors=%s" %
                 (label, verbose, handler, fail_on_errors))
        if handler == "custom":
            self.context.on_cleanup_error = self.on_cleanup_error
        elif handler == "ignore":
            self.context.on_cleanup_error = Context.ignore_cleanup_error
        if fail_on_errors is not None:
            self.context.fail_on_cleanup_errors = fail_on_errors

    def log(self, text):
        self.lines.append(text)

    def on_cleanup_error(self, context, cleanup_func, exception):
        self.log("    on_cleanup_error(%s, %s: %s) same_context=%s" %
                 (func_name(cleanup_func), exception.__class__.__name__,
                  exception, context is self.context))

    def make_cleanup(self, raises=False, takes_args=False):
        self.counter += 1
        label = "cleanup%d%s" % (self.counter, "!" if raises else "")
        session = self

        def cleanup(*args, **kwargs):
            session.log("    CALLED %s args=%r kwargs=%r depth=%d" %
                        (label, args, sorted(kwargs.items()),
                         len(session.context._stack)))
            session.calls.append(label)
            if raises:
                raise Boom("boom in %s" % label)
        cleanup.__name__ = label
        return cleanup

    def perform(self, title, func, *args, **kwargs):
        """Perform one operation: log result/exception, warnings, stdout."""
        self.log("OP %s" % title)
        captured = io.StringIO()
        old_stdout = sys.stdout
        sys.stdout = captured
        try:
            with warnings.catch_warnings(record=True) as caught:
                warnings.simplefilter("always")
                try:
                    result = func(*args, **kwargs)
                    self.log("  -> %s" % show_value(result))
                except BaseException as e:  # pylint: disable=broad-except
                    self.log("  !! %s: %s" % (e.__class__.__name__, e))
                    self.log("     context=%s cause=%s" %
                             (e.__context__.__class__.__name__,
                              e.__cause__.__class__.__name__))
        finally:
            sys.stdout = old_stdout
        for w in caught:
            self.log("  warning %s: %s (%s:%s)" %
                     (w.category.__name__, w.message,
                      os.path.basename(w.filename), w.lineno))
        output = captured.getvalue()
        if output:
            for line in normalize(output).splitlines():
                self.log("  stdout| %s" % line)
        dump(self.context, self.log)

    # -- OPERATIONS:
    def op_push(self, layer=None):
        self.perform("push(%r)" % layer, self.context._push, layer)

    def op_push_default(self):
        self.perform("push()", self.context._push)

    def op_pop(self):
        self.perform("pop", self.context._pop)

    def op_do_cleanups(self):
        self.perform("do_cleanups", self.context._do_cleanups)

    def op_set(self, name, value):
        def do_set():
            setattr(self.context, name, value)
        self.perform("set %s=%r" % (name, value), do_set)

    def op_get(self, name):
        self.perform("get %s" % name, lambda: getattr(self.context, name))

    def op_get_default(self, name):
        self.perform("getdefault %s" % name,
                     lambda: getattr(self.context, name, "DEFAULT"))

    def op_has(self, name):
        self.perform("hasattr %s" % name, lambda: hasattr(self.context, name))

    def op_del(self, name):
        def do_del():
            delattr(self.context, name)
        self.perform("del %s" % name, do_del)

    def op_contains(self, name):
        self.perform("contains %s" % name, lambda: name in self.context)

    def op_set_root(self, name, value):
        self.perform("set_root %s=%r" % (name, value),
                     self.context._set_root_attribute, name, value)

    def op_abort(self):
        self.perform("abort", self.context.abort)

    def op_use_or_assign(self, name, value):
        self.perform("use_or_assign %s %r" % (name, value),
                     self.context.use_or_assign_param, name, value)

    def op_use_or_create(self, name, *args, **kwargs):
        def factory(*args, **kwargs):
            self.log("    FACTORY args=%r kwargs=%r" % (args, sorted(kwargs.items())))
            return ("made", args, sorted(kwargs.items()))
        self.perform("use_or_create %s %r %r" % (name, args, sorted(kwargs.items())),
                     self.context.use_or_create_param, name, factory,
                     *args, **kwargs)

    def op_add_cleanup(self, raises=False, args=(), kwargs=None, layer=None,
                       func=None):
        kwargs = dict(kwargs or {})
        if layer is not None:
            kwargs["layer"] = layer
        if func is None:
            func = self.make_cleanup(raises)
        self.last_cleanup = func
        self.perform("add_cleanup %s args=%r kwargs=%r" %
                     (func_name(func), args, sorted(kwargs.items())),
                     self.context.add_cleanup, func, *args, **kwargs)

    def op_add_same_cleanup_again(self):
        func = getattr(self, "last_cleanup", None)
        if func is None:
            func = self.make_cleanup()
        self.op_add_cleanup(func=func)

    def op_add_bad_cleanup(self):
        self.perform("add_cleanup <non-callable>",
                     self.context.add_cleanup, "not-callable")

    def op_mode(self, mode):
        def switch():
            self.context._mode = mode
        self.perform("mode %s" % mode.name, switch)

    def op_in_user_mode(self, name, value):
        def do_it():
            with self.context.use_with_user_mode():
                setattr(self.context, name, value)
            return self.context._mode
        self.perform("with user_mode: set %s=%r" % (name, value), do_it)

    def op_in_behave_mode(self, name, value):
        def do_it():
            with self.context._use_with_behave_mode():
                setattr(self.context, name, value)
            return self.context._mode
        self.perform("with behave_mode: set %s=%r" % (name, value), do_it)

    def op_deprecated_user_mode(self):
        def do_it():
            with self.context.user_mode():
                return self.context._mode
        self.perform("user_mode() deprecated", do_it)

    def op_dump(self, pretty):
        self.perform("_dump(pretty=%s)" % pretty,
                     lambda: self.context._dump(pretty=pretty, prefix="> "))

    def op_fixture(self, kind, layer_hint=None):
        session = self
        self.counter += 1
        label = "fixture%d_%s" % (self.counter, kind)

        if kind == "gen":
            @fixture
            def the_fixture(context, *args, **kwargs):
                session.log("    SETUP %s args=%r kwargs=%r" %
                            (label, args, sorted(kwargs.items())))
                context.fixture_value = label
                yield label
                session.log("    TEARDOWN %s depth=%d" % (label, len(context._stack)))
                session.calls.append(label)
        elif kind == "gen_cleanup_raises":
            @fixture(name="fixture.raises")
            def the_fixture(context, *args, **kwargs):
                session.log("    SETUP %s" % label)
                yield label
                session.log("    TEARDOWN %s raises" % label)
                session.calls.append(label)
                raise Boom("boom in teardown of %s" % label)
        elif kind == "gen_setup_raises":
            @fixture
            def the_fixture(context, *args, **kwargs):
                session.log("    SETUP %s raises" % label)
                raise Boom("boom in setup of %s" % label)
                yield label     # pylint: disable=unreachable
        elif kind == "gen_two_yields":
            @fixture
            def the_fixture(context, *args, **kwargs):
                session.log("    SETUP %s" % label)
                yield label
                session.log("    TEARDOWN-1 %s" % label)
                yield "second"
                session.log("    TEARDOWN-2 %s" % label)
        elif kind == "gen_no_yield":
            @fixture
            def the_fixture(context, *args, **kwargs):
                session.log("    SETUP %s (no yield reached)" % label)
                if args == ("never",):
                    yield label
        elif kind == "plain":
            @fixture
            def the_fixture(context, *args, **kwargs):
                session.log("    SETUP %s args=%r kwargs=%r" %
                            (label, args, sorted(kwargs.items())))
                return (label, args, sorted(kwargs.items()))
        elif kind == "plain_raises":
            def the_fixture(context, *args, **kwargs):
                session.log("    SETUP %s raises" % label)
                raise Boom("boom in plain %s" % label)
        elif kind == "plain_with_cleanup":
            def the_fixture(context, *args, **kwargs):
                session.log("    SETUP %s" % label)
                context.add_cleanup(session.make_cleanup(), "x", key=1)
                return label
        else:
            raise ValueError(kind)
        the_fixture.__name__ = label
        self.perform("use_fixture %s" % label,
                     use_fixture, the_fixture, self.context, 1, two=2)
        return the_fixture

    def done(self, digest_only=False):
        self.log("CALLS: %s" % " ".join(self.calls))
        if digest_only:
            # -- COMPACT FORM: title, digest of the complete log, cleanup calls.
            text = re.sub(r"0x[0-9a-fA-F]+", "0xADDR", "\n".join(self.lines))
            text = re.sub(r"\.py:\d+", ".py:N", text)
            emit(self.lines[0])
            emit("  DIGEST %s lines=%d" % (
                hashlib.sha1(text.encode("utf-8")).hexdigest(), len(self.lines)))
            emit("  " + self.lines[-1])
            return
        for line in self.lines:
            emit(line)
        emit()


# -----------------------------------------------------------------------------
# PART 1: BOUNDARY HISTORIES
# -----------------------------------------------------------------------------
def part1():
    emit("=" * 70)
    emit("PART 1: boundary histories")
    emit("=" * 70)

    s = Session("layered visibility")
    s.op_set("a", 1)
    s.op_push("feature")
    s.op_get("a")
    s.op_set("a", 2)
    s.op_set("b", 20)
    s.op_push("scenario")
    s.op_get("a")
    s.op_set("a", 3)
    s.op_get("a")
    s.op_del("b")
    s.op_del("a")
    s.op_get("a")
    s.op_del("a")
    s.op_contains("a")
    s.op_contains("b")
    s.op_contains("zzz")
    s.op_contains("_stack")
    s.op_contains("_nope")
    s.op_get("_nope")
    s.op_get("_mode")
    s.op_get("zzz")
    s.op_get_default("zzz")
    s.op_has("zzz")
    s.op_has("b")
    s.op_pop()
    s.op_get("a")
    s.op_get("b")
    s.op_pop()
    s.op_get("a")
    s.op_get("b")
    s.op_dump(True)
    s.op_dump(False)
    s.done()

    for verbose in (False, True):
        s = Session("masking warnings", verbose=verbose)
        s.op_set("a", 1)
        s.op_mode(ContextMode.USER)
        s.op_set("u", 1)
        s.op_push("feature")
        s.op_set("a", 2)            # user masks behave
        s.op_set("u", 2)            # user masks user (verbose only)
        s.op_mode(ContextMode.BEHAVE)
        s.op_push("scenario")
        s.op_set("u", 3)            # behave masks user
        s.op_set("a", 3)            # behave masks behave
        s.op_set_root("u", 4)
        s.op_set_root("a", 4)
        s.op_set_root("failed", True)
        s.op_abort()
        s.op_in_user_mode("a", 5)
        s.op_in_user_mode("text", "T")
        s.op_in_behave_mode("u", 6)
        s.op_mode(ContextMode.USER)
        s.op_set_root("a", 7)
        s.op_set_root("u", 7)
        s.op_set_root("newroot", 7)
        s.op_deprecated_user_mode()
        s.op_set_root("@layer", "x")
        s.op_pop()
        s.op_pop()
        s.done()

    for handler in (None, "custom", "ignore"):
        for fail_on_errors in (None, False):
            s = Session("cleanups", handler=handler, fail_on_errors=fail_on_errors)
            s.op_add_cleanup()
            s.op_push("feature")
            s.op_add_cleanup()
            s.op_add_cleanup(raises=True)
            s.op_add_cleanup(args=(1, 2))
            s.op_add_cleanup(raises=True, kwargs={"k": "v"})
            s.op_add_same_cleanup_again()
            s.op_push("scenario")
            s.op_add_cleanup(layer="feature")
            s.op_add_cleanup(layer="testrun", raises=True)
            s.op_add_cleanup(layer="scenario", args=("s",))
            s.op_add_cleanup(layer="rule")
            s.op_add_cleanup(layer="")
            s.op_add_cleanup()
            s.op_add_same_cleanup_again()
            s.op_add_bad_cleanup()
            s.op_pop()
            s.op_get("cleanup_errors")
            s.op_pop()
            s.op_get("cleanup_errors")
            s.op_do_cleanups()
            s.op_do_cleanups()
            s.op_get("cleanup_errors")
            s.done()

    s = Session("empty stack")
    s.op_pop()
    s.op_pop()
    s.op_get("a")
    s.op_contains("a")
    s.op_set("a", 1)
    s.op_del("a")
    s.op_add_cleanup()
    s.op_add_cleanup(layer="testrun")
    s.op_do_cleanups()
    s.op_set_root("a", 1)
    s.op_push()
    s.op_set("a", 2)
    s.op_get("a")
    s.done()

    s = Session("cleanup registers cleanup / mutates frame")
    s.op_push("feature")

    def registers_more():
        s.log("    CALLED registers_more")
        s.context.add_cleanup(late_cleanup)

    def late_cleanup():
        s.log("    CALLED late_cleanup")

    def clears_cleanups():
        s.log("    CALLED clears_cleanups")
        del s.context._stack[0]["@cleanups"][:]

    def pushes_layer():
        s.log("    CALLED pushes_layer")
        s.context._push("extra")
        s.context.pushed = True

    s.op_add_cleanup()
    s.op_add_cleanup(func=registers_more)
    s.op_add_cleanup()
    s.op_pop()
    s.op_push("feature")
    s.op_add_cleanup()
    s.op_add_cleanup()
    s.op_add_cleanup(func=clears_cleanups)
    s.op_add_cleanup()
    s.op_pop()
    s.op_push("feature")
    s.op_add_cleanup()
    s.op_add_cleanup(func=pushes_layer)
    s.op_add_cleanup(raises=True)
    s.op_pop()
    s.op_pop()
    s.done()

    s = Session("frame without @cleanups / handler raises / unnamed callable")
    s.context._stack.insert(0, {"@layer": "bare"})
    s.op_do_cleanups()
    s.op_add_cleanup()
    s.op_pop()

    class Unnamed(object):
        label = "Unnamed-instance"

        def __repr__(self):
            return "<Unnamed>"

        def __call__(self):
            raise Boom("boom in unnamed")

    def bad_handler(context, cleanup_func, exception):
        s.log("    bad_handler(%s)" % func_name(cleanup_func))
        raise KeyError("handler failed")

    s.op_push("scenario")
    s.op_add_cleanup(func=Unnamed())
    s.op_pop()
    s.op_push("scenario")
    s.op_add_cleanup()
    s.op_add_cleanup(raises=True)
    s.op_add_cleanup()
    s.op_set("on_cleanup_error", bad_handler)
    s.op_pop()

    def keyboard_interrupt():
        s.log("    CALLED keyboard_interrupt")
        raise KeyboardInterrupt("stop")

    s.op_push("scenario")
    s.op_add_cleanup()
    s.op_add_cleanup(func=keyboard_interrupt)
    s.op_add_cleanup()
    s.op_pop()
    s.done()

    s = Session("scoped_context_layer and use_context_with_mode")

    def scoped(raises):
        with scoped_context_layer(s.context, "scenario") as ctx:
            ctx.inner = 1
            ctx.add_cleanup(s.make_cleanup(raises))
            if raises:
                raise ValueError("body failed")
        return "inner" in s.context

    s.perform("scoped ok", scoped, False)
    s.perform("scoped raises", scoped, True)

    def with_mode(mode):
        with use_context_with_mode(s.context, mode):
            seen = s.context._mode
            raise ValueError("in mode %s" % seen.name)
    s.perform("use_context_with_mode USER", with_mode, ContextMode.USER)
    s.perform("use_context_with_mode bad", with_mode, "bad")
    s.done()


# -----------------------------------------------------------------------------
# PART 2: EXHAUSTIVE SHORT HISTORIES
# -----------------------------------------------------------------------------
ALPHABET = [
    ("push", lambda s: s.op_push("scenario")),
    ("pop", lambda s: s.op_pop()),
    ("set", lambda s: s.op_set("a", len(s.context._stack))),
    ("get", lambda s: s.op_get("a")),
    ("del", lambda s: s.op_del("a")),
    ("has", lambda s: s.op_contains("a")),
    ("root", lambda s: s.op_set_root("a", "R")),
    ("cln", lambda s: s.op_add_cleanup()),
    ("cln!", lambda s: s.op_add_cleanup(raises=True)),
    ("clnL", lambda s: s.op_add_cleanup(layer="scenario", args=(1,))),
    ("fix", lambda s: s.op_fixture("gen")),
    ("user", lambda s: s.op_in_user_mode("a", "U")),
]


def part2():
    emit("=" * 70)
    emit("PART 2: exhaustive histories up to length 3 (+ closing pops)")
    emit("=" * 70)
    for length in (1, 2, 3):
        for ops in itertools.product(ALPHABET, repeat=length):
            s = Session("exhaustive " + ",".join(name for name, _ in ops))
            s.op_push("feature")
            for _, op in ops:
                op(s)
            while len(s.context._stack) > 1:
                s.op_pop()
            s.op_do_cleanups()
            s.done(digest_only=(length == 3))


# -----------------------------------------------------------------------------
# PART 3: RANDOM LONG HISTORIES
# -----------------------------------------------------------------------------
def part3():
    emit("=" * 70)
    emit("PART 3: random histories")
    emit("=" * 70)
    layers = ["testrun", "feature", "rule", "scenario", "nolayer", None]
    fixture_kinds = ["gen", "gen_cleanup_raises", "gen_setup_raises",
                     "gen_two_yields", "gen_no_yield", "plain",
                     "plain_raises", "plain_with_cleanup"]
    for seed in range(300):
        rng = random.Random(seed)
        s = Session("random seed=%d" % seed,
                    verbose=rng.random() < 0.3,
                    handler=rng.choice([None, None, "custom", "ignore"]),
                    fail_on_errors=rng.choice([None, None, False, True]))
        for _ in range(rng.randint(10, 60)):
            name = rng.choice(Session.NAMES)
            choice = rng.randint(0, 19)
            if choice == 0:
                s.op_push(rng.choice(layers))
            elif choice == 1:
                if len(s.context._stack) > 1 or rng.random() < 0.05:
                    s.op_pop()
                else:
                    s.op_push_default()
            elif choice in (2, 3):
                s.op_set(name, rng.randint(0, 99))
            elif choice == 4:
                s.op_get(name)
            elif choice == 5:
                s.op_del(name)
            elif choice == 6:
                s.op_contains(name)
            elif choice == 7:
                s.op_set_root(name, rng.randint(100, 199))
            elif choice == 8:
                s.op_use_or_assign(name, rng.randint(200, 299))
            elif choice == 9:
                s.op_use_or_create(name, rng.randint(0, 3), k=rng.randint(0, 3))
            elif choice in (10, 11):
                s.op_add_cleanup(raises=rng.random() < 0.4)
            elif choice == 12:
                s.op_add_cleanup(raises=rng.random() < 0.4,
                                 args=tuple(range(rng.randint(0, 2))),
                                 kwargs={"k": 1} if rng.random() < 0.5 else None)
            elif choice == 13:
                s.op_add_cleanup(raises=rng.random() < 0.4,
                                 layer=rng.choice(layers[:5]),
                                 args=("L",) if rng.random() < 0.5 else ())
            elif choice == 14:
                s.op_add_same_cleanup_again()
            elif choice in (15, 16):
                s.op_fixture(rng.choice(fixture_kinds))
            elif choice == 17:
                s.op_mode(rng.choice([ContextMode.USER, ContextMode.BEHAVE]))
            elif choice == 18:
                s.op_in_user_mode(name, rng.randint(300, 399))
            else:
                s.op_in_behave_mode(name, rng.randint(400, 499))
        while len(s.context._stack) > 1:
            s.op_pop()
        s.op_do_cleanups()
        s.op_get("cleanup_errors")
        s.done(digest_only=(seed >= 30 and not os.environ.get("EQUIV_FULL")))


# -----------------------------------------------------------------------------
# PART 4: FIXTURES
# -----------------------------------------------------------------------------
def part4():
    emit("=" * 70)
    emit("PART 4: fixtures")
    emit("=" * 70)
    kinds = ["gen", "gen_cleanup_raises", "gen_setup_raises", "gen_two_yields",
             "gen_no_yield", "plain", "plain_raises", "plain_with_cleanup"]
    for handler in (None, "custom"):
        for kind in kinds:
            s = Session("fixture %s" % kind, handler=handler)
            s.op_push("feature")
            s.op_add_cleanup()
            func = s.op_fixture(kind)
            s.log("  is_context_manager: %s" % is_context_manager(func))
            s.op_add_cleanup()
            s.op_get("fixture_value")
            s.op_pop()
            s.op_get_default("fixture_value")
            s.done()

    s = Session("fixture order + same fixture twice")
    s.op_push("feature")
    s.op_fixture("gen")
    f = s.op_fixture("gen")
    s.perform("use same fixture again", use_fixture, f, s.context)
    s.op_fixture("gen_cleanup_raises")
    s.op_fixture("gen")
    s.op_pop()
    s.done()

    s = Session("composite fixtures", handler="custom")
    log = s.log

    @fixture
    def fixture_foo(context, *args, **kwargs):
        log("    SETUP foo %r %r" % (args, sorted(kwargs.items())))
        yield "foo"
        log("    TEARDOWN foo")

    @fixture
    def fixture_bar(context, *args, **kwargs):
        log("    SETUP bar %r %r" % (args, sorted(kwargs.items())))
        yield "bar"
        log("    TEARDOWN bar")
        raise Boom("bar teardown")

    @fixture
    def fixture_bad(context, *args, **kwargs):
        log("    SETUP bad %r" % (args,))
        raise RuntimeError("BAD-FIXTURE-SETUP")

    def fixture_plain(context, *args, **kwargs):
        log("    SETUP plain")
        return "plain"

    @fixture
    def composite_ok(context):
        result = use_composite_fixture_with(context, [
            fixture_call_params(fixture_foo, 1, x=1),
            fixture_call_params(fixture_plain),
            fixture_call_params(fixture_bar, 2),
        ])
        return result

    @fixture
    def composite_bad(context):
        return use_composite_fixture_with(context, [
            fixture_call_params(fixture_foo, 1),
            fixture_call_params(fixture_bad, "OOPS"),
            fixture_call_params(fixture_bar, 2),
        ])

    @fixture
    def composite_gen(context):
        a = use_fixture(fixture_foo, context, "nested")
        yield [a]
        log("    TEARDOWN composite_gen")

    s.op_push("scenario")
    s.perform("composite_ok", use_fixture, composite_ok, s.context)
    s.perform("composite empty", use_composite_fixture_with, s.context, [])
    s.op_pop()
    s.op_push("scenario")
    s.perform("composite_bad", use_fixture, composite_bad, s.context)
    s.op_pop()
    s.op_push("scenario")
    s.perform("composite_gen", use_fixture, composite_gen, s.context)
    s.op_pop()

    registry = {
        "fixture.foo": fixture_foo,
        "fixture.bar": (fixture_bar, ("a",), {"k": 1}),
        "fixture.list": [fixture_foo, (), {}],
        "fixture.bad": fixture_bad,
        "fixture.wrong": 42,
        "fixture.short": (fixture_foo, ()),
    }
    s.op_push("scenario")
    for tag in ["fixture.foo", "fixture.bar", "fixture.list", "fixture.bad",
                "fixture.wrong", "fixture.short", "fixture.unknown"]:
        s.perform("use_fixture_by_tag %s" % tag,
                  use_fixture_by_tag, tag, s.context, registry)
    s.op_pop()

    s.perform("fixture(bad func)", fixture, 42, name="x")
    decorated = fixture(name="fixture.named", pattern="p")(fixture_plain)
    s.log("  decorated: %s %s %s %s" % (decorated is fixture_plain, decorated.name,
                                       decorated.pattern, decorated.behave_fixture))
    s.perform("bad fixture args", use_fixture, lambda: None, s.context)

    def gen_bad_signature():
        yield 1
    s.op_push("scenario")
    s.perform("generator with bad signature", use_fixture, gen_bad_signature, s.context)
    s.op_pop()
    s.done()


# -----------------------------------------------------------------------------
# PART 5 + 6: REAL RUNS
# -----------------------------------------------------------------------------
ENVIRONMENT_PY = u'''
from __future__ import print_function
from behave import fixture, use_fixture
from behave.fixture import use_fixture_by_tag

def note(context, text):
    print("NOTE: %s" % text)

def make_cleanup(context, name):
    def cleanup(*args, **kwargs):
        visible = [n for n in ("run_attr", "feature_attr", "rule_attr",
                               "scenario_attr", "step_attr", "shadow")
                   if n in context]
        print("CLEANUP %s args=%r kwargs=%r depth=%d visible=%s shadow=%s" % (
            name, args, sorted(kwargs.items()), len(context._stack),
            ",".join(visible), getattr(context, "shadow", None)))
        raising = context.config.userdata.get("raise", "").split(",")
        if name in raising:
            raise RuntimeError("cleanup %s failed" % name)
    cleanup.__name__ = "cleanup_" + name.replace(".", "_")
    return cleanup

@fixture
def fixture_good(context, *args, **kwargs):
    print("FIXTURE good setup %r" % (args,))
    context.good = "good"
    yield context.good
    print("FIXTURE good teardown depth=%d" % len(context._stack))

@fixture
def fixture_bad_teardown(context):
    print("FIXTURE bad_teardown setup")
    yield 1
    print("FIXTURE bad_teardown teardown")
    raise RuntimeError("fixture teardown failed")

@fixture
def fixture_bad_setup(context):
    print("FIXTURE bad_setup setup")
    raise RuntimeError("fixture setup failed")
    yield 1

registry = {
    "fixture.good": (fixture_good, ("by-tag",), {}),
    "fixture.bad_teardown": fixture_bad_teardown,
    "fixture.bad_setup": fixture_bad_setup,
}

def before_all(context):
    context.run_attr = "run"
    context.shadow = "run"
    context.add_cleanup(make_cleanup(context, "all.1"))
    context.add_cleanup(make_cleanup(context, "all.2"), "x", k=1)
    if context.config.userdata.get("handler") == "custom":
        def handler(ctx, func, exc):
            print("HANDLER %s %s: %s" % (func.__name__, exc.__class__.__name__, exc))
        context.on_cleanup_error = handler
    if context.config.userdata.get("fail_on_cleanup_errors") == "no":
        context.fail_on_cleanup_errors = False

def before_feature(context, feature):
    context.feature_attr = feature.name
    context.shadow = "feature"
    context.add_cleanup(make_cleanup(context, "feature.1"))
    context.add_cleanup(make_cleanup(context, "feature.2"))
    context.add_cleanup(make_cleanup(context, "feature.to_testrun"), layer="testrun")

def before_rule(context, rule):
    context.rule_attr = rule.name
    context.shadow = "rule"
    context.add_cleanup(make_cleanup(context, "rule.1"))
    context.add_cleanup(make_cleanup(context, "rule.to_feature"), layer="feature")

def before_tag(context, tag):
    if tag.startswith("fixture."):
        use_fixture_by_tag(tag, context, registry)
    elif tag == "hook_error":
        context.add_cleanup(make_cleanup(context, "tag.before_error"))
        raise RuntimeError("before_tag failed")

def before_scenario(context, scenario):
    context.scenario_attr = scenario.name
    context.shadow = "scenario"
    context.add_cleanup(make_cleanup(context, "scenario.1"))
    context.add_cleanup(make_cleanup(context, "scenario.2"), 1, 2)
    context.add_cleanup(make_cleanup(context, "scenario.to_feature"), layer="feature")
    try:
        context.add_cleanup(make_cleanup(context, "scenario.to_rule"), layer="rule")
    except LookupError as e:
        print("LOOKUP-ERROR: %s" % e)

def after_scenario(context, scenario):
    print("AFTER scenario %s status=%s shadow=%s step_attr=%s" % (
        scenario.name, scenario.status.name, context.shadow,
        getattr(context, "step_attr", None)))
    context.add_cleanup(make_cleanup(context, "scenario.after"))
    if "after_error" in scenario.tags:
        raise RuntimeError("after_scenario failed")

def after_rule(context, rule):
    print("AFTER rule %s status=%s shadow=%s has_scenario_attr=%s" % (
        rule.name, rule.status.name, context.shadow, "scenario_attr" in context))

def after_feature(context, feature):
    print("AFTER feature %s status=%s shadow=%s has_scenario_attr=%s has_rule_attr=%s" % (
        feature.name, feature.status.name, context.shadow,
        "scenario_attr" in context, "rule_attr" in context))

def after_all(context):
    print("AFTER all shadow=%s has_feature_attr=%s cleanup_errors=%s failed=%s" % (
        context.shadow, "feature_attr" in context, context.cleanup_errors,
        context.failed))
    context.add_cleanup(make_cleanup(context, "all.after"))
'''

STEPS_PY = u'''
from __future__ import print_function
from behave import given, when, then, step
from environment import make_cleanup

@given(u'a step that sets "{name}" to "{value}"')
def step_set(context, name, value):
    setattr(context, name, value)

@then(u'"{name}" is "{value}"')
def step_check(context, name, value):
    actual = getattr(context, name, None)
    assert str(actual) == value, "%s: %r != %r" % (name, actual, value)

@then(u'"{name}" is not visible')
def step_not_visible(context, name):
    assert name not in context, "%s is visible: %r" % (name, getattr(context, name))

@given(u'a step cleanup "{name}"')
def step_cleanup(context, name):
    context.add_cleanup(make_cleanup(context, name))

@given(u'a layered cleanup "{name}" for layer "{layer}"')
def step_cleanup_layer(context, name, layer):
    context.add_cleanup(make_cleanup(context, name), layer=layer)

@when(u'a step fails')
def step_fails(context):
    assert False, "step failed on purpose"

@when(u'a step raises')
def step_raises(context):
    raise ValueError("step raised on purpose")

@step(u'a step passes')
def step_passes(context):
    pass

@step(u'an inner step with text')
def step_inner_text(context):
    print("INNER text=%r table=%r" % (context.text, context.table))

@step(u'an inner step with table')
def step_inner_table(context):
    rows = [tuple(row.cells) for row in context.table]
    print("INNER text=%r table=%r" % (context.text, rows))

@step(u'an inner step that deletes the text')
def step_inner_delete(context):
    del context.text
    print("INNER deleted text; now %r" % getattr(context, "text", "GONE"))

@when(u'I execute nested steps')
def step_nested(context):
    before = (context.text, [tuple(r.cells) for r in context.table] if context.table else None)
    print("OUTER before text=%r table=%r" % before)
    result = context.execute_steps(u"""
        Given an inner step with text
          \\"\\"\\"
          inner text
          \\"\\"\\"
        And an inner step with table
          | x | y |
          | 1 | 2 |
        And a step passes
    """)
    after = (context.text, [tuple(r.cells) for r in context.table] if context.table else None)
    print("OUTER after result=%r text=%r table=%r same=%s" % (result, after[0], after[1], before == after))

@when(u'I execute nested steps that "{how}"')
def step_nested_failing(context, how):
    original_text = context.text
    steps = {
        "fail": u"When a step passes\\nWhen a step fails\\nWhen a step passes",
        "raise": u"Given an inner step with text\\n  \\"\\"\\"\\n  xx\\n  \\"\\"\\"\\nWhen a step raises",
        "undefined": u"Given an inner step with text\\n  \\"\\"\\"\\n  yy\\n  \\"\\"\\"\\nWhen this step is undefined",
        "delete": u"Given an inner step that deletes the text",
        "empty": u"",
    }[how]
    try:
        result = context.execute_steps(steps)
        print("NESTED result=%r" % result)
    except BaseException as e:
        message = str(e)
        message = message.split("Traceback (of failed substep)")[0]
        print("NESTED %s: %s" % (e.__class__.__name__, message))
    print("OUTER restored text=%r same=%s table=%r mode=%s" % (
        context.text, context.text == original_text, context.table,
        context._mode.name))

@when(u'I execute nested steps with bytes')
def step_nested_bytes(context):
    try:
        context.execute_steps(b"Given a step passes")
    except AssertionError as e:
        print("NESTED AssertionError: %s" % e)
'''

FEATURE_ONE = u'''
@feature_tag
Feature: One

  Scenario: S1 sets and shadows
    Given a step that sets "step_attr" to "s1"
    And a step that sets "shadow" to "step"
    And a step cleanup "step.1"
    And a layered cleanup "step.to_feature" for layer "feature"
    Then "shadow" is "step"
    And "run_attr" is "run"
    And "feature_attr" is "One"

  Scenario: S2 does not see S1
    Then "step_attr" is not visible
    And "shadow" is "scenario"
    And "scenario_attr" is "S2 does not see S1"

  Scenario: S3 failing step still cleans up
    Given a step cleanup "step.3"
    When a step fails
    Then a step passes

  Scenario: S4 raising step still cleans up
    Given a step cleanup "step.4"
    When a step raises

  @fixture.good
  Scenario: S5 with fixture
    Then "good" is "good"

  @fixture.bad_teardown
  Scenario: S6 with failing fixture teardown
    Given a step passes

  @fixture.bad_setup
  Scenario: S7 with failing fixture setup
    Given a step passes

  @hook_error
  Scenario: S8 with before_tag error
    Given a step passes

  @after_error
  Scenario: S9 with after_scenario error
    Given a step cleanup "step.9"

  Scenario: S10 unknown layer
    Given a layered cleanup "step.10" for layer "nolayer"

  Scenario Outline: O1 <name>
    Given a step that sets "step_attr" to "<name>"
    And a step cleanup "outline.<name>"
    Then "step_attr" is "<name>"

    Examples:
      | name |
      | x    |
      | y    |
'''

FEATURE_TWO = u'''
Feature: Two with rules

  Background:
    Given a step cleanup "background"

  Scenario: T1 outside rule
    Then "rule_attr" is not visible

  @rule_tag
  Rule: R1

    Scenario: T2 in rule
      Given a layered cleanup "step.to_rule" for layer "rule"
      Then "rule_attr" is "R1"
      And "shadow" is "scenario"

    Scenario: T3 in rule fails
      When a step fails

  Rule: R2

    Scenario: T4 in second rule
      Then "rule_attr" is "R2"
      And "feature_attr" is "Two with rules"
'''

FEATURE_THREE = u'''
Feature: Three nested steps

  Scenario: N1 nested steps restore text and table
    When I execute nested steps
      """
      outer text
      """
    When I execute nested steps
      | a | b |
      | 3 | 4 |
    When I execute nested steps

  Scenario: N2 failing nested steps restore text
    When I execute nested steps that "fail"
      """
      outer-fail
      """
    And I execute nested steps that "raise"
      """
      outer-raise
      """
    And I execute nested steps that "undefined"
      """
      outer-undefined
      """
    And I execute nested steps that "empty"
    And I execute nested steps with bytes

  Scenario: N3 after nested steps
    Then "text" is "None"
'''

FEATURE_EMPTY = u'''
Feature: Four empty
'''

FEATURE_DELETE = u'''
Feature: Five nested step deletes the text (runs last: poisons context.text)

  Scenario: D1
    When I execute nested steps that "delete"
      """
      outer-delete
      """
    Then a step passes
'''


@contextmanager
def project():
    tmpdir = tempfile.mkdtemp(prefix="c13equiv_")
    try:
        os.makedirs(os.path.join(tmpdir, "features", "steps"))
        files = {
            "features/environment.py": ENVIRONMENT_PY,
            "features/steps/steps.py": STEPS_PY,
            "features/one.feature": FEATURE_ONE,
            "features/two.feature": FEATURE_TWO,
            "features/three.feature": FEATURE_THREE,
            "features/zfour.feature": FEATURE_EMPTY,
            "features/zzfive.feature": FEATURE_DELETE,
        }
        for name, content in files.items():
            with io.open(os.path.join(tmpdir, name), "w", encoding="utf-8") as f:
                f.write(content.lstrip("\n"))
        yield tmpdir
    finally:
        shutil.rmtree(tmpdir, ignore_errors=True)


def run_behave(tmpdir, args):
    env = dict(os.environ)
    env["PYTHONPATH"] = "/tmp/wtW/C13" + os.pathsep + os.path.join(tmpdir, "features")
    env["PYTHONDONTWRITEBYTECODE"] = "1"
    env["PYTHONHASHSEED"] = "0"
    env.pop("BEHAVE_ARGS", None)
    command = [sys.executable, "-m", "behave", "--no-color", "--no-capture",
               "--no-capture-stderr", "--no-logcapture", "-f", "plain",
               "--no-timings"] + args
    proc = subprocess.Popen(command, cwd=tmpdir, env=env,
                            stdout=subprocess.PIPE, stderr=subprocess.STDOUT)
    output, _ = proc.communicate()
    output = output.decode("utf-8", "replace")
    output = output.replace(tmpdir, "<TMP>")
    output = re.sub(r"/tmp/c13equiv_\w+", "<TMP>", output)
    emit("RUN behave %s" % " ".join(args))
    emit("returncode: %s" % proc.returncode)
    for line in normalize(output).splitlines():
        emit("  | %s" % line.rstrip())
    emit()


def part5_6():
    emit("=" * 70)
    emit("PART 5+6: real runs")
    emit("=" * 70)
    with project() as tmpdir:
        run_behave(tmpdir, ["features/three.feature"])
        run_behave(tmpdir, [])
        run_behave(tmpdir, ["-D", "handler=custom"])
        raising_sets = [
            "scenario.1", "scenario.2", "scenario.1,scenario.2",
            "scenario.after", "step.1", "step.to_feature", "feature.1",
            "feature.2,feature.1", "feature.to_testrun", "rule.1",
            "rule.to_feature", "step.to_rule", "all.1", "all.2,all.after",
            "background", "outline.x",
            "scenario.1,feature.1,rule.1,all.1,step.3,step.4,step.9",
        ]
        for raising in raising_sets:
            run_behave(tmpdir, ["-D", "raise=" + raising, "-D", "handler=custom"])
        run_behave(tmpdir, ["-D", "raise=scenario.1,feature.2", "features/two.feature"])
        run_behave(tmpdir, ["-D", "raise=scenario.1,feature.1,all.1",
                            "-D", "fail_on_cleanup_errors=no",
                            "-D", "handler=custom"])
        run_behave(tmpdir, ["-D", "raise=scenario.1,rule.1", "--stop",
                            "-D", "handler=custom", "features/two.feature"])
        run_behave(tmpdir, ["--dry-run", "-D", "raise=scenario.1"])
        run_behave(tmpdir, ["--tags=rule_tag", "-D", "raise=rule.1",
                            "-D", "handler=custom"])
        run_behave(tmpdir, ["--tags=not feature_tag", "--show-skipped",
                            "-D", "raise=feature.1", "-D", "handler=custom"])
        run_behave(tmpdir, ["-f", "json", "-D", "raise=scenario.2,all.1",
                            "-D", "handler=custom", "features/two.feature"])


def main():
    part1()
    part2()
    part3()
    part4()
    part5_6()
    text = "\n".join(OUT) + "\n"
    sys.stdout.write(text)


if __name__ == "__main__":
    main()
