# -*- coding: utf-8 -*-
"""
Equivalence transcript for property C15 (formatter event protocol, JSON /
plain / progress reports mirror the model).

PART 1 runs `python -m behave` (PYTHONPATH=/tmp/wtX/C15) over a generated
feature tree with many formatter / option combinations, a recording formatter
registered next to the built-in ones, and prints every report (normalised
for durations and traceback line numbers) plus the JSON report read back
with behave.json_parser.
PART 2 drives the refactored code directly (in-process) on boundary inputs.
"""
from __future__ import print_function
import sys
sys.path.insert(0, "/tmp/wtX/C15")

import io
import json
import os
import re
import shutil
import subprocess
import tempfile

WORKTREE = "/tmp/wtX/C15"
PYTHON = "/venv/bin/python"

# ---------------------------------------------------------------------------
# TEST DATA
# ---------------------------------------------------------------------------
FEATURE_A = u'''@fa @both
Feature: Alpha bäsics ☃
  Some description line 1
  Some description line 2

  Background: Common sétup
    Given a passing step
    And a table step
      | name  | value |
      | Alice | 1     |
      | Böb \\| x | 22 |

  @s1
  Scenario: All passing
    Description of scenario.
    Given a passing step
    When I use number 42 and word "hello"
    Then a docstring step
      """
      Line one ü
        indented line two
      triple \\"\\"\\" inside
      """

  Scenario: Failing in the middle
    Given a passing step
    When a failing step
    Then a passing step
    And an undefined step here

  @skipme
  Scenario: Skipped by tag
    Given a passing step
    When a table step
      | a |
      | 1 |

  Scenario: Raises an error
    Given a step that raises "Böse ☃"
    Then a passing step

  Scenario: Undefined step first
    Given some undefined step
    Then a passing step

  Scenario: Skips itself
    Given a passing step
    When the scenario skips itself
    Then a passing step

  Scenario: Attaches data
    Given a step that attaches data
    And a passing step

  @outline
  Scenario Outline: Outline <name> ü
    Given a passing step
    When I use number <num> and word "<name>"
    Then a <outcome> step

    @ex1
    Examples: First
      | name | num | outcome |
      | aa   | 1   | passing |
      | bb   | 2   | failing |

    Examples: Second ä
      | name | num | outcome |
      | cc   | 3   | passing |

  Scenario:
    Given a passing step
'''

FEATURE_B = u'''Feature: Beta with rules

  Background: Feature background
    Given a passing step

  Scenario: Before any rule
    When I use number 7 and word "seven"

  @r1
  Rule: First rule

    Background: Rule one background
      Given a docstring step
        """
        rule background text
        """

    Scenario: R1 first
      Then a passing step

    @skipme
    Scenario: R1 skipped
      Then a passing step

    Scenario: R1 failing
      Then a failing step
      And a passing step

  Rule: Second rule without background

    Scenario: R2 first
      When a multiline failing step

    Scenario Outline: R2 outline <x>
      When I use number <x> and word "w<x>"

      Examples:
        | x |
        | 1 |
        | 2 |

  Rule: Third rule, failing background

    Background:
      Given a failing step

    Scenario: R3 first
      Then a passing step

    Scenario: R3 second
      Then a passing step
'''

FEATURE_C = u'''@empty
Feature: Gamma without scenarios
  Only a description.
'''

FEATURE_D = u'''@skipme
Feature: Delta skipped as a whole

  Background:
    Given a passing step

  Scenario: D1
    Then a passing step
'''

STEPS = u'''# -*- coding: utf-8 -*-
from __future__ import unicode_literals
from behave import given, when, then, step

@step('a passing step')
def step_passing(context):
    pass

@step('a failing step')
def step_failing(context):
    assert False, "XFAIL-ä failing step"

@step('a multiline failing step')
def step_multiline_failing(context):
    assert False, "first line\\nsecond line ☃\\nthird line"

@step('a table step')
def step_table(context):
    assert context.table is not None

@step('a docstring step')
def step_docstring(context):
    assert context.text

@step('I use number {number:d} and word "{word}"')
def step_typed(context, number, word):
    assert isinstance(number, int)

@step('a step that raises "{message}"')
def step_raises(context, message):
    raise RuntimeError(message)

@step('the scenario skips itself')
def step_skip(context):
    context.scenario.skip("because")

@step('a step that attaches data')
def step_attach(context):
    context.attach("text/plain", b"first attachment")
    context.attach("image/png", b"\\x00\\x01\\x02\\xff")
'''

RECORDER = u'''# -*- coding: utf-8 -*-
from behave.formatter.base import Formatter

class RecordingFormatter(Formatter):
    name = "rec"
    description = "records the event stream"

    def __init__(self, stream_opener, config):
        super(RecordingFormatter, self).__init__(stream_opener, config)
        self.stream = self.open()

    def _log(self, text):
        self.stream.write(u"%s\\n" % text)

    def uri(self, uri):
        self._log(u"uri %s" % uri)

    def feature(self, feature):
        self._log(u"feature %s|%s" % (feature.name, feature.location))

    def rule(self, rule):
        self._log(u"rule %s|%s" % (rule.name, rule.location))

    def background(self, background):
        self._log(u"background %s|%s" % (background.name, background.location))

    def scenario(self, scenario):
        self._log(u"scenario %s|%s" % (scenario.name, scenario.location))

    def step(self, step):
        self._log(u"step %s %s|%s" % (step.keyword, step.name, step.location))

    def match(self, match):
        args = [(a.name, a.original, repr(a.value)) for a in match.arguments or []]
        self._log(u"match %s|%s|%r" % (type(match).__name__,
                                       match.location and "LOC", args))

    def result(self, step):
        self._log(u"result %s|%s" % (step.name, step.status.name))

    def eof(self):
        self._log(u"eof")

    def close(self):
        self._log(u"close")
        self.close_stream()
'''

FORMATS = ["json", "json.pretty", "plain", "progress", "progress2",
           "progress3", "pretty", "rec"]

RUNS = [
    # (label, formats, extra options)
    ("all-default", FORMATS, []),
    ("all-reversed", list(reversed(FORMATS)), []),
    ("no-skipped", FORMATS, ["--no-skipped"]),
    ("show-skipped-tags", FORMATS, ["--show-skipped", "--tags=not @skipme"]),
    ("no-skipped-tags", FORMATS, ["--no-skipped", "--tags=not @skipme"]),
    ("no-multiline", FORMATS, ["--no-multiline", "--tags=not @skipme"]),
    ("timings", ["plain", "json", "progress3", "rec"], ["--show-timings"]),
    ("no-timings", ["plain", "progress2", "rec"], ["--no-timings"]),
    ("color", ["pretty", "json", "plain", "rec"], ["--color=always"]),
    ("dry-run", FORMATS, ["--dry-run"]),
    ("dry-run-tags", FORMATS, ["--dry-run", "--tags=not @skipme", "--no-skipped"]),
    ("stop", FORMATS, ["--stop"]),
    ("only-outline", FORMATS, ["--tags=@outline"]),
    ("only-rule", ["json.pretty", "plain", "progress3", "rec"], ["--tags=@r1"]),
    ("name-select", ["json", "plain", "progress", "rec"], ["--name=R1"]),
    ("json-only", ["json"], []),
    ("json-twice", ["json", "json.pretty", "json"], ["--tags=@fa"]),
    ("plain-only", ["plain"], ["--tags=@empty"]),
    ("no-features", ["json", "plain", "progress", "rec"], ["--tags=@nothing", "--no-skipped"]),
]

_NORMALIZERS = [
    (re.compile(r'File "[^"]*", line \d+'), 'File "X", line N'),
    (re.compile(r'\d+\.\d+s'), 'N.NNNs'),
    (re.compile(r'"duration": [0-9.e+-]+'), '"duration": D'),
    (re.compile(r'Took \d+m'), 'Took Nm'),
    (re.compile(r'0x[0-9a-fA-F]+'), '0xADDR'),
]


def normalize(text):
    for pattern, replacement in _NORMALIZERS:
        text = pattern.sub(replacement, text)
    return text


def emit(text=u""):
    if isinstance(text, bytes):
        text = text.decode("utf-8", "replace")
    sys.stdout.write(text + u"\n")


def write_file(path, contents):
    dirname = os.path.dirname(path)
    if not os.path.isdir(dirname):
        os.makedirs(dirname)
    with io.open(path, "w", encoding="utf-8") as f:
        f.write(contents)


def make_tree(workdir):
    write_file(os.path.join(workdir, "features", "a_alpha.feature"), FEATURE_A)
    write_file(os.path.join(workdir, "features", "b_beta.feature"), FEATURE_B)
    write_file(os.path.join(workdir, "features", "c_gamma.feature"), FEATURE_C)
    write_file(os.path.join(workdir, "features", "d_delta.feature"), FEATURE_D)
    write_file(os.path.join(workdir, "features", "steps", "steps.py"), STEPS)
    write_file(os.path.join(workdir, "recmod.py"), RECORDER)
    write_file(os.path.join(workdir, "behave.ini"),
               u"[behave.formatters]\nrec = recmod:RecordingFormatter\n")


def loc(element):
    # NOTE: json_parser stores the line as text; str(location) would raise.
    return u"%s:%r" % (element.location.filename, element.location.line)


def describe_step(step, indent):
    emit(u"%sSTEP %s|%s|%s|%s|status=%s|err=%r" % (
        indent, step.keyword, step.step_type, step.name, loc(step),
        step.status.name, step.error_message))
    if step.text is not None:
        emit(u"%s  TEXT %r" % (indent, step.text))
    if step.table is not None:
        emit(u"%s  TABLE %r %r" % (indent, step.table.headings,
                                  [list(row) for row in step.table.rows]))


def safe_status(element):
    try:
        return element.status.name
    except Exception as e:  # pylint: disable=broad-except
        return u"<%s: %s>" % (type(e).__name__, e)


def describe_parsed(features):
    for feature in features:
        emit(u"  FEATURE %s|%s|%s|tags=%r|descr=%r" % (
            feature.keyword, feature.name, loc(feature),
            [u"%s" % t for t in feature.tags], feature.description))
        if feature.background:
            b = feature.background
            emit(u"    BACKGROUND %s|%s|%s" % (b.keyword, b.name, loc(b)))
            for s in b.steps:
                describe_step(s, u"      ")
        for scenario in feature.scenarios:
            emit(u"    %s %s|%s|%s|tags=%r|descr=%r|status=%s" % (
                type(scenario).__name__, scenario.keyword, scenario.name,
                loc(scenario), [u"%s" % t for t in scenario.tags],
                scenario.description, safe_status(scenario)))
            for s in scenario.steps:
                describe_step(s, u"      ")


def run_behave(workdir, label, formats, options):
    from behave import json_parser
    outdir = os.path.join(workdir, "out_" + label)
    os.makedirs(outdir)
    args = [PYTHON, "-m", "behave", "--no-summary"]
    outfiles = []
    for index, name in enumerate(formats):
        outfile = os.path.join(outdir, "%02d_%s.out" % (index, name))
        outfiles.append((name, outfile))
        args += ["-f", name, "-o", outfile]
    args += options
    env = dict(os.environ)
    env["PYTHONPATH"] = WORKTREE + os.pathsep + workdir
    env["PYTHONIOENCODING"] = "utf-8"
    env["PYTHONHASHSEED"] = "0"
    env.pop("BEHAVE_UNICODE_ERRORS", None)
    proc = subprocess.Popen(args, cwd=workdir, env=env,
                            stdout=subprocess.PIPE, stderr=subprocess.PIPE)
    out, err = proc.communicate()
    emit(u"=" * 78)
    emit(u"RUN %s: formats=%s options=%s" % (label, ",".join(formats),
                                            " ".join(options)))
    emit(u"returncode=%s" % proc.returncode)
    emit(u"--- stdout")
    emit(normalize(out.decode("utf-8", "replace")))
    emit(u"--- stderr")
    emit(normalize(err.decode("utf-8", "replace")))
    for name, outfile in outfiles:
        emit(u"--- report %s (%s)" % (os.path.basename(outfile), name))
        if not os.path.exists(outfile):
            emit(u"<missing>")
            continue
        with io.open(outfile, "r", encoding="utf-8") as f:
            contents = f.read()
        emit(normalize(contents))
        if name.startswith("json"):
            try:
                data = json.loads(contents)
                emit(u"--- valid JSON: %d features" % len(data))
                features = json_parser.parse(outfile)
                describe_parsed(features)
            except Exception as e:  # pylint: disable=broad-except
                emit(u"--- JSON PROBLEM %s: %s" % (type(e).__name__, e))


def part1():
    workdir = tempfile.mkdtemp(prefix="c15_equiv_")
    try:
        make_tree(workdir)
        for label, formats, options in RUNS:
            run_behave(workdir, label, formats, options)
    finally:
        shutil.rmtree(workdir, ignore_errors=True)


# ---------------------------------------------------------------------------
# PART 2: direct (in-process) boundary checks
# ---------------------------------------------------------------------------
def attempt(label, func, *args, **kwargs):
    try:
        result = func(*args, **kwargs)
        emit(u"%s -> %r" % (label, result))
        return result
    except BaseException as e:  # pylint: disable=broad-except
        emit(u"%s !! %s: %r" % (label, type(e).__name__, e.args))
        return None


def step_data(name, line, **more):
    data = {"keyword": u"Given", "step_type": u"given", "name": name,
            "location": u"x.feature:%d" % line}
    data.update(more)
    return data


def part2():
    from behave.json_parser import JsonParser
    from behave import model

    emit(u"=" * 78)
    emit(u"PART 2: JsonParser driven directly")

    background = {"type": "background", "keyword": u"Background", "name": u"B",
                  "location": u"x.feature:2", "steps": [step_data(u"b1", 3)]}
    background2 = {"type": "Background", "keyword": u"Background", "name": u"B2",
                   "location": u"x.feature:20",
                   "steps": [step_data(u"b2", 21, text=[u"l1", u"l2"])]}
    scenario = {"type": "scenario", "keyword": u"Scenario", "name": u"S1",
                "tags": [u"t1"], "location": u"x.feature:5", "status": "failed",
                "description": [u"d1"],
                "steps": [
                    step_data(u"s1", 6, result={"status": "passed", "duration": 1.5}),
                    step_data(u"s2", 7, table={"headings": [u"a"], "rows": [[u"1"]]},
                              result={"status": "failed", "duration": 2,
                                      "error_message": [u"e1", u"e2"]}),
                    step_data(u"s3", 8),
                ]}
    scenario_upper = dict(scenario, type="SCENARIO", name=u"S-upper")
    outline = {"type": "scenario_outline", "keyword": u"Scenario Outline",
               "name": u"SO <x>", "tags": [], "location": u"x.feature:10",
               "steps": [step_data(u"so <x>", 11)],
               "examples": {"keyword": u"Examples", "name": u"E",
                            "location": u"x.feature:13",
                            "table": {"headings": [u"x"], "rows": [[u"1"], [u"2"]]}}}
    outline_mixed = dict(outline, type="Scenario_Outline", name=u"SO2", examples=[])

    def describe(feature):
        describe_parsed([feature])
        emit(u"    run_items=%r" % [(type(x).__name__, x.name) for x in feature.run_items])

    parser = JsonParser()
    emit(u"outline before: %r" % parser.current_scenario_outline)
    feature_data = {"keyword": u"Feature", "name": u"F", "tags": [u"ft"],
                    "location": u"x.feature:1",
                    "elements": [background, scenario, scenario_upper, outline,
                                 background2, outline_mixed, scenario]}
    features = attempt("parse_features(good)", parser.parse_features, [feature_data])
    describe(features[0])
    so = parser.current_scenario_outline
    emit(u"outline after: %s|%s|is last outline: %s" % (
        type(so).__name__, so.name,
        so is [x for x in features[0].scenarios
               if isinstance(x, model.ScenarioOutline)][-1]))
    emit(u"outline examples: %r" % (so.examples,))
    first_outline = features[0].scenarios[2]
    emit(u"first outline examples: %s|%s|%r" % (
        type(first_outline.examples).__name__, first_outline.examples.name,
        first_outline.examples.table and first_outline.examples.table.rows))
    emit(u"background is last one: %s" % features[0].background.name)
    emit(u"scenario.feature set: %r" % [s.feature is features[0]
                                        for s in features[0].scenarios])

    # -- add_feature_element(): one category at a time, incl. bad ones.
    bad_elements = [
        ("examples", {"type": "examples"}),
        ("empty type", {"type": ""}),
        ("missing type", {"keyword": u"Scenario"}),
        ("unknown", {"type": "rule"}),
        ("unknown-unicode", {"type": u"Sz\xe9n\xe1rio"}),
        ("parse_scenario", {"type": "parse_scenario"}),
        ("None type", {"type": None}),
        ("int type", {"type": 5}),
        ("list type", {"type": ["scenario"]}),
        ("scenario w/o location", {"type": "scenario"}),
        ("background w/o location", {"type": "background"}),
        ("outline w/o location", {"type": "scenario_outline"}),
        ("scenario bad location", {"type": "scenario", "location": u"a:b:c"}),
    ]
    for label, element in bad_elements:
        parser = JsonParser()
        feature = model.Feature(u"x.feature", 1, u"Feature", u"F")
        attempt("add_feature_element(%s)" % label,
                parser.add_feature_element, feature, element)
        emit(u"    scenarios=%d background=%r outline=%r" % (
            len(feature.scenarios), feature.background,
            parser.current_scenario_outline))
        # -- SAME ELEMENT inside a feature: elements before it are kept.
        parser = JsonParser()
        data = dict(feature_data, elements=[scenario, element, outline])
        attempt("parse_feature(.., %s, ..)" % label, parser.parse_feature, data)
        emit(u"    outline=%r" % parser.current_scenario_outline)

    # -- SUBCLASS: overridden parse methods are still used (late binding).
    class TracingParser(JsonParser):
        def __init__(self):
            super(TracingParser, self).__init__()
            self.trace = []

        def parse_background(self, json_element):
            self.trace.append("parse_background")
            return super(TracingParser, self).parse_background(json_element)

        def parse_scenario(self, json_element):
            self.trace.append("parse_scenario")
            return super(TracingParser, self).parse_scenario(json_element)

        def parse_scenario_outline(self, json_element):
            self.trace.append("parse_scenario_outline")
            return super(TracingParser, self).parse_scenario_outline(json_element)

        def parse_steps(self, json_steps):
            self.trace.append("parse_steps:%d" % len(json_steps))
            return super(TracingParser, self).parse_steps(json_steps)

    parser = TracingParser()
    features = parser.parse_features([feature_data, dict(feature_data, elements=[])])
    emit(u"trace: %r" % parser.trace)
    emit(u"features: %r" % [(f.name, len(f.scenarios)) for f in features])

    # -- OTHER ENTRY POINTS:
    attempt("parse_features(dict)", JsonParser().parse_features, {})
    attempt("parse_features([])", JsonParser().parse_features, [])
    attempt("parse_feature({})", JsonParser().parse_feature, {})
    minimal = attempt("parse_feature(minimal)", JsonParser().parse_feature,
                      {"location": u"m.feature:1"})
    if minimal is not None:
        describe(minimal)


if __name__ == "__main__":
    part1()
    part2()
