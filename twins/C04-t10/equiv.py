# -*- coding: UTF-8 -*-
"""
Equivalence transcript for the Gherkin parser (property C04).

Exercises behave.parser (parse_feature, parse_file, parse_rule, parse_scenario,
parse_steps, parse_step, parse_tags, Parser used directly) and the
behave.model_describe renderers on fixed and pseudo-random (seeded) documents,
in all languages and with all keyword aliases, and prints a canonical
transcript: model dumps, exception types + messages, log records, parser state.
"""
from __future__ import absolute_import, print_function, unicode_literals
import sys
sys.path.insert(0, "/tmp/wtV/C04")

import io
import logging
import os
import random
import tempfile

import six
from behave import i18n, model, parser
from behave.parser import Parser, ParserError, State
from behave.model_describe import ModelDescriptor, ModelPrinter

assert parser.__file__.startswith("/tmp/wtV/C04/"), parser.__file__

OUT = []


def emit(text=""):
    OUT.append(text)


# -----------------------------------------------------------------------------
# LOG CAPTURE
# -----------------------------------------------------------------------------
class ListHandler(logging.Handler):
    def __init__(self):
        logging.Handler.__init__(self)
        self.records = []

    def emit(self, record):
        self.records.append("%s:%s:%s" % (record.name, record.levelname,
                                          record.getMessage()))


LOG = ListHandler()
_logger = logging.getLogger("behave")
_logger.addHandler(LOG)
_logger.setLevel(logging.DEBUG)
_logger.propagate = False


def flush_log():
    for rec in LOG.records:
        emit("    LOG " + rec)
    del LOG.records[:]


# -----------------------------------------------------------------------------
# MODEL DUMP
# -----------------------------------------------------------------------------
def r(value):
    """Canonical repr w/o u-prefix differences."""
    if isinstance(value, six.text_type):
        return '"%s"' % value.replace("\\", "\\\\").replace("\n", "\\n").replace('"', '\\"')
    if isinstance(value, (list, tuple)):
        return "[" + ", ".join(r(v) for v in value) + "]"
    return repr(value)


def dump_tags(tags):
    return "[" + " ".join("@%s:%s" % (t, getattr(t, "line", "?")) for t in tags) + "]"


def dump_table(table, ind):
    emit("%sTABLE line=%s headings=%s" % (ind, table.line, r(table.headings)))
    for row in table.rows:
        emit("%s  ROW line=%s cells=%s headings_same=%s" % (
            ind, row.line, r(row.cells), row.headings == table.headings))
    for indentation in (None, "    "):
        try:
            text = ModelDescriptor.describe_table(table, indentation)
            emit("%s  DESCRIBED(%r): %s" % (ind, indentation and len(indentation), r(text)))
        except Exception as e:  # pylint: disable=broad-except
            emit("%s  DESCRIBED-ERROR %s: %s" % (ind, type(e).__name__, e))


def dump_step(step, ind):
    emit("%sSTEP line=%s keyword=%s type=%s name=%s file=%s" % (
        ind, step.line, r(step.keyword), step.step_type, r(step.name),
        r(step.filename)))
    if step.text is not None:
        emit("%s  TEXT line=%s ctype=%s class=%s value=%s" % (
            ind, step.text.line, step.text.content_type,
            type(step.text).__name__, r(six.text_type(step.text))))
        emit("%s  DOCSTRING %s" % (
            ind, r(ModelDescriptor.describe_docstring(step.text, "  "))))
    if step.table is not None:
        dump_table(step.table, ind + "  ")


def dump_statement_head(kind, stmt, ind):
    emit("%s%s line=%s keyword=%s name=%s tags=%s file=%s" % (
        ind, kind, stmt.line, r(stmt.keyword), r(stmt.name),
        dump_tags(getattr(stmt, "tags", [])), r(stmt.filename)))
    description = getattr(stmt, "description", None)
    if description:
        emit("%s  DESCRIPTION %s" % (ind, r(description)))


def dump_background(background, ind):
    if background is None:
        emit("%sBACKGROUND None" % ind)
        return
    dump_statement_head("BACKGROUND", background, ind)
    for step in background.steps:
        dump_step(step, ind + "  ")
    inherited = background.inherited_steps
    if inherited:
        emit("%s  INHERITED %s" % (ind, r(["%s:%s" % (s.line, s.name) for s in inherited])))


def dump_scenario(scenario, ind):
    if isinstance(scenario, model.ScenarioOutline):
        dump_statement_head("OUTLINE", scenario, ind)
        for step in scenario.steps:
            dump_step(step, ind + "  ")
        for examples in scenario.examples:
            dump_statement_head("EXAMPLES", examples, ind + "  ")
            if examples.table is None:
                emit("%s    TABLE None" % ind)
            else:
                dump_table(examples.table, ind + "    ")
        try:
            for sub in scenario.scenarios:
                emit("%s  GENERATED line=%s name=%s tags=%s steps=%s" % (
                    ind, sub.line, r(sub.name), dump_tags(sub.tags),
                    r(["%s|%s|%s" % (s.step_type, s.keyword, s.name) for s in sub.steps])))
        except Exception as e:  # pylint: disable=broad-except
            emit("%s  GENERATED-ERROR %s: %s" % (ind, type(e).__name__, e))
    else:
        dump_statement_head("SCENARIO", scenario, ind)
        for step in scenario.steps:
            dump_step(step, ind + "  ")
    parent = getattr(scenario, "parent", None)
    emit("%s  PARENT %s" % (ind, type(parent).__name__ + ":" + r(getattr(parent, "name", None))))


def dump_rule(rule, ind):
    dump_statement_head("RULE", rule, ind)
    dump_background(rule.background, ind + "  ")
    for scenario in rule.scenarios:
        dump_scenario(scenario, ind + "  ")
    emit("%s  RUN_ITEMS %s" % (ind, r(["%s:%s" % (type(x).__name__, x.line) for x in rule.run_items])))


def dump_feature(feature, ind="  "):
    if feature is None:
        emit("%sFEATURE None" % ind)
        return
    dump_statement_head("FEATURE", feature, ind)
    emit("%s  LANGUAGE %s" % (ind, feature.language))
    dump_background(feature.background, ind + "  ")
    for scenario in feature.scenarios:
        dump_scenario(scenario, ind + "  ")
    for rule in feature.rules:
        dump_rule(rule, ind + "  ")
    emit("%s  RUN_ITEMS %s" % (ind, r(["%s:%s" % (type(x).__name__, x.line) for x in feature.run_items])))
    parser_ = getattr(feature, "parser", None)
    if parser_ is not None:
        dump_parser_state(parser_, ind + "  ")


def dump_parser_state(p, ind="    "):
    emit("%sPARSER state=%s line=%s last_step_type=%s tags=%s lines=%s table=%s "
         "examples=%s language=%s variant=%s ml=(%s,%s,%s) stmt=%s rule=%s" % (
             ind, p.state.name, p.line, p.last_step_type, dump_tags(p.tags),
             r(p.lines), p.table is not None, p.examples is not None,
             p.language, p.variant, p.multiline_start, p.multiline_leading,
             r(p.multiline_terminator), type(p.statement).__name__,
             type(p.rule).__name__))


def dump_any(result, ind="  "):
    if isinstance(result, model.Feature):
        dump_feature(result, ind)
    elif isinstance(result, model.Rule):
        dump_rule(result, ind)
    elif isinstance(result, model.Scenario):
        dump_scenario(result, ind)
    elif isinstance(result, model.Background):
        dump_background(result, ind)
    elif isinstance(result, model.Step):
        dump_step(result, ind)
    elif isinstance(result, list):
        emit("%sLIST len=%d" % (ind, len(result)))
        for item in result:
            if isinstance(item, model.Step):
                dump_step(item, ind + "  ")
            else:
                emit("%s  ITEM %s line=%s" % (ind, r(six.text_type(item)), getattr(item, "line", "?")))
    else:
        emit("%sRESULT %r" % (ind, result))


def attempt(label, func, *args, **kwargs):
    emit("CASE %s" % label)
    try:
        result = func(*args, **kwargs)
    except ParserError as e:
        emit("  PARSER-ERROR line=%s line_text=%s filename=%s" % (
            e.line, r(e.line_text), r(e.filename)))
        emit("  MESSAGE %s" % r(six.text_type(e)))
        emit("  ARG0 %s" % r(e.args[0]))
    except Exception as e:  # pylint: disable=broad-except
        emit("  EXCEPTION %s: %s" % (type(e).__name__, r(six.text_type(e))))
    else:
        dump_any(result)
    flush_log()


# -----------------------------------------------------------------------------
# FIXED CORPUS
# -----------------------------------------------------------------------------
FEATURE_TEXTS = [
    ("empty", ""),
    ("blank-only", "\n   \n\t\n"),
    ("comment-only", "# just a comment\n  # another\n"),
    ("feature-only", "Feature: Only"),
    ("feature-desc", "Feature: F\n  In order to\n  As a\n\n  I want\n"),
    ("tags-before-feature", "@a @b\n@c # comment\nFeature: F\n"),
    ("tags-multi-line-with-comments",
     "@f1\n  @f2   @f3 #@not\nFeature: F\n  @s1\n  # c\n  @s2 @s3 # trailing @x\n  Scenario: S\n    Given a\n"),
    ("basic",
     "Feature: Basic\n  Background: B\n    Given bg1\n    And bg2\n\n  Scenario: S1\n    Given g\n    When w\n    Then t\n    And a\n    But b\n    * star\n"),
    ("star-first", "Feature: F\n  Scenario: S\n    * first star\n    Given g\n    * after given\n    When w\n    * after when\n"),
    ("and-first-with-background",
     "Feature: F\n  Background:\n    Given bg\n    When bgw\n  Scenario: S\n    And inherits when\n    But also\n"),
    ("and-first-without-background", "Feature: F\n  Scenario: S\n    And orphan\n"),
    ("but-first-without-background", "Feature: F\n  Scenario: S\n    But orphan\n"),
    ("and-first-empty-background", "Feature: F\n  Background: Empty\n  Scenario: S\n    And orphan\n"),
    ("lowercase-keywords", "Feature: F\n  Scenario: S\n    given lower\n    WHEN upper\n    tHeN mixed\n    and x\n"),
    ("step-no-space", "Feature: F\n  Scenario: S\n    Givenx nospace\n    Given\n    When   padded   \n"),
    ("scenario-desc",
     "Feature: F\n  Scenario: S\n    Some description\n    More: text\n    Given g\n  Example: E\n    desc only\n  Scenario: Last\n"),
    ("outline",
     "Feature: F\n  @o1\n  Scenario Outline: O <a>\n    Given <a> and <b>\n    When x\n      | h1 | h2 |\n      | <a> | <b> |\n    Then y\n      \"\"\"\n      text <a>\n      \"\"\"\n\n    @e1 @e2\n    Examples: First\n      | a | b |\n      | 1 | 2 |\n      | 3 | 4 |\n\n    @e3\n    Scenarios: Second\n      | a | b |\n      | 5 |   |\n    Examples: Empty\n    Examples: HeadOnly\n      | a | b |\n  Scenario Template: T\n    Given t\n    Examples:\n      | x |\n      | 1 |\n"),
    ("outline-no-examples", "Feature: F\n  Scenario Outline: O\n    Given g\n  Scenario: next\n    Given h\n"),
    ("examples-in-scenario", "Feature: F\n  Scenario: S\n    Given g\n    Examples: bad\n      | a |\n"),
    ("examples-after-background", "Feature: F\n  Background:\n    Given g\n    Examples: bad\n      | a |\n"),
    ("tables",
     "Feature: F\n  Scenario: S\n    Given table\n      | a | b |\n      | 1 | 2 |\n      |   | x \\| y |\n      | \\|\\| |  |\n      # comment in table\n\n      | \\\\| z | w |\n    When another\n      |single|\n    Then end with table\n      | h |\n      | v |"),
    ("table-malformed-row", "Feature: F\n  Scenario: S\n    Given t\n      | a | b |\n      | 1 | 2\n      | 3 | 4 |\n"),
    ("table-wrong-cells", "Feature: F\n  Scenario: S\n    Given t\n      | a | b |\n      | 1 |\n"),
    ("table-bare-pipe", "Feature: F\n  Scenario: S\n    Given t\n      |\n      |\n    Then x\n"),
    ("table-double-pipe", "Feature: F\n  Scenario: S\n    Given t\n      ||\n      ||\n      | |\n"),
    ("table-before-step", "Feature: F\n  Scenario: S\n    desc\n    Given g\n  Scenario Outline: O\n    Given s\n    Examples:\n      | a |\n    | b |\n  Scenario: T\n   Given x\n"),
    ("table-without-step", "| a |\n"),
    ("table-then-garbage", "Feature: F\n  Scenario: S\n    Given t\n      | a |\n    garbage here\n"),
    ("docstrings",
     "Feature: F\n  Scenario: S\n    Given text\n      \"\"\"\n      line 1\n        indented\n\n      # not a comment\n      @not-a-tag\n      | not | table |\n      '''\n      line last   \n      \"\"\"\n    When single quoted\n        '''\n        Scenario: not a scenario\n        \"\"\"\n        '''\n    Then empty\n      \"\"\"\n      \"\"\"\n    And same line end\n      \"\"\"text after quotes\n      body\n      \"\"\"trailing\n"),
    ("docstring-bad-indent", "Feature: F\n  Scenario: S\n    Given text\n        \"\"\"\n      bad\n        \"\"\"\n"),
    ("docstring-ws-less-indent", "Feature: F\n  Scenario: S\n    Given text\n        \"\"\"\n  \n\t\n        ok\n        \"\"\"\n"),
    ("docstring-unterminated", "Feature: F\n  Scenario: S\n    Given text\n      \"\"\"\n      never ends\n"),
    ("docstring-before-step", "Feature: F\n  Scenario: S\n    Given g\n  Scenario Outline: O\n    Given z\n    Examples:\n      | a |\n      | 1 |\n  \"\"\"\n"),
    ("docstring-crlf", "Feature: F\r\n  Scenario: S\r\n    Given text\r\n      \"\"\"\r\n      one  \r\n      two\r\n      \"\"\"\r\n    Then t\r\n"),
    ("docstring-tab-indent", "Feature: F\n\tScenario: S\n\t\tGiven text\n\t\t\t\"\"\"\n\t\t\tone\n\t\t\t\ttwo\n\t\t\t\"\"\"\n"),
    ("docstring-and-table", "Feature: F\n  Scenario: S\n    Given both\n      \"\"\"\n      txt\n      \"\"\"\n      | a |\n      | 1 |\n    Then t\n"),
    ("rules",
     "@f\nFeature: F\n  desc\n  Background: FB\n    Given fb\n\n  Scenario: Before rules\n    Given x\n\n  @r1\n  Rule: R1\n    rule desc\n    more\n    Background: RB\n      Given rb\n    @s\n    Example: E1\n      When w\n    Scenario Outline: O\n      Then <t>\n      Examples:\n        | t |\n        | 1 |\n\n  Rule: R2\n    Example: E2\n      And inherits from feature background\n\n  Rule: R3 empty\n  @r4 @r4b\n  Rule: R4\n    Background:\n    Scenario: S4\n      But inherited\n"),
    ("rule-background-after-scenario", "Feature: F\n  Rule: R\n    Scenario: S\n      Given g\n    Background: late\n      Given b\n"),
    ("rule-before-feature", "Rule: R\n"),
    ("scenario-before-feature", "Scenario: S\n  Given x\n"),
    ("outline-before-feature", "Scenario Outline: S\n  Given x\n"),
    ("background-before-feature", "Background: S\n  Given x\n"),
    ("two-features", "Feature: F1\n  Scenario: S\n    Given g\nFeature: F2\n"),
    ("two-features-direct", "Feature: F1\nFeature: F2\n"),
    ("two-backgrounds", "Feature: F\n  Background: one\n    Given a\n  Background: two\n    Given b\n"),
    ("two-backgrounds-first-empty", "Feature: F\n  Background: one\n  Background: two\n    Given b\n"),
    ("tagged-background", "Feature: F\n  @t1 @t2\n  Background: B\n    Given b\n"),
    ("background-after-scenario", "Feature: F\n  Scenario: S\n    Given g\n  Background: B\n    Given b\n"),
    ("background-after-scenario-nosteps", "Feature: F\n  Scenario: S\n  Background: B\n"),
    ("bad-tag", "Feature: F\n  @ok bad\n  Scenario: S\n"),
    ("bad-tag-initial", "@ok bad @x\nFeature: F\n"),
    ("tag-then-garbage", "Feature: F\n  @t\n  garbage\n"),
    ("tag-then-step", "Feature: F\n  Scenario: S\n    Given g\n    @t\n    Given h\n"),
    ("tag-at-eof", "Feature: F\n  Scenario: S\n    Given g\n  @dangling\n"),
    ("tags-then-examples", "Feature: F\n  Scenario Outline: S\n    Given <g>\n  @t1\n  @t2\n  Examples: E\n    | g |\n    | 1 |\n  @t3\n  Scenario: N\n"),
    ("garbage-initial", "garbage\nFeature: F\n"),
    ("garbage-in-steps", "Feature: F\n  Scenario: S\n    Given g\n    garbage\n"),
    ("language-header-de", "# language: de\nFunktionalität: F\n  Grundlage: G\n    Angenommen a\n  Szenario: S\n    Wenn w\n    Dann d\n    Und u\n    Aber a\n"),
    ("language-header-spaces", "   #    LANGUAGE:   fr  \n# other comment\nFonctionnalité: F\n  Scénario: S\n    Soit x\n    Quand y\n    Alors z\n"),
    ("language-header-after-tags", "@t\n# language: de\nFeature: stays english\n"),
    ("language-header-after-comment", "# first\n# language: de\nFunktionalität: F\n"),
    ("language-header-twice", "# language: de\n# language: en\nFeature: F\n"),
    ("language-header-unknown", "# language: xx-unknown\nFeature: F\n"),
    ("language-header-late", "Feature: F\n# language: de\n  Scenario: S\n    Given g\n"),
    ("colon-in-names", "Feature: F: with colon\n  Scenario: S: x\n    Given step: with colon:\n    When table:\n      | a |\n    Then text:\n      \"\"\"\n      t\n      \"\"\"\n"),
    ("keyword-no-colon", "Feature F\n"),
    ("scenario-keyword-no-colon", "Feature: F\n  Scenario S\n    Given g\n"),
    ("keyword-space-colon", "Feature : F\n"),
    ("alias-prefix", "Feature: F\n  Scenario Outline: O\n    Given g\n  Scenario Template: T\n  Example: E\n  Examples: wrong here\n"),
    ("unicode", "Feature: Füñ ✓\n  @täg\n  Scenario: Ünï\n    Given ä \\| ö\n      | ü | 中文 |\n      | ✓ | \\|   |\n"),
    ("step-after-examples", "Feature: F\n  Scenario Outline: O\n    Given <a>\n    Examples:\n      | a |\n      | 1 |\n    Then late step\n"),
    ("description-like-keyword", "Feature: F\n  Givenness is described\n  Scenario: S\n    Whenever in description\n    Given g\n"),
]

RULE_TEXTS = [
    ("rule-basic", "Rule: R\n  desc\n  Background: B\n    Given b\n  Example: E\n    Given e\n    And f\n"),
    ("rule-tagged", "@a @b\nRule: R\n  @c\n  Scenario: S\n    When w\n"),
    ("rule-no-rule-line-desc", "just description\n"),
    ("rule-no-rule-line-scenario", "Scenario: S\n  Given g\n"),
    ("rule-no-rule-line-background", "Background: B\n  Given g\n"),
    ("rule-empty", ""),
    ("rule-two", "Rule: R1\n  Scenario: S\n    Given g\nRule: R2\n"),
    ("rule-outline", "Rule: R\n  Scenario Outline: O\n    Given <x>\n    Examples:\n      | x |\n      | 1 |"),
]

SCENARIO_TEXTS = [
    ("scenario-basic", "Scenario: S\n  Given g\n  When w\n    | a |\n    | 1 |\n  Then t\n    \"\"\"\n    x\n    \"\"\"\n"),
    ("scenario-tagged", "@a\n@b #c\nScenario: S\n  desc\n  * star\n"),
    ("scenario-outline", "@o\nScenario Outline: O\n  Given <x>\n  @e\n  Examples: E\n    | x |\n    | 1 |\n"),
    ("scenario-no-line", "Given g\n"),
    ("scenario-no-line-desc", "description\n"),
    ("scenario-empty", ""),
    ("scenario-two", "Scenario: A\n  Given a\nScenario: B\n  Given b\n"),
    ("scenario-and-first", "Scenario: S\n  And a\n"),
    ("scenario-examples-first", "Examples: E\n  | a |\n"),
    ("scenario-rule", "Rule: R\n"),
]

STEPS_TEXTS = [
    ("steps-empty", ""),
    ("steps-basic", "Given g\nWhen w\nThen t\nAnd a\nBut b\n* s\n"),
    ("steps-indented-comments", "   Given g\n # c\n\n\t When w\n"),
    ("steps-star-first", "* s\nGiven g\n* t\n"),
    ("steps-and-first", "And a\n"),
    ("steps-table", "Given t\n  | a | b |\n  | 1 | 2 |\nWhen w\n  | c |\n"),
    ("steps-table-malformed", "Given t\n  | a | b\n  | 1 | 2 |\n"),
    ("steps-table-wrong", "Given t\n  | a | b |\n  | 1 | 2 | 3 |\n"),
    ("steps-table-first", "| a |\n"),
    ("steps-text", "Given t\n  \"\"\"\n  a\n   b\n  \"\"\"\nThen x\n  '''\n  c\n  '''"),
    ("steps-text-first", "\"\"\"\nabc\n\"\"\"\n"),
    ("steps-text-bad-indent", "Given t\n    \"\"\"\n  x\n    \"\"\"\n"),
    ("steps-garbage", "Given g\ngarbage\n"),
    ("steps-scenario", "Given g\nScenario: S\n  When w\n"),
    ("steps-tags", "Given g\n@t\nScenario: S\n"),
    ("steps-feature", "Given g\nFeature: F\n"),
    ("steps-background", "Given g\nBackground: F\n"),
    ("steps-examples", "Given g\nExamples: F\n | a |\n"),
    ("steps-trailing-colon", "Given a table:\n  | a |\n  | 1 |\nWhen text:\n  \"\"\"\n  x\n  \"\"\"\nThen plain:\n"),
]

TAGS_TEXTS = [
    "", "@a", "@a @b", "  @a\t@b   ", "@a #comment @b", "@a # c", "#only comment", "@a\n@b @c\n",
    "@a\n  @b # c\n@d", "@a b", "@a\nb", "a", "@", "@@x", "@a#b", "@a @", "# c\n@x",
    "@tag.with:chars=1(x)", "@ä @中",
]


def run_fixed():
    emit("=" * 30 + " FIXED: parse_feature")
    for name, text in FEATURE_TEXTS:
        attempt("feature/%s" % name, parser.parse_feature, text, None, "%s.feature" % name)
    attempt("feature/no-filename", parser.parse_feature, FEATURE_TEXTS[7][1])
    attempt("feature/bad-no-filename", parser.parse_feature, "garbage")
    attempt("feature/lang-arg-de", parser.parse_feature,
            "Funktionalität: F\n  Szenario: S\n    Angenommen a\n", "de", "x.feature")
    attempt("feature/lang-arg-de-header-en", parser.parse_feature,
            "# language: en\nFeature: F\n  Scenario: S\n    Given a\n", "de")
    attempt("feature/lang-arg-unknown", parser.parse_feature, "Feature: F\n", "xx")
    attempt("feature/bytes", parser.parse_feature, b"Feature: F\n")

    emit("=" * 30 + " FIXED: parse_rule")
    for name, text in RULE_TEXTS:
        attempt("rule/%s" % name, parser.parse_rule, text, None, "%s.rule" % name)
    attempt("rule/de", parser.parse_rule, "Regel: R\n  Beispiel: B\n    Angenommen a\n", "de")

    emit("=" * 30 + " FIXED: parse_scenario")
    for name, text in SCENARIO_TEXTS:
        attempt("scenario/%s" % name, parser.parse_scenario, text, None, "%s.scenario" % name)
    attempt("scenario/de", parser.parse_scenario, "Szenario: S\n  Angenommen a\n  Und b\n", "de")

    emit("=" * 30 + " FIXED: parse_steps / parse_step")
    for name, text in STEPS_TEXTS:
        attempt("steps/%s" % name, parser.parse_steps, text, None, "%s.steps" % name)
        attempt("steps-nofile/%s" % name, parser.parse_steps, text)
    attempt("steps/de", parser.parse_steps, "Angenommen a\nUnd b\n* c\n", "de")
    attempt("steps/de-english", parser.parse_steps, "Given a\n", "de")
    attempt("step/one", parser.parse_step, "Given one\n  | a |\n  | 1 |\n")
    attempt("step/two", parser.parse_step, "Given one\nWhen two\n")
    attempt("step/none", parser.parse_step, "")
    # -- Trailing-colon stripping switch.
    old = Parser.STRIP_STEPS_WITH_TRAILING_COLON
    Parser.STRIP_STEPS_WITH_TRAILING_COLON = True
    try:
        attempt("steps/strip-colon-on", parser.parse_steps, STEPS_TEXTS[-1][1])
        attempt("feature/strip-colon-on", parser.parse_feature,
                dict(FEATURE_TEXTS)["colon-in-names"])
    finally:
        Parser.STRIP_STEPS_WITH_TRAILING_COLON = old

    emit("=" * 30 + " FIXED: parse_tags")
    for text in TAGS_TEXTS:
        attempt("tags/%s" % r(text), parser.parse_tags, text)


# -----------------------------------------------------------------------------
# Parser USED DIRECTLY (state after success / failure, reuse)
# -----------------------------------------------------------------------------
def run_parser_direct():
    emit("=" * 30 + " DIRECT Parser")
    texts = [FEATURE_TEXTS[i][1] for i in range(len(FEATURE_TEXTS))]
    for index, text in enumerate(texts):
        p = Parser()
        emit("DIRECT %s" % FEATURE_TEXTS[index][0])
        try:
            feature = p.parse(text, "direct.feature")
            emit("  OK %s" % (feature is not None and feature.name))
        except Exception as e:  # pylint: disable=broad-except
            emit("  FAIL %s: %s" % (type(e).__name__, r(six.text_type(e))))
        dump_parser_state(p)
        flush_log()
    # -- REUSE one parser for many texts (reset between).
    p = Parser()
    for name in ("basic", "bad-tag", "language-header-de", "basic", "docstring-unterminated", "outline"):
        text = dict(FEATURE_TEXTS)[name]
        try:
            feature = p.parse(text, name)
            emit("REUSE %s OK" % name)
            dump_feature(feature)
        except Exception as e:  # pylint: disable=broad-except
            emit("REUSE %s FAIL %s: %s" % (name, type(e).__name__, r(six.text_type(e))))
            dump_parser_state(p)
        flush_log()
    # -- Line-wise use of single actions.
    for variant in (None, "feature", "rule", "scenario", "steps", "tags"):
        p = Parser(variant=variant)
        for line in ("@x @y", "@z # c", "Rule: R", "Scenario: S", "Scenario Outline: O",
                     "Examples: E", "Feature: F", "Background: B", "other"):
            p2 = Parser(variant=variant)
            p2.reset("f")
            p2.feature = None
            try:
                res = p2.subaction_detect_taggable_statement(line)
                emit("SUBACTION %s %s -> %r" % (variant, r(line), res))
            except Exception as e:  # pylint: disable=broad-except
                emit("SUBACTION %s %s -> %s: %s" % (variant, r(line), type(e).__name__, r(six.text_type(e))))
            dump_parser_state(p2)
        for kw in ("feature", "rule", "background", "scenario", "scenario_outline", "examples"):
            for line in ("Feature: x", "Ability:", "Business Need: z", "Example: e", "Examples: e",
                         "Scenario Outline: o", "Scenario: s", "Scenarios: s", "Rule:x", "Background:",
                         "feature: lower", " Feature: lead", ""):
                emit("MATCH %s %s %s -> %r" % (variant, kw, r(line), p.match_keyword(kw, line)))
        try:
            emit("MATCH-BAD -> %r" % p.match_keyword("nokey", "x"))
        except Exception as e:  # pylint: disable=broad-except
            emit("MATCH-BAD %s: %s" % (type(e).__name__, e))
    # -- parse_step on a fresh parser in several languages.
    for lang in (None, "en", "de", "ja", "zh-CN", "en-pirate", "fr"):
        p = Parser(lang)
        p.reset("f")
        for line in ("Given g", "given g", "GIVEN G", "* s", "And a", "When w", "* s", "But b",
                     "Then t", "Nothing", "", "Given", "Givenfoo", "Angenommen x", "Und y",
                     "前提x", "假如y", "Soit z", "Et que q", "Gangway! z", "Aye a"):
            try:
                step = p.parse_step(line)
                if step is None:
                    emit("PARSE_STEP %s %s -> None last=%s" % (lang, r(line), p.last_step_type))
                else:
                    emit("PARSE_STEP %s %s -> %s|%s|%s last=%s" % (
                        lang, r(line), r(step.keyword), step.step_type, r(step.name), p.last_step_type))
            except Exception as e:  # pylint: disable=broad-except
                emit("PARSE_STEP %s %s -> %s: %s last=%s" % (
                    lang, r(line), type(e).__name__, r(six.text_type(e)), p.last_step_type))
    # -- parse_tags method w/ line numbers.
    p = Parser(variant="tags")
    p.line = 7
    p.filename = "tags.txt"
    for text in TAGS_TEXTS:
        try:
            emit("PARSE_TAGS %s -> %s" % (r(text), dump_tags(p.parse_tags(text))))
        except Exception as e:  # pylint: disable=broad-except
            emit("PARSE_TAGS %s -> %s: %s" % (r(text), type(e).__name__, r(six.text_type(e))))


# -----------------------------------------------------------------------------
# RANDOM DOCUMENTS, ALL LANGUAGES, ALL ALIASES
# -----------------------------------------------------------------------------
class Renderer(object):
    def __init__(self, rng, language, alias_index):
        self.rng = rng
        self.kw = i18n.languages[language]
        self.alias_index = alias_index
        self.lines = []
        self.counter = 0

    def alias(self, name):
        aliases = self.kw[name]
        self.counter += 1
        return aliases[(self.alias_index + self.counter) % len(aliases)]

    def step_alias(self, name):
        aliases = self.kw[name]
        self.counter += 1
        return aliases[(self.alias_index + self.counter) % len(aliases)]

    def indent(self):
        return self.rng.choice(["", " ", "  ", "    ", "\t", "      "])

    def noise(self):
        choice = self.rng.random()
        if choice < 0.15:
            self.lines.append("")
        elif choice < 0.25:
            self.lines.append(self.indent() + "# comment %d" % self.counter)
        elif choice < 0.30:
            self.lines.append("   \t ")

    def add(self, text):
        self.noise()
        self.lines.append(self.indent() + text + self.rng.choice(["", "", " ", "  \t"]))

    def tags(self, prefix):
        count = self.rng.randint(0, 3)
        for i in range(count):
            names = ["@%s%d_%d" % (prefix, i, j) for j in range(self.rng.randint(1, 3))]
            line = self.rng.choice([" ", "  ", "\t"]).join(names)
            if self.rng.random() < 0.3:
                line += "  # trailing @comment"
            self.add(line)

    def description(self, prefix):
        for i in range(self.rng.randint(0, 2)):
            self.add("%s description line %d" % (prefix, i))

    def steps(self, placeholders=False):
        first = True
        for i in range(self.rng.randint(0, 5)):
            if first:
                kind = self.rng.choice(["given", "when", "then"])
            else:
                kind = self.rng.choice(["given", "when", "then", "and", "but"])
            first = False
            kw = self.step_alias(kind)
            name = "step %d %s" % (i, "<p>" if placeholders else "x")
            self.add(kw + name)
            what = self.rng.random()
            if what < 0.2:
                quote = self.rng.choice(['"""', "'''"])
                ind = self.indent()
                self.lines.append(ind + quote)
                for j in range(self.rng.randint(0, 3)):
                    self.lines.append(ind + self.rng.choice(["", "  ", "    "]) +
                                      self.rng.choice(["text %d" % j, "# hash", "@tag", "| a |", "", "Given x"]))
                self.lines.append(ind + quote)
            elif what < 0.4:
                cols = self.rng.randint(1, 3)
                for j in range(self.rng.randint(1, 3)):
                    cells = [self.rng.choice(["", "c%d" % j, "a \\| b", " padded ", "\\|", "ü"])
                             for _ in range(cols)]
                    if j == 0:
                        cells = ["h%d" % n for n in range(cols)]
                    self.add("|" + "|".join(" %s " % c for c in cells) + "|")

    def scenario(self, prefix):
        self.tags(prefix + "s")
        if self.rng.random() < 0.35:
            self.add("%s: %s outline <p>" % (self.alias("scenario_outline"), prefix))
            self.description(prefix)
            self.steps(placeholders=True)
            for e in range(self.rng.randint(0, 3)):
                self.tags(prefix + "e")
                self.add("%s: %s examples %d" % (self.alias("examples"), prefix, e))
                self.add("| p | q |")
                for j in range(self.rng.randint(0, 2)):
                    self.add("| v%d | %s |" % (j, self.rng.choice(["", "w", "\\|"])))
        else:
            self.add("%s: %s scenario" % (self.alias("scenario"), prefix))
            self.description(prefix)
            self.steps()

    def background(self, prefix):
        if self.rng.random() < 0.5:
            self.add("%s: %s background" % (self.alias("background"), prefix))
            self.description(prefix)
            self.steps()

    def feature(self):
        self.tags("f")
        self.add("%s: Feature title" % self.alias("feature"))
        self.description("F")
        self.background("F")
        for s in range(self.rng.randint(0, 3)):
            self.scenario("F%d" % s)
        for ru in range(self.rng.randint(0, 3)):
            self.tags("r")
            self.add("%s: Rule %d" % (self.alias("rule"), ru))
            self.description("R%d" % ru)
            self.background("R%d" % ru)
            for s in range(self.rng.randint(0, 2)):
                self.scenario("R%dS%d" % (ru, s))
        return "\n".join(self.lines) + self.rng.choice(["", "\n", "\n\n"])


def run_random():
    emit("=" * 30 + " RANDOM: all languages")
    rng = random.Random(20240404)
    tmpdir = tempfile.mkdtemp(prefix="c04equiv")
    languages = sorted(i18n.languages.keys())
    for language in languages:
        max_aliases = max(len(v) for k, v in i18n.languages[language].items()
                          if isinstance(v, list))
        for alias_index in range(max_aliases):
            text = Renderer(rng, language, alias_index).feature()
            attempt("random/%s/%d" % (language, alias_index),
                    parser.parse_feature, text, language, "rnd.feature")
        # -- parse_file w/ language header.
        text = "# language: %s\n" % language + Renderer(rng, language, 0).feature()
        path = os.path.join(tmpdir, "file.feature")
        with io.open(path, "w", encoding="utf8") as f:
            f.write(text)
        emit("CASE file/%s" % language)
        try:
            feature = parser.parse_file(path)
            # normalise (random) filename in all items
            dump_feature_nofile(feature)
        except Exception as e:  # pylint: disable=broad-except
            emit("  EXCEPTION %s: %s" % (type(e).__name__,
                                         r(six.text_type(e)).replace(tmpdir, "<tmpdir>")))
        flush_log()
        # -- every alias of every keyword, minimal documents.
        kws = i18n.languages[language]
        for fk in kws["feature"]:
            attempt("alias/%s/feature/%s" % (language, fk), parser.parse_feature,
                    "%s: T\n" % fk, language)
        fk = kws["feature"][0]
        for name in ("rule", "background", "scenario", "scenario_outline"):
            for alias in kws[name]:
                attempt("alias/%s/%s/%s" % (language, name, alias), parser.parse_feature,
                        "%s: T\n  %s: N\n" % (fk, alias), language)
        for alias in kws["examples"]:
            attempt("alias/%s/examples/%s" % (language, alias), parser.parse_feature,
                    "%s: T\n  %s: N\n  %s: E\n    | a |\n    | 1 |\n" % (
                        fk, kws["scenario_outline"][0], alias), language)
        for name in ("given", "when", "then", "and", "but"):
            for alias in kws[name]:
                attempt("alias/%s/%s/%s" % (language, name, alias), parser.parse_steps,
                        "%sfirst\n%ssecond\n" % (kws["given"][-1], alias), language)
                attempt("alias/%s/%s-first/%s" % (language, name, alias), parser.parse_steps,
                        "%sonly\n" % alias, language)
    try:
        os.remove(os.path.join(tmpdir, "file.feature"))
        os.rmdir(tmpdir)
    except OSError:
        pass


def dump_feature_nofile(feature):
    start = len(OUT)
    dump_feature(feature)
    for i in range(start, len(OUT)):
        pos = OUT[i].find(" file=")
        if pos >= 0:
            OUT[i] = OUT[i][:pos]


# -----------------------------------------------------------------------------
# RENDERERS (model_describe)
# -----------------------------------------------------------------------------
def run_describe():
    emit("=" * 30 + " DESCRIBE")
    tables = [
        model.Table(["a"], [["1"]]),
        model.Table(["a", "bb", "ccc"], [["1", "22", "333"], ["4444", "", "x|y"], ["\\", "a\nb", "ü中"]]),
        model.Table(["wide heading", ""], [["", ""], ["x", "yyyyyyyyyyyyyyyyyyy"]]),
        model.Table([], []),
        model.Table([], [[]]),
        model.Table(["only", "headings"]),
        model.Table(["a", "b"], [["1", "2", "extra"]]),
        model.Table(["a", "b"], [["1"]]),
        model.Table(["a", "b"], [["1", "2"], ["short"]]),
        model.Table(["a", "b"], [["1", "2"]]),
        model.Table(["a", "b"], [["1", "2"]]),
        model.Table(("t1", "t2"), [("v1", "v2")]),
    ]
    tables[9].rows[0].cells = [1, 2]
    tables[10].rows[0].cells = ["1", None]
    for index, table in enumerate(tables):
        for indentation in (None, "", "  ", "\t# "):
            try:
                text = ModelDescriptor.describe_table(table, indentation)
                emit("TABLE %d ind=%s -> %s" % (index, r(indentation), r(text)))
            except Exception as e:  # pylint: disable=broad-except
                emit("TABLE %d ind=%s -> %s: %s" % (index, r(indentation), type(e).__name__, e))
    try:
        tables[0].rows = tables[0].rows
        ModelDescriptor.describe_table(None)
    except Exception as e:  # pylint: disable=broad-except
        emit("TABLE None -> %s: %s" % (type(e).__name__, e))
    for text in ("", "one", "one\ntwo", 'with """ quotes', "'''", "  lead\n\ntrail  \n", "ü\n中"):
        for indentation in (None, "", "    "):
            emit("DOC %s ind=%s -> %s" % (r(text), r(indentation),
                                         r(ModelDescriptor.describe_docstring(text, indentation))))
    stream = io.StringIO()
    printer = ModelPrinter(stream)
    printer.print_table(tables[1], "  ")
    printer.print_table(tables[2])
    printer.print_docstring("a\nb", "  ")
    emit("PRINTER %s" % r(stream.getvalue()))


def main():
    run_fixed()
    run_parser_direct()
    run_random()
    run_describe()
    text = "\n".join(OUT) + "\n"
    if six.PY2:
        text = text.encode("utf-8")
        sys.stdout.write(text)
    else:
        sys.stdout.buffer.write(text.encode("utf-8"))


if __name__ == "__main__":
    main()
