# -*- coding: utf-8 -*-
"""
Equivalence transcript for property C15 (formatter event protocol, JSON /
plain / progress reports mirror the model).

PART 1 runs `python -m behave` (PYTHONPATH=/tmp/wtX/C15) over a generated
feature tree with many formatter / option combinations, a recording formatter
registered next to the built-in ones, and prints every report (normalised
for durations and traceback line numbers) plus the JSON report read back
with behave.json_parser.
PART 2 drives the refactored code directly (in-process) on boundary inputs.
"""
from __future__ import print_function
import sys
sys.path.insert(0, "/tmp/wtX/C15")

import io
import json
import os
import re
import shutil
import subprocess
import tempfile

WORKTREE = "/tmp/wtX/C15"
PYTHON = "/venv/bin/python"

# ---------------------------------------------------------------------------
# TEST DATA
# ---------------------------------------------------------------------------
FEATURE_A = u'''@fa @both
Feature: Alpha bäsics ☃
  Some description line 1
  Some description line 2

  Background: Common sétup
    Given a passing step
    And a table step
      | name  | value |
      | Alice | 1     |
      | Böb \\| x | 22 |

  @s1
  Scenario: All passing
    Description of scenario.
    Given a passing step
    When I use number 42 and word "hello"
    Then a docstring step
      """
      Line one ü
        indented line two
      triple \\"\\"\\" inside
      """

  Scenario: Failing in the middle
    Given a passing step
    When a failing step
    Then a passing step
    And an undefined step here

  @skipme
  Scenario: Skipped by tag
    Given a passing step
    When a table step
      | a |
      | 1 |

  Scenario: Raises an error
    Given a step that raises "Böse ☃"
    Then a passing step

  Scenario: Undefined step first
    Given some undefined step
    Then a passing step

  Scenario: Skips itself
    Given a passing step
    When the scenario skips itself
    Then a passing step

  Scenario: Attaches data
    Given a step that attaches data
    And a passing step

  @outline
  Scenario Outline: Outline <name> ü
    Given a passing step
    When I use number <num> and word "<name>"
    Then a <outcome> step

    @ex1
    Examples: First
      | name | num | outcome |
      | aa   | 1   | passing |
      | bb   | 2   | failing |

    Examples: Second ä
      | name | num | outcome |
      | cc   | 3   | passing |

  Scenario:
    Given a passing step
'''

FEATURE_B = u'''Feature: Beta with rules

  Background: Feature background
    Given a passing step

  Scenario: Before any rule
    When I use number 7 and word "seven"

  @r1
  Rule: First rule

    Background: Rule one background
      Given a docstring step
        """
        rule background text
        """

    Scenario: R1 first
      Then a passing step

    @skipme
    Scenario: R1 skipped
      Then a passing step

    Scenario: R1 failing
      Then a failing step
      And a passing step

  Rule: Second rule without background

    Scenario: R2 first
      When a multiline failing step

    Scenario Outline: R2 outline <x>
      When I use number <x> and word "w<x>"

      Examples:
        | x |
        | 1 |
        | 2 |

  Rule: Third rule, failing background

    Background:
      Given a failing step

    Scenario: R3 first
      Then a passing step

    Scenario: R3 second
      Then a passing step
'''

FEATURE_C = u'''@empty
Feature: Gamma without scenarios
  Only a description.
'''

FEATURE_D = u'''@skipme
Feature: Delta skipped as a whole

  Background:
    Given a passing step

  Scenario: D1
    Then a passing step
'''

STEPS = u'''# -*- coding: utf-8 -*-
from __future__ import unicode_literals
from behave import given, when, then, step

@step('a passing step')
def step_passing(context):
    pass

@step('a failing step')
def step_failing(context):
    assert False, "XFAIL-ä failing step"

@step('a multiline failing step')
def step_multiline_failing(context):
    assert False, "first line\\nsecond line ☃\\nthird line"

@step('a table step')
def step_table(context):
    assert context.table is not None

@step('a docstring step')
def step_docstring(context):
    assert context.text

@step('I use number {number:d} and word "{word}"')
def step_typed(context, number, word):
    assert isinstance(number, int)

@step('a step that raises "{message}"')
def step_raises(context, message):
    raise RuntimeError(message)

@step('the scenario skips itself')
def step_skip(context):
    context.scenario.skip("because")

@step('a step that attaches data')
def step_attach(context):
    context.attach("text/plain", b"first attachment")
    context.attach("image/png", b"\\x00\\x01\\x02\\xff")
'''

RECORDER = u'''# -*- coding: utf-8 -*-
from behave.formatter.base import Formatter

class RecordingFormatter(Formatter):
    name = "rec"
    description = "records the event stream"

    def __init__(self, stream_opener, config):
        super(RecordingFormatter, self).__init__(stream_opener, config)
        self.stream = self.open()

    def _log(self, text):
        self.stream.write(u"%s\\n" % text)

    def uri(self, uri):
        self._log(u"uri %s" % uri)

    def feature(self, feature):
        self._log(u"feature %s|%s" % (feature.name, feature.location))

    def rule(self, rule):
        self._log(u"rule %s|%s" % (rule.name, rule.location))

    def background(self, background):
        self._log(u"background %s|%s" % (background.name, background.location))

    def scenario(self, scenario):
        self._log(u"scenario %s|%s" % (scenario.name, scenario.location))

    def step(self, step):
        self._log(u"step %s %s|%s" % (step.keyword, step.name, step.location))

    def match(self, match):
        args = [(a.name, a.original, repr(a.value)) for a in match.arguments or []]
        self._log(u"match %s|%s|%r" % (type(match).__name__,
                                       match.location and "LOC", args))

    def result(self, step):
        self._log(u"result %s|%s" % (step.name, step.status.name))

    def eof(self):
        self._log(u"eof")

    def close(self):
        self._log(u"close")
        self.close_stream()
'''

FORMATS = ["json", "json.pretty", "plain", "progress", "progress2",
           "progress3", "pretty", "rec"]

RUNS = [
    # (label, formats, extra options)
    ("all-default", FORMATS, []),
    ("all-reversed", list(reversed(FORMATS)), []),
    ("no-skipped", FORMATS, ["--no-skipped"]),
    ("show-skipped-tags", FORMATS, ["--show-skipped", "--tags=not @skipme"]),
    ("no-skipped-tags", FORMATS, ["--no-skipped", "--tags=not @skipme"]),
    ("no-multiline", FORMATS, ["--no-multiline", "--tags=not @skipme"]),
    ("timings", ["plain", "json", "progress3", "rec"], ["--show-timings"]),
    ("no-timings", ["plain", "progress2", "rec"], ["--no-timings"]),
    ("color", ["pretty", "json", "plain", "rec"], ["--color=always"]),
    ("dry-run", FORMATS, ["--dry-run"]),
    ("dry-run-tags", FORMATS, ["--dry-run", "--tags=not @skipme", "--no-skipped"]),
    ("stop", FORMATS, ["--stop"]),
    ("only-outline", FORMATS, ["--tags=@outline"]),
    ("only-rule", ["json.pretty", "plain", "progress3", "rec"], ["--tags=@r1"]),
    ("name-select", ["json", "plain", "progress", "rec"], ["--name=R1"]),
    ("json-only", ["json"], []),
    ("json-twice", ["json", "json.pretty", "json"], ["--tags=@fa"]),
    ("plain-only", ["plain"], ["--tags=@empty"]),
    ("no-features", ["json", "plain", "progress", "rec"], ["--tags=@nothing", "--no-skipped"]),
]

_NORMALIZERS = [
    (re.compile(r'File "[^"]*", line \d+'), 'File "X", line N'),
    (re.compile(r'\d+\.\d+s'), 'N.NNNs'),
    (re.compile(r'"duration": [0-9.e+-]+'), '"duration": D'),
    (re.compile(r'Took \d+m'), 'Took Nm'),
    (re.compile(r'0x[0-9a-fA-F]+'), '0xADDR'),
]


def normalize(text):
    for pattern, replacement in _NORMALIZERS:
        text = pattern.sub(replacement, text)
    return text


def emit(text=u""):
    if isinstance(text, bytes):
        text = text.decode("utf-8", "replace")
    sys.stdout.write(text + u"\n")


def write_file(path, contents):
    dirname = os.path.dirname(path)
    if not os.path.isdir(dirname):
        os.makedirs(dirname)
    with io.open(path, "w", encoding="utf-8") as f:
        f.write(contents)


def make_tree(workdir):
    write_file(os.path.join(workdir, "features", "a_alpha.feature"), FEATURE_A)
    write_file(os.path.join(workdir, "features", "b_beta.feature"), FEATURE_B)
    write_file(os.path.join(workdir, "features", "c_gamma.feature"), FEATURE_C)
    write_file(os.path.join(workdir, "features", "d_delta.feature"), FEATURE_D)
    write_file(os.path.join(workdir, "features", "steps", "steps.py"), STEPS)
    write_file(os.path.join(workdir, "recmod.py"), RECORDER)
    write_file(os.path.join(workdir, "behave.ini"),
               u"[behave.formatters]\nrec = recmod:RecordingFormatter\n")


def loc(element):
    # NOTE: json_parser stores the line as text; str(location) would raise.
    return u"%s:%r" % (element.location.filename, element.location.line)


def describe_step(step, indent):
    emit(u"%sSTEP %s|%s|%s|%s|status=%s|err=%r" % (
        indent, step.keyword, step.step_type, step.name, loc(step),
        step.status.name, step.error_message))
    if step.text is not None:
        emit(u"%s  TEXT %r" % (indent, step.text))
    if step.table is not None:
        emit(u"%s  TABLE %r %r" % (indent, step.table.headings,
                                  [list(row) for row in step.table.rows]))


def describe_parsed(features):
    for feature in features:
        emit(u"  FEATURE %s|%s|%s|tags=%r|descr=%r" % (
            feature.keyword, feature.name, loc(feature),
            [u"%s" % t for t in feature.tags], feature.description))
        if feature.background:
            b = feature.background
            emit(u"    BACKGROUND %s|%s|%s" % (b.keyword, b.name, loc(b)))
            for s in b.steps:
                describe_step(s, u"      ")
        for scenario in feature.scenarios:
            emit(u"    %s %s|%s|%s|tags=%r|descr=%r|status=%s" % (
                type(scenario).__name__, scenario.keyword, scenario.name,
                loc(scenario), [u"%s" % t for t in scenario.tags],
                scenario.description, scenario.status.name))
            for s in scenario.steps:
                describe_step(s, u"      ")


def run_behave(workdir, label, formats, options):
    from behave import json_parser
    outdir = os.path.join(workdir, "out_" + label)
    os.makedirs(outdir)
    args = [PYTHON, "-m", "behave", "--no-summary"]
    outfiles = []
    for index, name in enumerate(formats):
        outfile = os.path.join(outdir, "%02d_%s.out" % (index, name))
        outfiles.append((name, outfile))
        args += ["-f", name, "-o", outfile]
    args += options
    env = dict(os.environ)
    env["PYTHONPATH"] = WORKTREE + os.pathsep + workdir
    env["PYTHONIOENCODING"] = "utf-8"
    env["PYTHONHASHSEED"] = "0"
    env.pop("BEHAVE_UNICODE_ERRORS", None)
    proc = subprocess.Popen(args, cwd=workdir, env=env,
                            stdout=subprocess.PIPE, stderr=subprocess.PIPE)
    out, err = proc.communicate()
    emit(u"=" * 78)
    emit(u"RUN %s: formats=%s options=%s" % (label, ",".join(formats),
                                            " ".join(options)))
    emit(u"returncode=%s" % proc.returncode)
    emit(u"--- stdout")
    emit(normalize(out.decode("utf-8", "replace")))
    emit(u"--- stderr")
    emit(normalize(err.decode("utf-8", "replace")))
    for name, outfile in outfiles:
        emit(u"--- report %s (%s)" % (os.path.basename(outfile), name))
        if not os.path.exists(outfile):
            emit(u"<missing>")
            continue
        with io.open(outfile, "r", encoding="utf-8") as f:
            contents = f.read()
        emit(normalize(contents))
        if name.startswith("json"):
            try:
                data = json.loads(contents)
                emit(u"--- valid JSON: %d features" % len(data))
                features = json_parser.parse(outfile)
                describe_parsed(features)
            except Exception as e:  # pylint: disable=broad-except
                emit(u"--- JSON PROBLEM %s: %s" % (type(e).__name__, e))


def part1():
    workdir = tempfile.mkdtemp(prefix="c15_equiv_")
    try:
        make_tree(workdir)
        for label, formats, options in RUNS:
            run_behave(workdir, label, formats, options)
    finally:
        shutil.rmtree(workdir, ignore_errors=True)


# ---------------------------------------------------------------------------
# PART 2: direct (in-process) boundary checks
# ---------------------------------------------------------------------------
class FakeStream(io.StringIO):
    encoding = None
    flush_count = 0

    def flush(self):
        self.flush_count += 1


def attempt(label, func, *args, **kwargs):
    try:
        result = func(*args, **kwargs)
        emit(u"%s -> %r" % (label, result))
        return result
    except BaseException as e:  # pylint: disable=broad-except
        emit(u"%s !! %s: %r" % (label, type(e).__name__, e.args))
        return None


class CountingCell(object):
    """Cell-like object: shows how it is used (only via .replace())."""
    def __init__(self, text, log):
        self.text = text
        self.log = log

    def replace(self, old, new):
        self.log.append((self.text, old, new))
        return self.text.replace(old, new)


class FakeTable(object):
    def __init__(self, headings, rows):
        self.headings = headings
        self.rows = rows


class OneShotRowsTable(object):
    """Every access to .rows/.headings provides fresh single-use iterators."""
    def __init__(self, headings, rows, headings_too=False):
        self._headings = headings
        self._rows = rows
        self.headings_too = headings_too

    @property
    def headings(self):
        if self.headings_too:
            return iter(self._headings)
        return self._headings

    @property
    def rows(self):
        return [iter(row) for row in self._rows]


def part2():
    from behave.model import Table, Row
    from behave.model_describe import ModelDescriptor, ModelPrinter, \
        escape_cell, escape_triple_quotes
    from behave.parser import parse_feature
    from behave.reporter.junit import JUnitReporter  # noqa: F401 (user of describe_table)

    emit(u"=" * 78)
    emit(u"PART 2: ModelDescriptor.describe_table driven directly")

    tables = [
        ("simple", Table([u"a", u"b"], rows=[[u"1", u"2"], [u"333", u"4"]])),
        ("headings only", Table([u"name", u"value"])),
        ("one column", Table([u"x"], rows=[[u"long cell"], [u""], [u"y"]])),
        ("empty strings", Table([u"", u""], rows=[[u"", u""]])),
        ("no columns", Table([], rows=[])),
        ("no columns, empty rows", Table([], rows=[[], []])),
        ("unicode", Table([u"n\xe4me", u"\u2603"], rows=[[u"\xfc\xfc\xfc\xfc\xfc\xfc\xfc", u"x"],
                                                   [u"\u65e5\u672c", u"\U0001f600"]])),
        ("escapes", Table([u"a|b", u"c\\d"], rows=[[u"x\ny", u"\\|"],
                                               [u"||||", u"\\\\\n\n"]])),
        ("widest in last row", Table([u"a", u"b", u"c"],
                                     rows=[[u"1", u"22", u"333"],
                                           [u"4444", u"5", u"66666666"]])),
        ("spaces", Table([u" a ", u"b"], rows=[[u"  ", u" x"]])),
        ("row longer than headings", Table([u"a"], rows=[[u"1", u"extra"]])),
        ("row shorter than headings", Table([u"a", u"b"], rows=[[u"1"]])),
        ("mixed ragged", Table([u"a", u"b"], rows=[[u"1", u"2", u"3"], [u"1"]])),
        ("int cells", FakeTable([u"a"], [[1]])),
        ("None cell", FakeTable([u"a", u"b"], [[u"x", None]])),
        ("bytes cell", FakeTable([u"a"], [[b"x"]])),
        ("int heading", FakeTable([1], [[u"x"]])),
        ("fake table w/ tuples", FakeTable((u"a", u"b"), [(u"1", u"2")])),
        ("fake table w/ list rows", FakeTable([u"a", u"bb"], [[u"1", u"2"], (u"33", u"4")])),
        ("one-shot iterator rows", OneShotRowsTable([u"a", u"b"],
                                                    [[u"1", u"2"], [u"333", u"4"]])),
        ("one-shot iterator headings+rows",
         OneShotRowsTable([u"a", u"b"], [[u"1", u"2"]], headings_too=True)),
        ("rows is tuple", FakeTable([u"a"], ((u"1",),))),
        ("no headings attr", object()),
    ]
    indentations = [None, u"", u"  ", u"      ", u"\t", u"# "]
    for label, table in tables:
        for indentation in indentations:
            text = attempt(u"describe_table(%s, %r)" % (label, indentation),
                           ModelDescriptor.describe_table, table, indentation)
            if text is not None:
                emit(u"    type=%s lines=%d" % (type(text).__name__,
                                                len(text.splitlines())))
                emit(text)
        attempt(u"describe_table(%s) default" % label,
                ModelDescriptor.describe_table, table)
        attempt(u"instance.describe_table(%s)" % label,
                ModelDescriptor().describe_table, table, u" ")

    # -- HOW cells are used: number and order of .replace() calls per cell.
    log = []
    table = FakeTable([CountingCell(u"h|1", log), CountingCell(u"h2", log)],
                      [[CountingCell(u"a", log), CountingCell(u"b\\", log)]])
    text = attempt("describe_table(counting cells)",
                   ModelDescriptor.describe_table, table, u"  ")
    emit(u"replace calls (%d): %r" % (len(log), log))
    emit(u"distinct cells escaped: %r" % sorted(set(entry[0] for entry in log)))
    emit(u"first escape per cell in order: %r" % [
        entry[0] for i, entry in enumerate(log)
        if entry[0] not in [e[0] for e in log[:i]]])

    # -- TABLE IS NOT MODIFIED:
    table = Table([u"a|", u"b"], rows=[[u"1\n", u"2"]])
    ModelDescriptor.describe_table(table, u"  ")
    emit(u"table after: %r %r" % (table.headings, [list(r) for r in table.rows]))

    # -- PARSED TABLE (Row objects) and printer:
    feature = parse_feature(u"""
Feature: F
  Scenario: S
    Given a table
      | name | n\xe4chster | x \\| y |
      | a    | bb       | ccc    |
      | dddd |          | \\\\     |
""".lstrip())
    step = feature.scenarios[0].steps[0]
    emit(u"row type: %s" % type(step.table.rows[0]).__name__)
    for indentation in indentations:
        stream = FakeStream()
        printer = ModelPrinter(stream)
        attempt(u"print_table(parsed, %r)" % indentation,
                printer.print_table, step.table, indentation)
        emit(stream.getvalue())
        emit(u"    flushes=%d" % stream.flush_count)
        stream = FakeStream()
        attempt(u"print_docstring(%r)" % indentation,
                ModelPrinter(stream).print_docstring,
                u'text \xe4\n  more """ quotes\n', indentation)
        emit(stream.getvalue())

    emit(u"escape_cell: %r" % [escape_cell(x) for x in
                               (u"", u"|", u"\\", u"\n", u"a|b\\c\nd")])
    emit(u"escape_triple_quotes: %r" % escape_triple_quotes(u'a """ b "" c'))


if __name__ == "__main__":
    part1()
    part2()
