# -*- coding: UTF-8 -*-
"""Equivalence transcript for property C07 (tag-expressions v2).

Exercises make_tag_expression()/check()/to_string()/str(), the operand
factory, Matcher and Configuration.setup_tag_expression() and prints a
canonical transcript.
"""
from __future__ import print_function
import sys
sys.path.insert(0, "/tmp/wtV/C07")

import itertools
import random
from behave.tag_expression import make_tag_expression, TagExpressionProtocol
from behave.tag_expression.builder import _parse_tag_expression_v2
from behave.tag_expression.parser import TagExpressionParser
from behave.tag_expression.model import (
    Matcher, Literal, And, Or, Not, True_, Never, Expression)
from behave.configuration import Configuration

UNIVERSE = ["a", "b", "a.b", "x-y", "k=v", "A", "foo.bar", "foo"]
ALL_SUBSETS = [list(c) for n in range(len(UNIVERSE) + 1)
               for c in itertools.combinations(UNIVERSE, n)]


def outcome(func, *args, **kwargs):
    try:
        return ("OK", func(*args, **kwargs))
    except Exception as e:  # pylint: disable=broad-except
        return ("EXC", "%s: %r" % (e.__class__.__name__, e.args))


def truth_table(expression):
    bits = []
    for subset in ALL_SUBSETS:
        value = expression.check(subset)
        assert value is True or value is False, repr(value)
        bits.append("1" if value else "0")
    text = "".join(bits)
    # -- COMPACT: hex digest of the table
    return "%x" % int(text, 2)


def describe(expression):
    return "%s %r | str=%r | pretty=%r | raw=%r | tt=%s" % (
        type(expression).__name__, expression, str(expression),
        expression.to_string(), expression.to_string(pretty=False),
        truth_table(expression))


def show_parse(label, func, value):
    kind, result = outcome(func, value)
    if kind == "EXC":
        print("%s %r -> %s" % (label, value, result))
        return None
    print("%s %r -> %s" % (label, value, describe(result)))
    # -- ROUND-TRIP: printed text parses to the same meaning
    for text in (str(result), result.to_string()):
        kind2, again = outcome(func, text)
        if kind2 == "EXC":
            print("    reparse %r -> %s" % (text, again))
        else:
            print("    reparse %r -> %r same=%s" % (
                text, again, truth_table(again) == truth_table(result)))
    return result


# -----------------------------------------------------------------------------
# SECTION 1: fixed expression texts, all protocols
# -----------------------------------------------------------------------------
TEXTS = [
    "", " ", "  ", "a", "@a", "@@a", "a@b", "not a", "not @a", "not not a",
    "a and b", "@a and @b", "a or b", "@a or not @b", "a and b or foo",
    "a or b and foo", "(a or b) and foo", "not (a or b)", "not (a and b)",
    "not(a)", "((a))", "( a )", "a   and    b", "a  and  b", "a\tand\nb",
    "a.b", "x-y", "k=v", "@k=v and not @x-y", "A", "a and A",
    "a*", "@a*", "a.*", "*.bar", "foo.*", "f?o", "fo[o]", "[ab]", "[!a]",
    "*", "?", "not *", "not a*", "a* and not *.b", "foo.* or x-*", "k=*",
    "@foo.* and not (@*.bar or @x-y)", "a?b", "[", "]", "a[", "[]", "[]]",
    "a and", "and", "or", "not", "a b", "a not b", "(a", "a)", "()", "( )",
    "a and (b", "a or or b", "a and and b", "not and a", "(a and) b",
    "a\\ b", "a\\(b\\)", "a\\\\b", "a\\", "\\a", "a\\*",
    "~a", "-a", "~@a", "a,b", "@a,@b", "a b", "@a @b", "~a and b",
    "-a or b", "a, b", "a,b and c", "not a,b", "a@", "@", "@ and @",
    "a  and  (b  or  foo)", "a    b", u"ä and b", u"@ä*",
    "a and b and foo", "a or b or foo", "a and (b and foo)",
    "not (not (not a))", "not a and not b", "not a or not b",
    "(a or b) and (foo or foo.bar) and not A",
    "{config.tags}", "not {config.tags}", "true", "never", "True", "AND",
    "a AND b", "Not a", "a and not",
]
SEQUENCES = [
    [], [""], ["a"], ["@a"], ["a", "b"], ["@a", "@b"], ["a or b", "foo"],
    ["not a", "b or foo.*"], ["a", ""], ["", ""], ("a", "b"), (), ("a* or b",),
    ["a", "not (b"], ["a)", "(b"], ["~a"], ["~a", "b"], ["a,b", "foo"],
    ["-a", "a and b"], ["@a,@b", "not @foo"], ["a", 1], [1, 2], [None],
    [("a",)], [["a", "b"]], ["a  b"], ["a   and   b", "  foo  "],
    ["{0}", "{x}"], ["a@b", "@"], [u"ä", "b"],
]
NON_TEXTS = [None, 1, 1.5, b"a", b"a and b", {"a"}, {"a": 1}, object, True,
             iter(["a"]), frozenset(["a"]), bytearray(b"a")]

print("== SECTION 1: make_tag_expression(text, protocol)")
PROTOCOLS = [TagExpressionProtocol.V2, TagExpressionProtocol.AUTO_DETECT,
             TagExpressionProtocol.V1, TagExpressionProtocol.STRICT]
for protocol in PROTOCOLS[:2]:
    print("-- protocol=%s" % protocol.name)
    for text in TEXTS:
        show_parse("T", lambda t, p=protocol: make_tag_expression(t, p), text)
    for seq in SEQUENCES:
        before = repr(seq)
        show_parse("S", lambda t, p=protocol: make_tag_expression(t, p), seq)
        if repr(seq) != before:
            print("    MUTATED: %s -> %r" % (before, seq))
    for value in NON_TEXTS:
        kind, result = outcome(make_tag_expression, value, protocol)
        shown = result if kind == "EXC" else repr(result)
        if "object at 0x" in shown or "iterator" in shown:
            shown = shown.split(" at 0x")[0]
        print("N %s -> %s %s" % (type(value).__name__, kind, shown))

print("-- direct: _parse_tag_expression_v2")
for value in TEXTS[:30] + SEQUENCES:
    show_parse("D", _parse_tag_expression_v2, value)
for value in NON_TEXTS:
    kind, result = outcome(_parse_tag_expression_v2, value)
    shown = result if kind == "EXC" else repr(result)
    shown = shown.split(" at 0x")[0]
    print("DN %s -> %s %s" % (type(value).__name__, kind, shown))


class Text(str):
    """str subclass"""

class Seq(list):
    """list subclass"""

print("-- subclasses")
for value in [Text("@a and b"), Text("a*"), Seq(["@a", "b or foo"]), Seq()]:
    show_parse("SUB", _parse_tag_expression_v2, value)
    show_parse("SUB", make_tag_expression, value)


# -----------------------------------------------------------------------------
# SECTION 2: current()/use() singleton
# -----------------------------------------------------------------------------
print("== SECTION 2: protocol singleton")
for name in ["v1", "V2", "auto_detect", "strict", "STRICT", "default", "bad", ""]:
    kind, result = outcome(TagExpressionProtocol.use, name)
    print("use(%r) -> %s %s; current=%s" % (
        name, kind, result, TagExpressionProtocol.current().name))
    for text in ["a and b", "@a,@b", "a*", ["a", "b"], "~a"]:
        kind, result = outcome(make_tag_expression, text)
        print("    %r -> %s %r" % (text, kind, result if kind == "EXC"
                                    else (type(result).__name__, str(result))))
for member in [TagExpressionProtocol.V2, None, 1]:
    kind, result = outcome(TagExpressionProtocol.use, member)
    print("use(%s) -> %s %s; current=%s" % (
        getattr(member, "name", member), kind, result,
        TagExpressionProtocol.current().name))
TagExpressionProtocol.use(TagExpressionProtocol.DEFAULT)


# -----------------------------------------------------------------------------
# SECTION 3: operand factory, Matcher, model patches
# -----------------------------------------------------------------------------
print("== SECTION 3: operands and model")
OPERAND_TEXTS = ["a", "a*", "a?", "[a]", "[", "]", "a]", "[a", "", "*", "?",
                 "a.b", "x-y", "k=v", "a b", "a\\*", "{a}", "!a", "a[!b]c",
                 u"ä*", u"ä", "A*", "**", "[]", "[[]", "[*]"]
for text in OPERAND_TEXTS:
    kind, operand = outcome(TagExpressionParser.make_operand, text)
    if kind == "EXC":
        print("operand %r -> %s" % (text, operand))
        continue
    print("operand %r -> %s name=%r wild=%r" % (
        text, describe(operand), operand.name, Matcher.contains_wildcards(text)))
for value in [None, 1, b"a", b"a*", ["a*"], ("a",)]:
    kind, operand = outcome(TagExpressionParser.make_operand, value)
    print("operand %r -> %s %r" % (value, kind, operand))
    kind, result = outcome(Matcher.contains_wildcards, value)
    print("wild %r -> %s %r" % (value, kind, result))


class SubParser(TagExpressionParser):
    """Subclass that inherits make_operand."""

for text in ["a* and not b", "foo.* or [ab]", "a"]:
    print("SubParser %r -> %r" % (text, SubParser.parse(text)))


class LoggingValues(object):
    """Iterable that logs how far it has been consumed."""
    def __init__(self, values):
        self.values = values
        self.log = []
    def __iter__(self):
        for value in self.values:
            self.log.append(value)
            yield value

PATTERNS = ["a*", "*", "?", "foo.*", "*.bar", "[ab]", "[!a]*", "A*", "a",
            "", "x-?", "k=*", "*=v", "a.b", "[", "a[", "**", "*a*", "?*", u"ä*"]
VALUE_LISTS = [[], ["a"], ["A"], ["b", "a"], ["foo.bar", "foo"], ["x-y", "k=v"],
               ["", "a"], [""], ["ab", "ba", "aa"], [u"äb"], ["[", "a["],
               ["a", "a", "a"], ("a", "b"), {"a"}, "abc", "", ["b", 1], [1, "a"],
               ["a", 1], [None], None, 1, [b"a"], ["a", None, "b"]]
for pattern in PATTERNS:
    matcher = Matcher(pattern)
    print("Matcher %r: str=%r repr=%r name=%r pretty=%r" % (
        pattern, str(matcher), repr(matcher), matcher.name, matcher.to_string()))
    for values in VALUE_LISTS:
        shown = sorted(values) if isinstance(values, set) else values
        print("    evaluate(%r) -> %r | check -> %r | call -> %r" % (
            shown, outcome(matcher.evaluate, values),
            outcome(matcher.check, values), outcome(matcher, values)))
    logged = LoggingValues(["b", "foo.bar", "a", "ab", "k=v", "x-y", "A", "[", ""])
    print("    lazy: %r consumed=%r" % (matcher.evaluate(logged), logged.log))
    generator = iter(["b", "a", "ab", "foo.x", "c"])
    print("    iter: %r rest=%r" % (matcher.evaluate(generator), list(generator)))
matcher = Matcher("a*")
matcher.pattern = "b*"
print("repattern: %r %r %r %r" % (matcher, str(matcher), matcher.name,
                                  [matcher.evaluate(["a1"]), matcher.evaluate(["b1"])]))
for bad in [None, 1, b"a*", ["a*"]]:
    matcher = Matcher(bad)
    print("Matcher(%r): %r" % (bad, [outcome(matcher.evaluate, v)
                                     for v in ([], ["a"], [b"a"], [1])]))
    print("    str -> %r repr -> %r" % (outcome(str, matcher), outcome(repr, matcher)))

print("-- model trees")
TREES = [
    Literal("a"), Matcher("a*"), True_(), Never(), Not(Literal("a")),
    Not(Matcher("a*")), Not(True_()), Not(Never()), Not(Not(Literal("a"))),
    Not(And(Literal("a"), Literal("b"))), Not(Or(Literal("a"), Matcher("f*"))),
    Not(And()), Not(Or()), Not(And(Literal("a"))), And(), Or(),
    And(Literal("a")), Or(Literal("a")),
    And(Literal("a"), Literal("b"), Matcher("foo.*")),
    Or(Not(Literal("a")), And(Literal("b"), Not(Or(Matcher("*.bar"), Literal("x-y"))))),
    And(Or(Literal("a"), Literal("b")), Not(And(Literal("foo"), Not(Literal("A"))))),
    Literal("a b"), Literal("a(b)"), Literal("a\\b"), Not(Literal("a b")),
    Not(Not(Not(And(Literal("a"), Or(Literal("b"), Literal("k=v")))))),
    Literal("( a )"), Not(Literal("( a")), And(Literal("a )"), Literal("( b")),
]


class MyAnd(And):
    """Subclass of And"""

class Other(Expression):
    def evaluate(self, values):
        return "foo" in values
    def __str__(self):
        return "foo"
    def __repr__(self):
        return "Other()"

TREES += [Not(MyAnd(Literal("a"), Literal("b"))), Not(Other()), MyAnd(), Other()]
for tree in TREES:
    print("tree %s" % describe(tree))
    print("    to_string(True)=%r to_string(False)=%r to_string(0)=%r "
          "to_string(pretty='')=%r to_string('x')=%r" % (
              tree.to_string(True), tree.to_string(False), tree.to_string(0),
              tree.to_string(pretty=""), tree.to_string("x")))
    text = tree.to_string()
    kind, again = outcome(make_tag_expression, text, TagExpressionProtocol.V2)
    if kind == "EXC":
        print("    reparse %r -> %s" % (text, again))
    else:
        print("    reparse %r -> %r same=%s" % (
            text, again, truth_table(again) == truth_table(tree)))
print("patched: check=%s to_string=%s Not.__str__=%s" % (
    Expression.check.__name__, Expression.to_string.__name__, Not.__str__.__name__))
print("Not(None).str -> %r" % (outcome(str, Not(None)),))
print("Not(1).to_string -> %r" % (outcome(Not(1).to_string),))


# -----------------------------------------------------------------------------
# SECTION 4: exhaustive small trees + random large ones (text renderings)
# -----------------------------------------------------------------------------
print("== SECTION 4: generated expressions")
ATOMS = ["a", "b", "a.b", "x-y", "k=v", "a*", "foo.*", "*.b", "?", "[ab]"]


def gen_trees(depth):
    if depth == 0:
        for atom in ATOMS:
            yield ("lit", atom)
        return
    for tree in gen_trees(depth - 1):
        yield tree
    smaller = list(gen_trees(depth - 1))
    for tree in smaller:
        yield ("not", tree)
    for op in ("and", "or"):
        for left in smaller[::3]:
            for right in smaller[1::4]:
                yield (op, left, right)


def render(tree, style):
    kind = tree[0]
    if kind == "lit":
        return ("@" if style % 2 else "") + tree[1]
    if kind == "not":
        inner = render(tree[1], style)
        if style >= 2:
            return "not  ( %s )" % inner
        return "not (%s)" % inner
    sep = "  %s  " % kind if style >= 2 else " %s " % kind
    return "(%s%s%s)" % (render(tree[1], style), sep, render(tree[2], style))


def semantic(tree, tags):
    from fnmatch import fnmatchcase
    kind = tree[0]
    if kind == "lit":
        if any(c in tree[1] for c in "*?["):
            return any(fnmatchcase(tag, tree[1]) for tag in tags)
        return tree[1] in tags
    if kind == "not":
        return not semantic(tree[1], tags)
    if kind == "and":
        return semantic(tree[1], tags) and semantic(tree[2], tags)
    return semantic(tree[1], tags) or semantic(tree[2], tags)


count = 0
for tree in gen_trees(2):
    count += 1
    if count % 7:
        continue
    lines = []
    for style in range(4):
        text = render(tree, style)
        for protocol in PROTOCOLS[:2]:
            expression = make_tag_expression(text, protocol)
            expected = "%x" % int("".join(
                "1" if semantic(tree, s) else "0" for s in ALL_SUBSETS), 2)
            printed = expression.to_string()
            again = make_tag_expression(printed, protocol)
            lines.append((str(expression), printed, truth_table(expression),
                          truth_table(expression) == expected,
                          truth_table(again) == expected))
    print("G %s -> %r" % (render(tree, 0), sorted(set(lines))))
print("generated=%d" % count)

rng = random.Random(20240607)


def random_tree(depth):
    if depth == 0 or rng.random() < 0.2:
        return ("lit", rng.choice(ATOMS))
    kind = rng.choice(["not", "and", "or", "and", "or"])
    if kind == "not":
        return ("not", random_tree(depth - 1))
    return (kind, random_tree(depth - 1), random_tree(depth - 1))


for index in range(150):
    tree = random_tree(rng.randint(2, 6))
    style = index % 4
    text = render(tree, style)
    expression = make_tag_expression(text, TagExpressionProtocol.V2)
    expected = "%x" % int("".join(
        "1" if semantic(tree, s) else "0" for s in ALL_SUBSETS), 2)
    printed = expression.to_string()
    again = make_tag_expression(printed, TagExpressionProtocol.V2)
    # -- LIST-OF-TERMS FORM:
    seq_form = make_tag_expression([text, "not zzz"], TagExpressionProtocol.V2)
    print("R%03d %s | %s | tt=%s ok=%s roundtrip=%s seq=%s" % (
        index, text, printed, truth_table(expression),
        truth_table(expression) == expected, truth_table(again) == expected,
        truth_table(seq_form) == expected))


# -----------------------------------------------------------------------------
# SECTION 5: Configuration.setup_tag_expression / {config.tags}
# -----------------------------------------------------------------------------
print("== SECTION 5: configuration")


def show_config(config):
    expression = config.tag_expression
    print("    tags=%r type=%s expr=%r str=%r current=%s" % (
        config.tags, type(config.tags).__name__, expression, str(expression),
        TagExpressionProtocol.current().name))
    print("    checks=%r" % [expression.check(s) for s in (
        [], ["a"], ["b"], ["a", "b"], ["foo"], ["foo.bar"], ["a", "foo"],
        ["x-y", "k=v"], ["a", "b", "foo", "foo.bar", "x-y", "k=v"])])


CONFIG_CASES = [
    (None, None), ("a", None), (None, "a"), ("a and b", "{config.tags}"),
    ("a or b", "not {config.tags}"), ("a or b", "{config.tags} and foo"),
    ("a or b", "foo and not ({config.tags})"),
    ("a* and not b", "{config.tags} or k=v"),
    ("not a", "{config.tags} and {config.tags}"),
    ("not @a", "not {config.tags}"), ("not (a or b)", "not {config.tags}"),
    ("not not a", "{config.tags}"), ("a", "{config.tags}x"),
    ("", "{config.tags}"), ("", "not {config.tags}"), ("", "a and {config.tags}"),
    ("a and b", ["{config.tags}", "foo"]), ("a or b", ["foo", "not {config.tags}"]),
    ("a or b", ["foo", "bar"]), ("a or b", ["{config.tags}", "{config.tags} or foo"]),
    ("a or b", ("foo", "bar")), ("a or b", ("{config.tags}", "foo")),
    ("a or b", ("foo", "{config.tags}")), ("a or b", ["foo", 1, "{config.tags}"]),
    ("a or b", ["{config.tags}", None, "{config.tags}"]), ("a or b", []),
    ("a or b", ()), ("a or b", [""]), ("a or b", ["not {config.tags}", 1]),
    ("@a,@b", "{config.tags}"), ("@a,@b", "~@foo"), ("~@a", "{config.tags}"),
    ("@a @b", "{config.tags}"), ("a or b", "~{config.tags}"),
    ("a or b", "{config.tags},foo"), ("{config.tags}", "{config.tags}"),
    ("{config.tags}", ("{config.tags}", "a")), ("a or", "{config.tags}"),
    ("a", "{config.tags} or"), ("a", "({config.tags}"), (["a", "b"], "{config.tags}"),
    (["a", "b"], None), (("a", "b or foo"), "not {config.tags}"),
    ("a or b", "{CONFIG.TAGS}"), ("a or b", "{config.tags"), ("a or b", 1),
    ("a or b", {"foo"}), (1, "a"), (1, None), ("x-y and k=v", "not {config.tags}"),
    ("foo.* and not *.bar", "{config.tags}"), (u"ä", u"not {config.tags}"),
]
for protocol in [TagExpressionProtocol.AUTO_DETECT, TagExpressionProtocol.V2,
                 TagExpressionProtocol.V1]:
    print("-- tag_expression_protocol=%s" % protocol.name)
    for config_tags, tags in CONFIG_CASES:
        original = tags
        before = repr(tags)
        label = "config_tags=%r tags=%s" % (config_tags, before)
        kind, config = outcome(
            Configuration, "", load_config=False, config_tags=config_tags,
            tags=tags, tag_expression_protocol=protocol)
        if kind == "EXC":
            print("C %s -> %s; original=%r current=%s" % (
                label, config, original, TagExpressionProtocol.current().name))
            continue
        print("C %s" % label)
        show_config(config)
        print("    original=%r same_object=%s" % (original, config.tags is original))

print("-- setup_tag_expression(tags=...) on an existing configuration")
config = Configuration("", load_config=False, config_tags="a or foo.*",
                       tag_expression_protocol=TagExpressionProtocol.V2)
show_config(config)
for tags in [None, "", "b", "not {config.tags}", ["b", "{config.tags}"],
             ("b", "c"), ("{config.tags}",), ["x{config.tags}y", "{config.tags}"],
             Text("b and {config.tags}"), Text("b"), Seq(["{config.tags}", "b"]),
             ["b", None], 7]:
    original = tags
    kind, result = outcome(config.setup_tag_expression, tags)
    print("S setup(%r) -> %s %r original=%r" % (
        tags if not isinstance(tags, list) else "list", kind, result, original))
    show_config(config)
    print("    same_object=%s tags_type=%s" % (
        config.tags is original, type(config.tags).__name__))
config.default_tags = "k=v"
config.config_tags = None
config.tags = None
print("default_tags:", outcome(config.setup_tag_expression, "not {config.tags}"))
show_config(config)
config.tag_expression_protocol = "bad"
print("bad protocol:", outcome(config.setup_tag_expression, "a"))
config.tag_expression_protocol = "v1"
print("v1 by name:", outcome(config.setup_tag_expression, "{config.tags},a"))
show_config(config)
TagExpressionProtocol.use(TagExpressionProtocol.DEFAULT)
print("== DONE")
