# -*- coding: UTF-8 -*-
"""
Equivalence transcript for property C14 (summary conservation).

Exercises the summary machinery through the project's public behaviour:

  PART 1: real test runs (``python -m behave`` as subprocess) on a small
          generated project with passed/failed/error/undefined/pending/
          skipped/untested elements, rules, outlines, hook errors, ...
          for all summary output formats.
  PART 2: in-process: models parsed from text, statuses assigned by hand,
          fed to SummaryReporterV1, SummaryReporterV2/SummaryCollector and
          ModelVisitor (with a call-logging visitor); all summary line
          formatters on dicts and StatusCounts.

Prints a canonical transcript (timings removed).
"""

from __future__ import absolute_import, print_function
import sys
sys.path.insert(0, "/tmp/wtT/C14")

import io
import os
import re
import shutil
import subprocess
import tempfile
import traceback

WORKTREE = "/tmp/wtT/C14"
PYTHON = "/venv/bin/python"


def emit(text=""):
    sys.stdout.write(text + "\n")


def section(title):
    emit("")
    emit("=" * 70)
    emit("== " + title)
    emit("=" * 70)


def describe_exception(e):
    return "%s: %s" % (e.__class__.__name__, e)


# ---------------------------------------------------------------------------
# PART 1: REAL TEST RUNS
# ---------------------------------------------------------------------------
FEATURE_FILES = {
    "features/a_basic.feature": u"""
Feature: A basic
  Scenario: A1 passes
    Given a step passes
    When another step passes
    Then a step passes

  Scenario: A2 fails
    Given a step passes
    When a step fails
    Then a step passes

  Scenario Outline: A3 outline <name>
    Given a step passes
    When a step <outcome>

    Examples: first
      | name  | outcome |
      | one   | passes  |
      | two   | fails   |
      | three | passes  |

    Examples: second
      | name  | outcome      |
      | four  | raises error |
""",
    "features/b_rules.feature": u"""
Feature: B with rules
  Background:
    Given a step passes

  Scenario: B0 before rules
    When a step passes

  Rule: B.R1 all good
    Scenario: B1 passes
      When a step passes
    Scenario: B2 passes
      When another step passes

  Rule: B.R2 problems
    Scenario: B3 error
      When a step raises error
      Then a step passes
    Scenario: B4 undefined
      When a step is not defined anywhere
      Then a step passes
    Scenario: B5 pending
      When a step is pending
      Then a step passes
    Scenario Outline: B6 outline <n>
      When a step <outcome>
      Examples:
        | n | outcome |
        | 1 | passes  |
        | 2 | fails   |

  @skip_me
  Rule: B.R3 skipped
    Scenario: B7 skipped
      When a step passes
""",
    "features/c_skipped.feature": u"""
@skip_me
Feature: C all skipped
  Scenario: C1
    Given a step passes
  Scenario: C2
    Given a step passes
""",
    "features/d_empty.feature": u"""
Feature: D empty
""",
    "features/e_hooks.feature": u"""
Feature: E hook problems
  @hook_error
  Scenario: E1 before_scenario hook raises
    Given a step passes

  Scenario: E2 passes
    Given a step passes

  @hook_assert
  Scenario: E3 after_scenario hook asserts
    Given a step passes
""",
    "features/f_last.feature": u"""
Feature: F last
  Scenario: F1 passes
    Given a step passes
  @skip_me
  Scenario: F2 skipped
    Given a step passes
  Scenario: F3 with no steps
""",
    "features/steps/steps.py": u"""
from behave import given, when, then, step
from behave.api.pending_step import StepNotImplementedError

@step(u'a step passes')
def step_passes(ctx):
    pass

@step(u'another step passes')
def step_passes2(ctx):
    pass

@step(u'a step fails')
def step_fails(ctx):
    assert False, "XFAIL-HERE"

@step(u'a step raises error')
def step_error(ctx):
    raise RuntimeError("OOPS")

@step(u'a step is pending')
def step_pending(ctx):
    raise StepNotImplementedError("PENDING")
""",
    "features/environment.py": u"""
def before_scenario(ctx, scenario):
    if "hook_error" in scenario.tags:
        raise RuntimeError("HOOK-OOPS")

def after_scenario(ctx, scenario):
    if "hook_assert" in scenario.tags:
        assert False, "HOOK-ASSERT"
""",
}

BEHAVE_RUNS = [
    ("default", []),
    ("tags", ["--tags=not @skip_me"]),
    ("stop", ["--tags=not @skip_me", "--stop"]),
    ("dry-run", ["--dry-run"]),
    ("one-feature", ["features/a_basic.feature"]),
    ("empty-feature", ["features/d_empty.feature"]),
    ("skipped-feature", ["--tags=not @skip_me", "features/c_skipped.feature"]),
    ("name-select", ["--name", "B[1-3]"]),
    ("no-summary", ["--no-summary", "features/a_basic.feature"]),
    ("fmt-v1", ["-D", "behave.reporter.summary.output_format=v1",
                "--tags=not @skip_me"]),
    ("fmt-v2", ["-D", "behave.reporter.summary.output_format=v2",
                "--tags=not @skip_me"]),
    ("fmt-v3", ["-D", "behave.reporter.summary.output_format=v3",
                "--tags=not @skip_me"]),
    ("fmt-v1A", ["-D", "behave.reporter.summary.output_format=v1A",
                 "--tags=not @skip_me"]),
    ("fmt-v1B", ["-D", "behave.reporter.summary.output_format=v1B",
                 "--tags=not @skip_me"]),
    ("fmt-entity_first", ["-D", "behave.reporter.summary.output_format=entity_first"]),
    ("fmt-unknown", ["-D", "behave.reporter.summary.output_format=zzz",
                     "features/a_basic.feature"]),
]

TIMING_PATTERN = re.compile(r"Took \d+m\d+\.\d+s")
SECONDS_PATTERN = re.compile(r"\b\d+\.\d{3,}s\b")


def normalize_output(text, workdir):
    text = text.replace(workdir, "<WORKDIR>")
    text = TIMING_PATTERN.sub("Took <DURATION>", text)
    text = SECONDS_PATTERN.sub("<SECS>", text)
    lines = []
    for line in text.splitlines():
        line = line.rstrip()
        # -- TRACEBACK DETAILS: Keep only stable parts.
        if line.lstrip().startswith('File "') and ", line " in line:
            line = re.sub(r", line \d+", ", line <N>", line)
            line = line.replace(WORKTREE, "<WORKTREE>")
        lines.append(line)
    return "\n".join(lines)


def run_behave_part():
    workdir = tempfile.mkdtemp(prefix="c14_equiv_")
    try:
        for name, contents in FEATURE_FILES.items():
            path = os.path.join(workdir, name)
            dirname = os.path.dirname(path)
            if not os.path.isdir(dirname):
                os.makedirs(dirname)
            with io.open(path, "w", encoding="UTF-8") as f:
                f.write(contents.lstrip("\n"))

        env = dict(os.environ)
        env["PYTHONPATH"] = WORKTREE
        env["PYTHONDONTWRITEBYTECODE"] = "1"
        env.pop("BEHAVE_ARGS", None)
        for run_name, args in BEHAVE_RUNS:
            section("BEHAVE RUN: %s :: %s" % (run_name, " ".join(args)))
            command = [PYTHON, "-m", "behave", "--no-color", "-f", "progress",
                       "--no-capture"] + args
            proc = subprocess.Popen(command, cwd=workdir, env=env,
                                    stdout=subprocess.PIPE,
                                    stderr=subprocess.STDOUT)
            output, _ = proc.communicate()
            output = output.decode("UTF-8", "replace")
            emit("returncode: %s" % proc.returncode)
            emit(normalize_output(output, workdir))
    finally:
        shutil.rmtree(workdir, ignore_errors=True)


# ---------------------------------------------------------------------------
# PART 2: IN-PROCESS
# ---------------------------------------------------------------------------
from behave.model_core import Status                            # noqa: E402
from behave.model import Feature, Rule, ScenarioOutline, Scenario, Step   # noqa: E402
from behave.parser import parse_feature                         # noqa: E402
from behave.model_visitor import ModelVisitor, IModelVisitor    # noqa: E402
from behave.summary import (                                    # noqa: E402
    SummaryCounts, SummaryCollector, StatusCounts, STATUS_ORDER)
from behave.reporter import summary as reporter_summary         # noqa: E402
from behave.reporter.summary import (                           # noqa: E402
    SummaryReporterV1, SummaryReporterV2, SummaryReporter,
    OUTPUT_FORMAT_MAP, compute_summary_sum, select_format_summary_by_name,
    format_summary_with_schema)


MODEL_TEXT_1 = u"""
Feature: M1
  Scenario: M1.S1
    Given s1 passed
    When s2 passed
  Scenario: M1.S2
    Given s1 passed
    When s2 failed
    Then s3 untested
  Scenario Outline: M1.O3 <x>
    Given o1 <x>
    Then o2 passed
    Examples:
      | x |
      | a |
      | b |
      | c |
  Rule: M1.R1
    Scenario: M1.R1.S4
      Given s1 error
      Then s2 skipped
    Scenario Outline: M1.R1.O5 <y>
      Given o1 <y>
      Examples:
        | y |
        | p |
        | q |
  Rule: M1.R2
    Scenario: M1.R2.S6
      Given s1 undefined
    Scenario: M1.R2.S7
      Given s1 pending
    Scenario: M1.R2.S8
      Given s1 pending_warn
    Scenario: M1.R2.S9
      Given s1 skipped
  Rule: M1.R3 empty
"""

MODEL_TEXT_2 = u"""
Feature: M2 untouched
  Scenario: M2.S1
    Given s1
    When s2
  Scenario: M2.S2
    Given s1
"""

MODEL_TEXT_3 = u"""
Feature: M3 empty
"""

MODEL_TEXT_4 = u"""
Feature: M4 all passed
  Scenario: M4.S1
    Given s1 passed
  Rule: M4.R1
    Scenario: M4.R1.S2
      Given s1 passed
      And s2 passed
"""

STATUS_WORDS = [
    "passed", "failed", "error", "skipped", "undefined", "pending_warn",
    "pending", "untested", "hook_error", "cleanup_error",
    "untested_pending", "untested_undefined",
]


def assign_step_statuses(feature, overrides=None):
    """Assign step status by the last word of the step name (if any)."""
    overrides = overrides or {}
    for scenario in feature.walk_scenarios():
        for step in scenario.all_steps:
            word = step.name.split()[-1]
            word = overrides.get(word, word)
            if word in STATUS_WORDS:
                step.status = Status.from_name(word)
                step.duration = 0.25
    return feature


def make_models(variant=0):
    """Build a fresh list of features with hand-assigned statuses."""
    overrides_by_variant = [
        {"a": "passed", "b": "failed", "c": "passed", "p": "passed", "q": "error"},
        {"a": "passed", "b": "passed", "c": "passed", "p": "passed", "q": "passed"},
        {"a": "untested", "b": "skipped", "c": "undefined", "p": "pending", "q": "hook_error"},
    ]
    overrides = overrides_by_variant[variant]
    feature1 = assign_step_statuses(
        parse_feature(MODEL_TEXT_1.lstrip(), filename="m1.feature"), overrides)
    feature2 = parse_feature(MODEL_TEXT_2.lstrip(), filename="m2.feature")
    feature3 = parse_feature(MODEL_TEXT_3.lstrip(), filename="m3.feature")
    feature4 = assign_step_statuses(
        parse_feature(MODEL_TEXT_4.lstrip(), filename="m4.feature"), overrides)
    if variant == 2:
        # -- HOOK-ERRORS and explicit status values on containers.
        feature4.hook_failed = True
        feature4.run_items[1].hook_failed = True
        feature1.run_items[0].hook_failed = True
        for step in feature1.run_items[0].all_steps:
            step.hook_failed = True
        feature2.set_status(Status.skipped)
        feature3.set_status("failed")
    return [feature1, feature2, feature3, feature4]


class FakeConfig(object):
    def __init__(self, userdata=None):
        self.userdata = userdata or {}


class RecordingStream(object):
    """Stream that records each write() call separately."""
    encoding = "UTF-8"

    def __init__(self):
        self.calls = []

    def write(self, text):
        self.calls.append(text)
        return len(text)

    def flush(self):
        pass


def show_calls(stream, prefix="  write: "):
    for text in stream.calls:
        text = TIMING_PATTERN.sub("Took <DURATION>", text)
        emit("%s%r" % (prefix, text))


def scenario_ident(scenario):
    return "%s|%s|%s" % (scenario.location, scenario.name, scenario.status.name)


def show_model(features):
    for feature in features:
        emit("  feature %r: %s hook_failed=%s" %
             (feature.name, feature.status.name, feature.hook_failed))
        for rule in feature.rules:
            emit("    rule %r: %s" % (rule.name, rule.status.name))
        for scenario in feature.walk_scenarios(with_rules=True):
            if isinstance(scenario, Rule):
                continue
            emit("    scenario %r: %s [%s]" % (
                scenario.name, scenario.status.name,
                ", ".join(step.status.name for step in scenario)))


def make_reporter(reporter_class, userdata=None):
    reporter = reporter_class(FakeConfig(userdata))
    reporter.stream = RecordingStream()
    # -- DETERMINISTIC: Avoid wall-clock based duration (test-support setter).
    reporter.duration = 0.0
    return reporter


def run_reporter(reporter_class, features, userdata=None, show_failed=True):
    reporter = make_reporter(reporter_class, userdata)
    reporter.show_failed_scenarios = show_failed
    emit("  reporter: %s output_format=%s" %
         (reporter_class.__name__, reporter.output_format))
    try:
        for feature in features:
            reporter.feature(feature)
        emit("  duration: %.3f" % reporter.duration)
        emit("  failed_scenarios:")
        for scenario in reporter.failed_scenarios:
            emit("    " + scenario_ident(scenario))
        emit("  errored_scenarios:")
        for scenario in reporter.errored_scenarios:
            emit("    " + scenario_ident(scenario))
        for name in ("feature_summary", "rule_summary", "scenario_summary",
                     "step_summary"):
            table = getattr(reporter, name, None)
            if table is not None:
                emit("  %s(before end): %s" % (name, sorted(table.items())))
        counts = getattr(reporter, "summary_counts", None)
        if counts is not None:
            emit("  summary_counts: %r" % (counts.as_dict(nested=True),))
            emit("  summary_counts.str: %s" % str(counts).replace("\n", " / "))
            collector = reporter.summary_collector
            emit("  failed_features: %s" %
                 [f.name for f in collector.failed_features])
            emit("  errored_features: %s" %
                 [f.name for f in collector.errored_features])
            emit("  collector.duration: %.3f" % collector.duration)
            emit("  has_failures_or_errors: %s" %
                 collector.has_failures_or_errors())
        reporter.end()
    except Exception as e:  # pylint: disable=broad-except
        emit("  EXCEPTION: " + describe_exception(e))
    for name in ("feature_summary", "rule_summary", "scenario_summary",
                 "step_summary"):
        table = getattr(reporter, name, None)
        if table is not None:
            emit("  %s(after end): %s" % (name, sorted(table.items())))
    show_calls(reporter.stream)
    return reporter


def reporters_part():
    for variant in (0, 1, 2):
        section("MODEL variant=%d" % variant)
        show_model(make_models(variant))
        for reporter_class in (SummaryReporterV1, SummaryReporterV2):
            for output_format in (None, "v1", "v2", "v3", "v1A", "v1B",
                                  "passed_first", "entity_first", "bogus"):
                userdata = {}
                if output_format:
                    key = "behave.reporter.summary.output_format"
                    userdata[key] = output_format
                emit("")
                emit("-- %s variant=%d output_format=%s" %
                     (reporter_class.__name__, variant, output_format))
                run_reporter(reporter_class, make_models(variant), userdata)
        emit("")
        emit("-- SummaryReporterV1 variant=%d show_failed_scenarios=False" % variant)
        run_reporter(SummaryReporterV1, make_models(variant), show_failed=False)

    section("REPORTER: no features at all")
    run_reporter(SummaryReporterV1, [])
    run_reporter(SummaryReporterV2, [])

    section("REPORTER: print helpers with explicit stream")
    reporter = make_reporter(SummaryReporterV1)
    for feature in make_models(0):
        reporter.feature(feature)
    other = RecordingStream()
    reporter.print_failing_scenarios(stream=other)
    reporter.print_errored_scenarios(stream=other)
    reporter.print_problematic_scenarios(stream=other)
    reporter.print_summary(stream=other, with_duration=False)
    emit("  explicit stream:")
    show_calls(other)
    emit("  own stream:")
    show_calls(reporter.stream)

    section("REPORTER: on_scenario() with each status")
    reporter = make_reporter(SummaryReporterV1)
    feature = parse_feature(MODEL_TEXT_2.lstrip(), filename="m2.feature")
    scenario = feature.scenarios[0]
    for status in Status:
        scenario.set_status(status)
        before = (len(reporter.failed_scenarios), len(reporter.errored_scenarios))
        result = reporter.on_scenario(scenario)
        after = (len(reporter.failed_scenarios), len(reporter.errored_scenarios))
        emit("  %-20s result=%r failed+%d errored+%d" % (
            status.name, result, after[0] - before[0], after[1] - before[1]))

    section("REPORTER: alias")
    emit("  SummaryReporter is %s" % SummaryReporter.__name__)


class LoggingVisitor(IModelVisitor):
    def __init__(self, stop_at=None, stop_value=False):
        self.log = []
        self.stop_at = stop_at
        self.stop_value = stop_value

    def _on(self, kind, item):
        self.log.append("%s:%s" % (kind, item.name))
        if self.stop_at and self.stop_at == item.name:
            return self.stop_value
        return None

    def on_feature(self, feature):
        return self._on("feature", feature)

    def on_rule(self, rule):
        return self._on("rule", rule)

    def on_scenario_outline(self, scenario_outline):
        return self._on("outline", scenario_outline)

    def on_scenario(self, scenario):
        return self._on("scenario", scenario)

    def on_step(self, step):
        return self._on("step", step)


class DerivedVisitor(ModelVisitor):
    """Inheritance-based visitor that overrides some visit methods."""
    def __init__(self):
        super(DerivedVisitor, self).__init__()
        self.log = []

    def visit_rule(self, rule):
        self.log.append("visit_rule:%s" % rule.name)
        return super(DerivedVisitor, self).visit_rule(rule)

    def visit_step(self, step):
        self.log.append("visit_step:%s" % step.name)
        return "STEP-RESULT"

    def on_scenario(self, scenario):
        self.log.append("on_scenario:%s" % scenario.name)


def visitor_part():
    section("MODEL-VISITOR: traversal order (delegation-based)")
    features = make_models(0)
    visitor = LoggingVisitor()
    walker = ModelVisitor(visitor)
    result = walker(features)
    emit("  result: %r" % (result,))
    for entry in visitor.log:
        emit("  " + entry)

    section("MODEL-VISITOR: visit() per item kind")
    feature = make_models(0)[0]
    rule = feature.rules[0]
    outline = [x for x in feature.run_items if isinstance(x, ScenarioOutline)][0]
    scenario = feature.scenarios[0]
    step = scenario.steps[0]
    items = [feature, rule, outline, outline.scenarios[0], scenario, step,
             (rule, step), [step, scenario], [], ()]
    for item in items:
        visitor = LoggingVisitor()
        walker = ModelVisitor(visitor)
        result = walker(item)
        emit("  %s -> result=%r log=%s" % (
            item.__class__.__name__, result, visitor.log))
    for bad_item in (None, 42, "text", object, {"a": 1}, Status.passed):
        walker = ModelVisitor(LoggingVisitor())
        for func_name in ("visit", "__call__"):
            try:
                result = getattr(walker, func_name)(bad_item)
                emit("  %s(%r) -> %r" % (func_name, bad_item, result))
            except Exception as e:  # pylint: disable=broad-except
                emit("  %s(%r) -> EXCEPTION %s" % (
                    func_name, bad_item, describe_exception(e)))

    section("MODEL-VISITOR: cancel visit")
    for stop_at, stop_value in [("M1", False), ("M1.S2", False), ("M1.R1", 0),
                                ("M1.O3 <x>", False), ("s1 error", False),
                                ("s1 error", ""), ("M1.R1", "truthy"),
                                ("M1.O3 <x> -- @1.2 ", False)]:
        visitor = LoggingVisitor(stop_at=stop_at, stop_value=stop_value)
        walker = ModelVisitor(visitor)
        result = walker.visit_many(make_models(0))
        emit("  stop_at=%r value=%r -> result=%r visited=%d last=%s" % (
            stop_at, stop_value, result, len(visitor.log), visitor.log[-1]))

    section("MODEL-VISITOR: inheritance-based with overridden visit methods")
    visitor = DerivedVisitor()
    result = visitor.visit(make_models(0)[0])
    emit("  result: %r" % (result,))
    for entry in visitor.log:
        emit("  " + entry)


def collector_part():
    section("COLLECTOR: direct use")
    for variant in (0, 1, 2):
        features = make_models(variant)
        collector = SummaryCollector()
        result = collector.visit_many(features)
        counts = collector.summary_counts
        emit("  variant=%d result=%r" % (variant, result))
        emit("    counts: %r" % (counts.as_dict(nested=True),))
        for name, value in counts.items():
            emit("    %s.all=%d  %s" % (name, value.all, value))
        emit("    failed_scenarios: %s" %
             [scenario_ident(s) for s in collector.failed_scenarios])
        emit("    errored_scenarios: %s" %
             [scenario_ident(s) for s in collector.errored_scenarios])
        emit("    failed_features: %s" % [f.name for f in collector.failed_features])
        emit("    errored_features: %s" % [f.name for f in collector.errored_features])
        emit("    duration: %.3f" % collector.duration)

        # -- CONSERVATION CHECK (observed numbers only).
        n_features = len(features)
        n_rules = sum(len(f.rules) for f in features)
        scenarios = []
        for f in features:
            scenarios.extend(f.walk_scenarios())
        n_steps = sum(len(list(s)) for s in scenarios)
        emit("    model: features=%d rules=%d scenarios=%d steps=%d" % (
            n_features, n_rules, len(scenarios), n_steps))

    section("COLLECTOR: single items")
    feature = make_models(2)[0]
    for item in (feature.rules[0], feature.scenarios[0],
                 feature.scenarios[0].steps[0], feature.run_items[2]):
        collector = SummaryCollector(SummaryCounts())
        result = collector.visit(item)
        emit("  %s %r -> result=%r counts=%r" % (
            item.__class__.__name__, item.name, result,
            collector.summary_counts.as_dict(nested=True)))

    section("COLLECTOR: bad status value")

    class FakeStep(object):
        status = "passed"
        hook_failed = True
        name = "fake"

    class FakeFeature(object):
        status = "failed"
        hook_failed = True
        duration = 1.5
        name = "fake"

    collector = SummaryCollector()
    for func, item in ((collector.on_step, FakeStep()),
                       (collector.on_rule, FakeStep()),
                       (collector.on_feature, FakeFeature())):
        try:
            emit("  %s -> %r" % (func.__name__, func(item)))
        except Exception as e:  # pylint: disable=broad-except
            emit("  %s -> EXCEPTION %s" % (func.__name__, describe_exception(e)))
    emit("  counts: %r duration=%r" % (
        collector.summary_counts.as_dict(nested=True), collector.duration))


def formatting_part():
    section("FORMAT: summary lines")
    dict_cases = [
        {},
        {"all": 0},
        {"passed": 1},
        {"passed": 0, "failed": 0, "skipped": 0, "untested": 0},
        {"passed": 1, "failed": 0, "skipped": 0, "untested": 0},
        {"passed": 2, "failed": 1, "skipped": 3, "untested": 4},
        {"all": 10, "passed": 2, "failed": 1, "skipped": 3, "untested": 4},
        {"all": 1, "passed": 0, "failed": 1, "error": 0, "hook_error": 0,
         "skipped": 0, "untested": 0},
        {"all": 99, "passed": 5, "failed": 4, "error": 3, "hook_error": 2,
         "cleanup_error": 7, "skipped": 1, "untested": 6, "undefined": 8,
         "pending": 9, "pending_warn": 10, "untested_pending": 11,
         "untested_undefined": 12},
        {"failed": 2, "bogus": 5},
        {"passed": 1234, "error": 1},
    ]
    counts_cases = [
        StatusCounts(),
        StatusCounts.from_counts(passed=1),
        StatusCounts.from_counts(passed=3, failed=2, error=1, skipped=4,
                                 untested=5, undefined=6, hook_error=7),
    ]
    for statement_type in ("feature", "step"):
        for case in dict_cases + counts_cases:
            emit("  %s %r" % (statement_type, case))
            emit("    sum=%r" % compute_summary_sum(dict(case)))
            for name in sorted(OUTPUT_FORMAT_MAP):
                func = select_format_summary_by_name(name)
                try:
                    emit("    %-4s %r" % (name, func(statement_type, case)))
                except Exception as e:  # pylint: disable=broad-except
                    emit("    %-4s EXCEPTION %s" % (name, describe_exception(e)))

    section("FORMAT: format_summary_with_schema() parameters")
    data = {"all": 7, "passed": 2, "failed": 1, "skipped": 4, "untested": 0,
            "error": 0}
    param_cases = [
        {},
        {"schema": None, "item_schema": None},
        {"use_passed_for_all": True},
        {"use_passed_for_all": True, "item_schema": "<{name}={value}>"},
        {"item_schema": "{value}x{name}", "end": ""},
        {"schema": "{count}|{statement}|{suffix}|{parts}|{end}", "end": "$"},
        {"schema": "", "item_schema": ""},
        {"schema": "{missing}"},
        {"item_schema": "{missing}"},
    ]
    for params in param_cases:
        for counts in (data, {"passed": 1}, {}):
            try:
                text = format_summary_with_schema("scenario", counts, **params)
                emit("  %r %r -> %r" % (sorted(params.items()), counts, text))
            except Exception as e:  # pylint: disable=broad-except
                emit("  %r %r -> EXCEPTION %s" % (
                    sorted(params.items()), counts, describe_exception(e)))

    section("FORMAT: module constants")
    emit("  STATUS_ORDER: %s" % [s.name for s in STATUS_ORDER])
    emit("  reporter STATUS_ORDER same: %s" %
         (reporter_summary.STATUS_ORDER is STATUS_ORDER))
    emit("  OPTIONAL_V1: %s" % [s.name for s in reporter_summary.OPTIONAL_STATUS_PARTS_V1])
    emit("  OPTIONAL_V2: %s" % [s.name for s in reporter_summary.OPTIONAL_STATUS_PARTS_V2])
    emit("  OUTPUT_FORMAT_DEFAULT: %s" % reporter_summary.OUTPUT_FORMAT_DEFAULT)


def main():
    parts = [formatting_part, visitor_part, collector_part, reporters_part,
             run_behave_part]
    for part in parts:
        try:
            part()
        except Exception:  # pylint: disable=broad-except
            emit("PART %s CRASHED:" % part.__name__)
            emit(traceback.format_exc())
    return 0


if __name__ == "__main__":
    sys.exit(main())
