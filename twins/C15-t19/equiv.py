# -*- coding: utf-8 -*-
# Common part (copied verbatim into every equiv.py): builds a feature tree
# and runs "python -m behave" from the worktree as a subprocess.
from __future__ import print_function, unicode_literals
import io, json, os, re, shutil, subprocess, sys, tempfile

WORKTREE = "/tmp/wtW/C15"
sys.path.insert(0, WORKTREE)
PYTHON = "/venv/bin/python"

FEATURES = {
"features/alpha.feature": u'''
@feat
Feature: Alpha with feature background
  Some description line one.
  Second description line.

  Background: Common setup
    Given a passing step
    And a table step
      | name  | value |
      | Zoë   | 1     |
      | a\\|b  | long cell text |

  Scenario: All pass
    When I add 2 and 3
    Then the result is 5

  @wip
  Scenario: Failing in the middle
    When a failing step
    Then a passing step

  Scenario: With doc-string
    Given a doc-string step
      """
      Line one with ünïcödé
        indented line two
      \\"\\"\\" inner quotes
      """
    Then a passing step

  Scenario: Undefined step here
    Given a passing step
    When this step is not defined anywhere
    Then a passing step

  @skip_me
  Scenario: Skipped by tag
    Given a passing step

  Scenario Outline: Outline <name>
    Given a passing step
    When I add <a> and <b>
    Then the result is <c>

    Examples: Good
      | name | a | b | c |
      | one  | 1 | 1 | 2 |
      | two  | 2 | 2 | 5 |

    @skip_me
    Examples: Skipped ones
      | name  | a | b | c |
      | three | 3 | 3 | 6 |
''',
"features/beta.feature": u'''
Feature: Beta with rules

  Background:
    Given a passing step

  Scenario: Before the rules
    Then a passing step

  Rule: First rule
    Background: Rule setup
      Given a table step
        | k |
        | v |

    Scenario: R1 one
      When an erroring step
      Then a passing step

    Scenario: R1 two
      When word "hello" and number 42 and float 1.5
      Then a passing step

  Rule: Second rule without background

    Scenario: R2 one
      Given a doc-string step
        """
        single line
        """

    Scenario Outline: R2 outline <x>
      When I add <x> and <x>
      Then a passing step

      Examples:
        | x |
        | 7 |
        | 8 |
''',
"features/gamma.feature": u'''
@skip_me
Feature: Gamma entirely skipped
  Scenario: Never runs
    Given a passing step
''',
"features/delta.feature": u'''
Feature: Delta empty feature
''',
"features/epsilon.feature": u'''
Feature: Epsilon background fails

  Background: Broken
    Given a failing step

  Scenario: E one
    Then a passing step

  Scenario: E two
    Then a passing step
''',
"features/steps/steps.py": u'''
# -*- coding: utf-8 -*-
from __future__ import unicode_literals
from behave import given, when, then, step

@step(u'a passing step')
def step_pass(context):
    pass

@step(u'a failing step')
def step_fail(context):
    assert False, u"XFAIL: expected fäilure\\nsecond line of message"

@step(u'an erroring step')
def step_error(context):
    raise ValueError(u"boom ünicode")

@step(u'a table step')
def step_table(context):
    assert context.table is not None
    context.table_rows = [row.cells for row in context.table]

@step(u'a doc-string step')
def step_text(context):
    assert context.text

@when(u'I add {a:d} and {b:d}')
def step_add(context, a, b):
    context.result = a + b
    if getattr(context, "do_attach", False):
        context.attach("text/plain", ("%d+%d" % (a, b)).encode("utf-8"))
        context.attach("image/png", b"\\x00\\x01\\xff")

@then(u'the result is {c:d}')
def step_result(context, c):
    assert context.result == c, "%r != %r" % (context.result, c)

@when(u'word "{w:w}" and number {n:d} and float {f:f}')
def step_typed(context, w, n, f):
    pass
''',
"features/environment.py": u'''
import os
def before_all(context):
    context.do_attach = bool(os.environ.get("TWIN_ATTACH"))
''',
}


def make_tree():
    root = tempfile.mkdtemp(prefix="twin_C15_")
    for name, text in FEATURES.items():
        path = os.path.join(root, name)
        if not os.path.isdir(os.path.dirname(path)):
            os.makedirs(os.path.dirname(path))
        with io.open(path, "w", encoding="utf-8") as f:
            f.write(text.lstrip("\n"))
    return root


_DURATION = re.compile(r'("duration":\s*)[0-9.e+-]+')
_TIMING = re.compile(r"\b\d+\.\d{3}s\b")
_TOOK = re.compile(r"Took \d+m\d+\.\d+s")
_LINENO = re.compile(r'(File "[^"]*", line )\d+')
_XMLTIME = re.compile(r'\b(time|timestamp|hostname)="[^"]*"')


def normalize(text, root):
    text = text.replace(root, "<ROOT>")
    text = _DURATION.sub(r"\g<1>0", text)
    text = _TIMING.sub("N.NNNs", text)
    text = _TOOK.sub("Took <T>", text)
    text = _LINENO.sub(r"\g<1>N", text)
    text = _XMLTIME.sub(r'\g<1>="<X>"', text)
    return text


def run_behave(root, args, env_extra=None):
    env = dict(os.environ)
    env["PYTHONPATH"] = WORKTREE
    env["PYTHONIOENCODING"] = "utf-8"
    env["PYTHONHASHSEED"] = "0"
    env.pop("TWIN_ATTACH", None)
    if env_extra:
        env.update(env_extra)
    proc = subprocess.Popen([PYTHON, "-m", "behave"] + list(args), cwd=root,
                            env=env, stdout=subprocess.PIPE,
                            stderr=subprocess.PIPE)
    out, err = proc.communicate()
    return (proc.returncode, normalize(out.decode("utf-8", "replace"), root),
            normalize(err.decode("utf-8", "replace"), root))


def show_run(root, args, env_extra=None, outfiles=()):
    print("=" * 78)
    print("RUN: behave %s %s" % (" ".join(args), sorted((env_extra or {}).items())))
    for name in outfiles:
        path = os.path.join(root, name)
        if os.path.exists(path):
            os.remove(path)
    code, out, err = run_behave(root, args, env_extra)
    print("returncode:", code)
    print("--- stdout")
    print(out)
    print("--- stderr")
    print(err)
    for name in outfiles:
        path = os.path.join(root, name)
        print("--- file %s" % name)
        if os.path.exists(path):
            with io.open(path, encoding="utf-8") as f:
                print(normalize(f.read(), root))
        else:
            print("<missing>")


# ---------------------------------------------------------------------------
# SPECIFIC PART (C15-t19): JsonParser.add_feature_element (JSON reader)
# ---------------------------------------------------------------------------
def loc(element):
    location = element.location
    return "%s:%r" % (location.filename, location.line)


def describe_steps(steps, indent):
    for step in steps:
        print("%s%s %s [%s] @%s status=%s duration=%s" % (
            indent, step.keyword, step.name, step.step_type, loc(step),
            step.status.name, "0" if isinstance(step.duration, float) else repr(step.duration)))
        if step.text is not None:
            print("%s  text=%r" % (indent, step.text))
        if step.table is not None:
            print("%s  table=%r %r" % (indent, step.table.headings,
                                       [list(row) for row in step.table.rows]))
        if step.error_message is not None:
            print("%s  error_message=%r" % (indent, normalize(step.error_message, "<none>")))


def describe_feature(feature):
    print("FEATURE %s: %r tags=%r @%s description=%r status=%s" % (
        feature.keyword, feature.name, feature.tags, loc(feature),
        feature.description, feature.status.name))
    background = feature.background
    if background is None:
        print("  background: None")
    else:
        print("  BACKGROUND %s: %r @%s" % (background.keyword, background.name,
                                           loc(background)))
        describe_steps(background.steps, "    ")
    print("  run_items=%d scenarios=%d rules=%d" % (
        len(feature.run_items), len(feature.scenarios), len(feature.rules)))
    for scenario in feature.scenarios:
        print("  %s %s: %r tags=%r @%s description=%r status=%s parent_is_feature=%s" % (
            type(scenario).__name__, scenario.keyword, scenario.name,
            scenario.tags, loc(scenario), scenario.description,
            scenario.status.name, scenario.feature is feature))
        describe_steps(scenario.steps, "    ")
        examples = getattr(scenario, "examples", None)
        if examples is not None:
            print("    examples=%r" % (examples,))


def parse_back(root, filename):
    from behave import json_parser
    print("--- parsed back: %s" % filename)
    try:
        features = json_parser.parse(os.path.join(root, filename))
    except Exception as e:  # pylint: disable=broad-except
        print("parse raised", type(e).__name__, normalize(str(e), root))
        return
    print("features:", len(features))
    for feature in features:
        describe_feature(feature)


def step_data(name, line, **extra):
    data = {"keyword": "Given", "step_type": "given", "name": name,
            "location": "x.feature:%d" % line}
    data.update(extra)
    return data


def handcrafted():
    from behave.json_parser import JsonParser

    class Recording(JsonParser):
        def __init__(self):
            super(Recording, self).__init__()
            self.calls = []

        def parse_background(self, json_element):
            self.calls.append("parse_background")
            return super(Recording, self).parse_background(json_element)

        def parse_scenario(self, json_element):
            self.calls.append("parse_scenario")
            return super(Recording, self).parse_scenario(json_element)

        def parse_scenario_outline(self, json_element):
            self.calls.append("parse_scenario_outline")
            return super(Recording, self).parse_scenario_outline(json_element)

    def element(type_=None, name="E", line=2, **extra):
        data = {"keyword": "K", "name": name, "location": "x.feature:%d" % line,
                "steps": [step_data("s1", line + 1),
                          step_data("s2", line + 2, text=["a", "b"],
                                    result={"status": "failed", "duration": 2,
                                            "error_message": ["e1", "e2"]}),
                          step_data("s3", line + 3, text="plain",
                                    table={"headings": ["h"], "rows": [["r"]]},
                                    result={"status": "passed"})]}
        if type_ is not None:
            data["type"] = type_
        data.update(extra)
        return data

    def feature_data(elements):
        return {"keyword": "Feature", "name": "X", "tags": ["t1"],
                "location": "x.feature:1", "elements": elements}

    cases = [
        ("lowercase types", [element("background"), element("scenario", tags=["a"]),
                             element("scenario_outline", description=["d"])]),
        ("mixed case types", [element("Background"), element("SCENARIO"),
                              element("Scenario_Outline"), element("scenario")]),
        ("two backgrounds", [element("background", name="B1"),
                             element("scenario"),
                             element("background", name="B2", line=20)]),
        ("no elements", []),
        ("missing type", [element("scenario"), element(None)]),
        ("empty type", [element("")]),
        ("unknown: examples", [element("scenario_outline"), element("examples")]),
        ("unknown: rule", [element("rule")]),
        ("unknown: scenario outline with blank", [element("scenario outline")]),
        ("unknown: unicode", [element(u"Szenariö")]),
        ("type is a number", [element(3)]),
        ("type is null", [element("scenario"), {"type": None}]),
        ("type is a list", [element(["scenario"])]),
        ("element without location", [{"type": "scenario"}]),
        ("background without location", [{"type": "background"}]),
        ("outline with examples list", [element("scenario_outline",
                                                examples=[{"keyword": "Examples"}])]),
        ("outline with examples dict", [element("scenario_outline",
                                                examples={"keyword": "Examples", "name": "N",
                                                          "location": "x.feature:9",
                                                          "table": {"headings": ["a"],
                                                                    "rows": [["1"]]}})]),
        ("bad step status", [element("scenario", steps=[
            step_data("s", 3, result={"status": "bogus"})])]),
        ("bad location", [element("scenario", location="C:/x.feature:3")]),
        ("element is not a dict", ["scenario"]),
    ]
    for label, elements in cases:
        print("-" * 78)
        print("HANDCRAFTED:", label)
        parser = Recording()
        try:
            features = parser.parse_features([feature_data(elements),
                                              feature_data([element("scenario", name="Second")])])
        except Exception as e:  # pylint: disable=broad-except
            print("raised", type(e).__name__, repr(e.args))
        else:
            for feature in features:
                try:
                    describe_feature(feature)
                except Exception as e:  # pylint: disable=broad-except
                    print("describe_feature raised", type(e).__name__, repr(e.args))
        print("calls:", parser.calls)
        outline = parser.current_scenario_outline
        print("current_scenario_outline:", outline and (type(outline).__name__, outline.name))

    print("-" * 78)
    print("DIRECT add_feature_element")
    from behave.model import Feature
    parser = Recording()
    feature = Feature(u"x.feature", 1, u"Feature", u"X")
    for type_ in ("scenario", "background", "scenario_outline", "scenario", "nothing"):
        try:
            result = parser.add_feature_element(feature, element(type_, name=type_))
            print(type_, "->", result)
        except Exception as e:  # pylint: disable=broad-except
            print(type_, "raised", type(e).__name__, repr(e.args))
    describe_feature(feature)
    print("calls:", parser.calls)
    for bad in ([], None):
        try:
            print(JsonParser().parse_features(bad))
        except Exception as e:  # pylint: disable=broad-except
            print("parse_features(%r) raised" % (bad,), type(e).__name__, repr(e.args))


def main():
    handcrafted()
    root = make_tree()
    try:
        show_run(root, ["--no-color", "-f", "json", "-o", "c.json",
                        "-f", "json.pretty", "-o", "p.json", "-f", "progress"])
        parse_back(root, "c.json")
        parse_back(root, "p.json")
        show_run(root, ["--no-color", "-f", "json", "-o", "c.json", "-f", "plain",
                        "--tags=-skip_me", "--show-skipped", "--no-timings"],
                 {"TWIN_ATTACH": "1"})
        parse_back(root, "c.json")
        show_run(root, ["--no-color", "-f", "json.pretty", "-o", "p.json",
                        "--dry-run", "--no-skipped", "-f", "progress3"])
        parse_back(root, "p.json")
        show_run(root, ["--no-color", "-f", "json.pretty", "-o", "p.json",
                        "features/delta.feature", "features/gamma.feature"])
        parse_back(root, "p.json")
        show_run(root, ["--no-color", "-f", "json", "-o", "c.json",
                        "features/nothing_here"])
        parse_back(root, "c.json")
        parse_back(root, "does_not_exist.json")
        with io.open(os.path.join(root, "obj.json"), "w", encoding="utf-8") as f:
            f.write(u'{"not": "a list"}')
        parse_back(root, "obj.json")
    finally:
        shutil.rmtree(root)


if __name__ == "__main__":
    main()
