# -*- coding: UTF-8 -*-
# Shared harness text (copied verbatim into every equiv.py -- each equiv.py is self-contained).
from __future__ import absolute_import, print_function
import sys
sys.path.insert(0, "/tmp/wtW/C14")
import io
import os
import re
import shutil
import subprocess
import tempfile
import traceback

PYTHON = "/venv/bin/python"
WORKTREE = "/tmp/wtW/C14"
FORMATS = ["v1", "v1A", "v1B", "v2", "v3", "passed_first", "entity_first", "bogus"]

# ---------------------------------------------------------------------------
# PROJECT FIXTURE
# ---------------------------------------------------------------------------
STEPS_PY = u'''
from behave import given, when, then, step
from behave.api.pending_step import StepNotImplementedError

@step(u'a step passes')
def step_passes(ctx):
    pass

@step(u'another step passes')
def step_passes2(ctx):
    pass

@step(u'a step fails')
def step_fails(ctx):
    assert False, "XFAIL-STEP"

@step(u'a step errors')
def step_errors(ctx):
    raise RuntimeError("OOPS-STEP")

@step(u'a step is pending')
def step_pending(ctx):
    raise StepNotImplementedError("PENDING-STEP")

@step(u'a step with "{outcome}"')
def step_with_outcome(ctx, outcome):
    if outcome == "fail":
        assert False, "XFAIL-ROW"
    elif outcome == "error":
        raise ValueError("OOPS-ROW")
    elif outcome == "interrupt":
        raise KeyboardInterrupt()

@step(u'the user interrupts')
def step_interrupts(ctx):
    raise KeyboardInterrupt()
'''

ENVIRONMENT_PY = u'''
def before_feature(ctx, feature):
    if "hookerr.before_feature" in feature.tags:
        raise RuntimeError("HOOK-ERROR before_feature")

def after_feature(ctx, feature):
    if "hookerr.after_feature" in feature.tags:
        raise RuntimeError("HOOK-ERROR after_feature")

def before_rule(ctx, rule):
    if "hookerr.before_rule" in rule.tags:
        raise RuntimeError("HOOK-ERROR before_rule")

def before_scenario(ctx, scenario):
    if "hookerr.before_scenario" in scenario.effective_tags:
        raise RuntimeError("HOOK-ERROR before_scenario")
    if "hookfail.before_scenario" in scenario.effective_tags:
        assert False, "HOOK-FAILED before_scenario"

def after_scenario(ctx, scenario):
    if "hookerr.after_scenario" in scenario.effective_tags:
        raise RuntimeError("HOOK-ERROR after_scenario")

def before_step(ctx, step):
    if step.name == "a step passes" and "hookerr.before_step" in ctx.scenario.effective_tags:
        raise RuntimeError("HOOK-ERROR before_step")

def before_tag(ctx, tag):
    if tag == "hookerr.before_tag":
        raise RuntimeError("HOOK-ERROR before_tag")
'''

FEATURES = {
    "a_basic.feature": u'''
Feature: Basic
  Background:
    Given a step passes

  Scenario: B1 passes
    When another step passes
    Then a step passes

  Scenario: B2 fails
    When a step fails
    Then a step passes

  Scenario: B3 errors
    When a step errors
    Then another step passes

  @wip
  Scenario: B4 undefined
    When a step is not defined anywhere
    Then a step passes

  Scenario: B5 pending
    When a step is pending
    Then a step passes

  Scenario: B6 empty
''',
    "b_rules.feature": u'''
Feature: Rules and outlines
  Background:
    Given a step passes

  Scenario: R0 outside rule
    Then another step passes

  Scenario Outline: O0 outside rule <name>
    When a step with "<outcome>"
    Then a step passes

    Examples: first
      | name  | outcome |
      | alice | pass    |
      | bob   | fail    |

    @slow
    Examples: second
      | name  | outcome |
      | carol | error   |
      | dave  | pass    |

  Rule: First rule
    Background:
      Given another step passes

    Scenario: R1.1
      When a step passes

    Scenario Outline: R1.O <name>
      When a step with "<outcome>"

      Examples:
        | name | outcome |
        | eve  | pass    |
        | fred | fail    |
        | gus  | pass    |

  @slow
  Rule: Second rule (all pass)
    Scenario: R2.1
      When a step passes

    @skipme
    Scenario: R2.2
      When a step fails

  Rule: Third rule (empty)
''',
    "c_hooks.feature": u'''
Feature: Hook problems

  @hookerr.before_scenario
  Scenario: H1 before_scenario hook error
    Given a step passes

  @hookerr.after_scenario
  Scenario: H2 after_scenario hook error
    Given a step passes

  @hookerr.before_step
  Scenario: H3 before_step hook error
    Given another step passes
    When a step passes
    Then another step passes

  @hookfail.before_scenario
  Scenario: H4 before_scenario hook assertion
    Given a step passes

  @hookerr.before_tag
  Scenario: H5 before_tag hook error
    Given a step passes

  @hookerr.before_rule
  Rule: HR with hook error
    Scenario: HR.1
      Given a step passes

    Scenario Outline: HR.O <n>
      Given a step with "<n>"
      Examples:
        | n    |
        | pass |
        | pass |
''',
    "d_hookfeature.feature": u'''
@hookerr.before_feature
Feature: Feature hook error
  Scenario: F1
    Given a step passes
  Scenario: F2
    Given a step fails
''',
    "e_after.feature": u'''
@hookerr.after_feature
Feature: After feature hook error
  Scenario: G1
    Given a step passes
''',
    "f_interrupt.feature": u'''
Feature: Interrupted
  Scenario: I1 passes
    Given a step passes

  Scenario: I2 interrupts
    Given a step passes
    When the user interrupts
    Then a step passes

  Scenario: I3 never runs
    Given a step passes
''',
    "g_last.feature": u'''
@slow
Feature: Last
  Scenario: L1
    Given a step passes
    And another step passes

  Scenario Outline: L2 <v>
    Given a step with "<v>"
    Examples:
      | v     |
      | pass  |
      | error |
''',
    "h_empty.feature": u'''
Feature: Nothing inside
''',
}

RUNS = [
    # (label, feature files (None=all but interrupt), extra args)
    ("all", None, []),
    ("all.stop", None, ["--stop"]),
    ("all.dry-run", None, ["--dry-run"]),
    ("all.tags=slow", None, ["--tags=slow"]),
    ("all.tags=not-slow-not-skipme", None, ["--tags=not slow", "--tags=not skipme"]),
    ("all.name=R1", None, ["--name=R1"]),
    ("all.wip", None, ["--wip"]),
    ("all.no-summary", None, ["--no-summary"]),
    ("basic", ["a_basic.feature"], []),
    ("basic:line", ["a_basic.feature:10"], []),
    ("rules", ["b_rules.feature"], []),
    ("rules.stop", ["b_rules.feature"], ["--stop"]),
    ("rules.dry-run", ["b_rules.feature"], ["--dry-run"]),
    ("hooks", ["c_hooks.feature", "d_hookfeature.feature", "e_after.feature"], []),
    ("interrupt", ["a_basic.feature", "f_interrupt.feature", "g_last.feature"], []),
    ("empty", ["h_empty.feature"], []),
    ("last.userdata=v2", ["g_last.feature"],
     ["-D", "behave.reporter.summary.output_format=v2"]),
    ("last.userdata=entity_first", ["g_last.feature"],
     ["-D", "behave.reporter.summary.output_format=entity_first"]),
    ("last.userdata=bogus", ["g_last.feature"],
     ["-D", "behave.reporter.summary.output_format=bogus"]),
]


def make_project(basedir):
    features_dir = os.path.join(basedir, "features")
    os.makedirs(os.path.join(features_dir, "steps"))
    with io.open(os.path.join(features_dir, "steps", "steps.py"), "w", encoding="utf-8") as f:
        f.write(STEPS_PY)
    with io.open(os.path.join(features_dir, "environment.py"), "w", encoding="utf-8") as f:
        f.write(ENVIRONMENT_PY)
    for name, text in FEATURES.items():
        with io.open(os.path.join(features_dir, name), "w", encoding="utf-8") as f:
            f.write(text)


# ---------------------------------------------------------------------------
# CHILD: One behave run in a fresh process
# ---------------------------------------------------------------------------
TOOK = re.compile(r"^Took \d+m\d+\.\d+s$", re.M)


def scrub(text):
    text = TOOK.sub("Took <DURATION>", text)
    text = re.sub(r"0x[0-9a-fA-F]+", "0x?", text)
    return text


def describe_exception(e):
    return "%s: %s" % (e.__class__.__name__, scrub(str(e)))


def census(features):
    """Direct census of the model: status of every element, in walk order."""
    from behave.model import Rule, ScenarioOutline
    lines = []

    def walk(container, indent):
        for item in container.run_items:
            if isinstance(item, Rule):
                lines.append("%srule %s: %s hook_failed=%s" % (
                    indent, item.name, item.status.name, item.hook_failed))
                walk(item, indent + "  ")
            elif isinstance(item, ScenarioOutline):
                lines.append("%soutline %s: %s" % (indent, item.name, item.status.name))
                for scenario in item.scenarios:
                    show_scenario(scenario, indent + "  ")
            else:
                show_scenario(item, indent)

    def show_scenario(scenario, indent):
        lines.append("%sscenario %s: %s hook_failed=%s steps=[%s]" % (
            indent, scenario.name, scenario.status.name, scenario.hook_failed,
            ", ".join("%s%s" % (step.status.name, "!" if step.hook_failed else "")
                      for step in scenario)))

    for feature in features:
        lines.append("feature %s: %s hook_failed=%s" % (
            feature.name, feature.status.name, feature.hook_failed))
        walk(feature, "  ")
    return lines


def show_reporter(reporter_class, output_format, config, features, out, call_log=None):
    """Feed the features to a fresh reporter, print what it wrote and its state."""
    from behave.reporter.summary import SummaryReporterV1, SummaryReporterV2
    label = "%s/%s" % (reporter_class.__name__, output_format)
    stream = io.StringIO()
    stdout_capture = io.StringIO()
    real_stdout = sys.stdout
    reporter = reporter_class(config)
    reporter.stream = stream
    if output_format is not None:
        reporter.output_format = output_format
    out("  -- %s (effective output_format=%s)" % (label, reporter.output_format))
    sys.stdout = stdout_capture
    try:
        try:
            for feature in features:
                reporter.feature(feature)
            reporter.end()
            outcome = "OK"
        except Exception as e:  # pylint: disable=broad-except
            outcome = "RAISED " + describe_exception(e)
    finally:
        sys.stdout = real_stdout
    out("     outcome: %s" % outcome)
    for line in scrub(stream.getvalue()).splitlines():
        out("     | %s" % line)
    for line in scrub(stdout_capture.getvalue()).splitlines():
        out("     stdout| %s" % line)
    out("     failed_scenarios : %r" % [s.name for s in reporter.failed_scenarios])
    out("     errored_scenarios: %r" % [s.name for s in reporter.errored_scenarios])
    if isinstance(reporter, SummaryReporterV1):
        for name in ("feature_summary", "rule_summary", "scenario_summary", "step_summary"):
            table = getattr(reporter, name)
            out("     %s (%s): %s" % (name, type(table).__name__,
                                    ", ".join("%s=%r" % kv for kv in table.items())))
    if isinstance(reporter, SummaryReporterV2):
        counts = reporter.summary_counts
        for name, value in counts.as_dict(nested=True).items():
            out("     counts.%s: %s" % (name, ", ".join("%s=%r" % kv for kv in value.items())))
        out("     counts.str: %s" % str(counts).replace("\n", " // "))
        out("     failed_features : %r" % [f.name for f in reporter.failed_features])
        out("     errored_features: %r" % [f.name for f in reporter.errored_features])
    return reporter


def child_main(argv):
    basedir = argv[0]
    args = argv[1:]
    os.chdir(basedir)
    from behave.configuration import Configuration
    from behave.runner import Runner
    from behave.reporter.base import Reporter
    from behave.reporter.summary import SummaryReporterV1, SummaryReporterV2
    from behave.summary import SummaryCollector, SummaryCounts

    lines = []
    out = lines.append

    class Recorder(Reporter):
        def __init__(self, config):
            Reporter.__init__(self, config)
            self.features = []
            self.calls = []

        def feature(self, feature):
            self.calls.append("feature(%s: %s)" % (feature.name, feature.status.name))
            self.features.append(feature)

        def end(self):
            self.calls.append("end()")

    config = Configuration(command_args=["-f", "null"] + args, load_config=False)
    pipeline_stream = io.StringIO()
    out("  reporters configured: %r" % [r.__class__.__name__ for r in config.reporters])
    for reporter in config.reporters:
        if hasattr(reporter, "stream"):
            reporter.stream = pipeline_stream
            out("  pipeline reporter output_format=%s" % reporter.output_format)
    recorder = Recorder(config)
    config.reporters.append(recorder)
    runner = Runner(config)
    captured = io.StringIO()
    real_stdout, real_stderr = sys.stdout, sys.stderr
    sys.stdout = sys.stderr = captured
    try:
        try:
            failed = runner.run()
            out("  runner.run() -> %r; aborted=%r" % (failed, runner.aborted))
        except BaseException as e:  # pylint: disable=broad-except
            out("  runner.run() RAISED %s" % describe_exception(e))
    finally:
        sys.stdout, sys.stderr = real_stdout, real_stderr
    out("  reporter calls: %s" % "; ".join(recorder.calls))
    out("  -- pipeline summary text")
    for line in scrub(pipeline_stream.getvalue()).splitlines():
        out("     | %s" % line)
    features = runner.features
    out("  -- census")
    for line in census(features):
        out("     " + line)

    for reporter_class in (SummaryReporterV1, SummaryReporterV2):
        for output_format in [None] + FORMATS:
            show_reporter(reporter_class, output_format, config, features, out)

    # -- COLLECTOR on its own: visit_many, call-adapter, single elements
    out("  -- collector alone")
    collector = SummaryCollector()
    result = collector.visit_many(features)
    out("     visit_many -> %r; duration>=0: %r" % (result, collector.duration >= 0))
    out("     counts: %s" % str(collector.summary_counts).replace("\n", " // "))
    out("     features: %s" % collector.summary_counts.features)
    out("     failed_scenarios : %r" % [s.name for s in collector.failed_scenarios])
    out("     errored_scenarios: %r" % [s.name for s in collector.errored_scenarios])
    out("     failed_features  : %r" % [s.name for s in collector.failed_features])
    out("     errored_features : %r" % [s.name for s in collector.errored_features])
    out("     has_failures_or_errors: %r" % collector.has_failures_or_errors())
    from behave.reporter.summary import OUTPUT_FORMAT_MAP
    for format_name in sorted(OUTPUT_FORMAT_MAP):
        format_summary = OUTPUT_FORMAT_MAP[format_name]
        for kind, counts in collector.summary_counts.items():
            for table in (counts.as_dict(), dict(counts.as_dict(), all=counts.all)):
                try:
                    text = format_summary(kind.rstrip("s"), table)
                except Exception as e:  # pylint: disable=broad-except
                    text = "RAISED " + describe_exception(e)
                out("     %-4s %r" % (format_name, text))
    collector2 = SummaryCollector(SummaryCounts())
    out("     call(list) -> %r" % collector2(list(features)))
    out("     call(tuple) -> %r" % collector2(tuple(features)))
    out("     counts(after 2x): %s" % str(collector2.summary_counts).replace("\n", " // "))
    for feature in features:
        for item in feature.run_items:
            single = SummaryCollector()
            out("     visit(%s %s) -> %r : %s" % (
                item.__class__.__name__, item.name, single.visit(item),
                str(single.summary_counts).replace("\n", " // ")))
            out("       problematic: failed=%r errored=%r" % (
                [s.name for s in single.failed_scenarios],
                [s.name for s in single.errored_scenarios]))
        for scenario in feature.walk_scenarios():
            for step in scenario:
                single = SummaryCollector()
                out("     call(step %s) -> %r : %s" % (
                    step.name, single(step), single.summary_counts.steps))
                break
            break
    for bad in (None, 42, "feature", object):
        try:
            out("     visit(%r) -> %r" % (bad, SummaryCollector().visit(bad)))
        except Exception as e:  # pylint: disable=broad-except
            out("     visit(%r) RAISED %s" % (bad, describe_exception(e)))
    sys.stdout.write("\n".join(lines) + "\n")


def run_child(script, basedir, args):
    env = dict(os.environ)
    env["PYTHONPATH"] = WORKTREE
    env["PYTHONDONTWRITEBYTECODE"] = "1"
    env["PYTHONHASHSEED"] = "0"
    proc = subprocess.Popen([PYTHON, script, "--child", basedir] + args,
                            stdout=subprocess.PIPE, stderr=subprocess.STDOUT, env=env)
    output = proc.communicate()[0].decode("utf-8", "replace")
    return proc.returncode, output


def run_all_behave_runs(script):
    basedir = tempfile.mkdtemp(prefix="c14twin_")
    try:
        make_project(basedir)
        default_files = sorted(name for name in FEATURES if name != "f_interrupt.feature")
        for label, files, extra in RUNS:
            files = files or default_files
            args = extra + [os.path.join("features", name) for name in files]
            print("=" * 78)
            print("RUN %s: %s" % (label, " ".join(args)))
            returncode, output = run_child(script, basedir, args)
            print("  child returncode: %d" % returncode)
            sys.stdout.write(output.replace(basedir, "<BASEDIR>"))
    finally:
        shutil.rmtree(basedir, ignore_errors=True)


# ---------------------------------------------------------------------------
# DIRECT: format functions on many count tables (dict and StatusCounts)
# ---------------------------------------------------------------------------
def direct_format_checks():
    import itertools
    from behave.model_core import Status
    from behave.summary import StatusCounts, HookErrorCounts, SummaryCounts, STATUS_ORDER
    from behave.reporter import summary as rs

    print("=" * 78)
    print("DIRECT format checks")
    names = [s.name for s in STATUS_ORDER] + ["cleanup_error"]
    tables = []
    tables.append(("empty", {}))
    tables.append(("only-all", {"all": 7}))
    tables.append(("zeros", dict.fromkeys(["all"] + names, 0)))
    tables.append(("ones", dict(dict.fromkeys(names, 1), all=len(names))))
    tables.append(("no-all", {"passed": 2, "failed": 1, "skipped": 0, "untested": 3}))
    tables.append(("wrong-all", {"all": 99, "passed": 1, "failed": 0, "error": 2}))
    tables.append(("passed=1", {"all": 1, "passed": 1, "failed": 0, "skipped": 0}))
    tables.append(("passed=0", {"all": 4, "passed": 0, "failed": 4}))
    tables.append(("no-passed", {"failed": 1, "error": 1, "hook_error": 1}))
    tables.append(("unknown-names", {"all": 3, "xfailed": 3, "executing": 1, "passed": 1}))
    tables.append(("big", {"all": 123456, "passed": 123000, "failed": 400, "skipped": 56}))
    tables.append(("floats", {"passed": 1.0, "failed": 2.5}))
    for i, combo in enumerate(itertools.combinations(names, 3)):
        if i % 7 == 0:
            table = dict((name, (k * 2) % 3) for k, name in enumerate(combo))
            tables.append(("combo%d" % i, table))
            table = dict(table, all=sum(table.values()))
            tables.append(("combo%d+all" % i, table))
    tables.append(("StatusCounts()", StatusCounts()))
    tables.append(("StatusCounts(p3,f1)", StatusCounts.from_counts(passed=3, failed=1)))
    tables.append(("StatusCounts(all kinds)", StatusCounts.from_counts(
        passed=1, failed=2, error=3, skipped=4, untested=5, pending=6, pending_warn=7,
        untested_pending=8, undefined=9, untested_undefined=10, hook_error=11,
        cleanup_error=12)))
    tables.append(("HookErrorCounts", HookErrorCounts.from_counts(on_feature=1, on_step=2)))

    functions = [
        ("v1", rs.format_summary_v1), ("v1A", rs.format_summary_v1A),
        ("v1B", rs.format_summary_v1B), ("v2", rs.format_summary_v2),
        ("v3", rs.format_summary_v3),
    ]
    for label, table in tables:
        print("TABLE %s" % label)
        for statement in ("feature", "step", "hook.errors"):
            for func_name, func in functions:
                try:
                    print("  %-4s %-11s %r" % (func_name, statement, func(statement, table)))
                except Exception as e:  # pylint: disable=broad-except
                    print("  %-4s %-11s RAISED %s" % (func_name, statement, describe_exception(e)))
        for kwargs in (
                {}, {"end": ""}, {"use_passed_for_all": True},
                {"use_passed_for_all": True, "item_schema": "{name}={value}"},
                {"item_schema": "<{value}|{name}>", "schema": "{statement}:{count}[{parts}]{suffix}{end}"},
                {"schema": "", "item_schema": ""},
                {"schema": "{missing}"},
        ):
            try:
                text = rs.format_summary_with_schema("scenario", table, **kwargs)
                print("  schema %r -> %r" % (sorted(kwargs.items()), text))
            except Exception as e:  # pylint: disable=broad-except
                print("  schema %r RAISED %s" % (sorted(kwargs.items()), describe_exception(e)))
        try:
            print("  compute_summary_sum -> %r" % rs.compute_summary_sum(table))
        except Exception as e:  # pylint: disable=broad-except
            print("  compute_summary_sum RAISED %s" % describe_exception(e))
    for bad in (None, [], [("passed", 1)], 5):
        for func_name, func in functions:
            try:
                print("  %s(%r) -> %r" % (func_name, bad, func("rule", bad)))
            except Exception as e:  # pylint: disable=broad-except
                print("  %s(%r) RAISED %s" % (func_name, bad, describe_exception(e)))
    for name in ("v1", "v2", "v3", "v1A", "v1B", "v4", "", None):
        buf, real = io.StringIO(), sys.stdout
        sys.stdout = buf
        try:
            func = rs.select_format_summary_by_name(name)
        finally:
            sys.stdout = real
        print("  select(%r) -> %s ; printed %r" % (name, func.__name__, buf.getvalue()))
    for word, count in (("step", 0), ("step", 1), ("step", 2), ("", 1), ("x", -1), ("x", 1.0)):
        print("  pluralize(%r, %r) -> %r" % (word, count, rs.pluralize(word, count)))


# ---------------------------------------------------------------------------
# EXTRA (t14): ModelVisitor dispatch, call adapter, cancellation, call order
# ---------------------------------------------------------------------------
VISITOR_FEATURE_TEXT = u'''
Feature: Visitor tree
  Background:
    Given a background step

  Scenario: S1
    When a step

  Scenario Outline: SO <n>
    When a step <n>
    Then a step
    Examples:
      | n |
      | 1 |
      | 2 |

  Rule: R1
    Scenario: R1.S1
      Given a step
    Scenario Outline: R1.SO <n>
      When a step <n>
      Examples:
        | n |
        | 3 |

  Rule: R2 (empty)
'''


def extra_checks():
    from behave.parser import parse_feature
    from behave.model import Feature, Rule, Scenario, ScenarioOutline, Step
    from behave.model_visitor import ModelVisitor, IModelVisitor
    from behave.summary import SummaryCollector

    print("=" * 78)
    print("EXTRA t14: visitor dispatch")

    def name_of(item):
        return "%s(%s)" % (item.__class__.__name__, getattr(item, "name", "?"))

    class LoggingDelegate(IModelVisitor):
        def __init__(self, answers=None):
            self.log = []
            self.answers = answers or {}

        def _on(self, kind, item):
            self.log.append("%s:%s" % (kind, item.name))
            return self.answers.get((kind, item.name), self.answers.get(kind))

        def on_feature(self, feature): return self._on("feature", feature)
        def on_rule(self, rule): return self._on("rule", rule)
        def on_scenario_outline(self, scenario_outline): return self._on("outline", scenario_outline)
        def on_scenario(self, scenario): return self._on("scenario", scenario)
        def on_step(self, step): return self._on("step", step)

    class LoggingWalker(ModelVisitor):
        """Inheritance-based visitor that logs which visit_xxx() is used."""
        def __init__(self):
            ModelVisitor.__init__(self)
            self.log = []
        def visit_feature(self, feature):
            self.log.append("visit_feature:" + feature.name)
            return ModelVisitor.visit_feature(self, feature)
        def visit_rule(self, rule):
            self.log.append("visit_rule:" + rule.name)
            return ModelVisitor.visit_rule(self, rule)
        def visit_scenario_outline(self, scenario_outline):
            self.log.append("visit_scenario_outline:" + scenario_outline.name)
            return ModelVisitor.visit_scenario_outline(self, scenario_outline)
        def visit_scenario(self, scenario):
            self.log.append("visit_scenario:" + scenario.name)
            return ModelVisitor.visit_scenario(self, scenario)
        def visit_step(self, step):
            self.log.append("visit_step:" + step.name)
            return ModelVisitor.visit_step(self, step)

    class MyOutline(ScenarioOutline):
        pass

    def new_feature():
        return parse_feature(VISITOR_FEATURE_TEXT, filename="visitor.feature")

    feature = new_feature()
    rule = feature.rules[0]
    outline = [x for x in feature.run_items if isinstance(x, ScenarioOutline)][0]
    scenario = feature.run_items[0]
    step = scenario.steps[0]
    items = [("feature", feature), ("rule", rule), ("outline", outline),
             ("scenario", scenario), ("step", step), ("empty rule", feature.rules[1]),
             ("row scenario", outline.scenarios[0])]

    answer_sets = [
        {}, {"feature": False}, {"feature": True}, {"feature": 0}, {"feature": ""},
        {"feature": "go"}, {"rule": False}, {"outline": False}, {"scenario": False},
        {"step": False}, {"step": 0}, {"step": []}, {"step": 1},
        {("scenario", "R1.S1"): False}, {("step", "a step 2"): False},
        {("outline", "R1.SO <n>"): 0.0}, {("rule", "R2 (empty)"): False},
    ]
    for answers in answer_sets:
        for label, item in items:
            for use_call in (False, True):
                delegate = LoggingDelegate(answers)
                visitor = ModelVisitor(delegate)
                func = visitor if use_call else visitor.visit
                try:
                    result = repr(func(item))
                except Exception as e:  # pylint: disable=broad-except
                    result = "RAISED " + describe_exception(e)
                print("  answers=%r %s %s -> %s" % (
                    sorted(answers.items(), key=str), "call" if use_call else "visit", label, result))
                print("     log: %s" % " ".join(delegate.log))

    print("  -- containers via call adapter")
    for container in ([], (), [feature], (feature, rule), [step, scenario, outline],
                      [feature, 42], (None,), [[feature]], iter([feature]), {"f": feature},
                      set(), "text", u"", 0, None, 3.5, object, Feature, b"bytes"):
        delegate = LoggingDelegate()
        visitor = ModelVisitor(delegate)
        shown = scrub(repr(container)) if not isinstance(container, (list, tuple, dict)) \
            else "%s[%d]" % (type(container).__name__, len(container))
        try:
            result = repr(visitor(container))
        except Exception as e:  # pylint: disable=broad-except
            result = "RAISED " + scrub(describe_exception(e))
        print("  call(%s) -> %s ; log=%d entries" % (shown, result, len(delegate.log)))
        try:
            result = repr(ModelVisitor(LoggingDelegate()).visit(container))
        except Exception as e:  # pylint: disable=broad-except
            result = "RAISED " + scrub(describe_exception(e))
        print("  visit(%s) -> %s" % (shown, result))

    print("  -- which visit method is chosen")
    walker = LoggingWalker()
    print("  walker.visit(feature) -> %r" % walker.visit(feature))
    print("     log: %s" % " ".join(walker.log))
    for label, item in items:
        walker = LoggingWalker()
        result = walker(item)
        print("  walker(%s) -> %r ; first=%s ; n=%d" % (label, result, walker.log[0], len(walker.log)))
    custom = MyOutline(outline.filename, outline.line, outline.keyword, "custom outline",
                       steps=outline.steps, examples=outline.examples)
    walker = LoggingWalker()
    print("  walker(subclass of ScenarioOutline) -> %r" % walker.visit(custom))
    print("     log: %s" % " ".join(walker.log))

    print("  -- instance-level override of a visit method is honoured")
    walker = LoggingWalker()
    walker.visit_rule = lambda rule: walker.log.append("INSTANCE visit_rule:" + rule.name) or "stop"
    print("  walker.visit(feature) -> %r" % walker.visit(feature))
    print("     log: %s" % " ".join(walker.log))
    walker = LoggingWalker()
    walker.visit_step = lambda step: False
    print("  walker.visit(feature) with visit_step->False -> %r" % walker.visit(feature))
    print("     log: %s" % " ".join(walker.log))

    print("  -- visit_many / visit_items_of with own visit_func")
    seen = []
    visitor = ModelVisitor(LoggingDelegate())
    print("  visit_many(custom) -> %r" % visitor.visit_many(
        [1, 2, 3, 4], visit_func=lambda x: seen.append(x) or (x < 3)))
    print("     seen: %r" % seen)
    print("  visit_items_of(rule, len-name) -> %r" % visitor.visit_items_of(
        rule, visit_func=lambda x: len(x.name) < 100))
    print("  visit_many([]) -> %r" % visitor.visit_many([]))

    print("  -- collector is a visitor of itself")
    collector = SummaryCollector()
    print("  collector.visitor is collector: %r" % (collector.visitor is collector))
    print("  collector(feature) -> %r : %s" % (
        collector(new_feature()), str(collector.summary_counts).replace("\n", " // ")))
    print("  collector([f, f]) -> %r : %s" % (
        collector([new_feature(), new_feature()]),
        str(collector.summary_counts).replace("\n", " // ")))
    try:
        ModelVisitor(visitor=object())
    except AssertionError as e:
        print("  ModelVisitor(object()) RAISED %s" % scrub(describe_exception(e)))


if __name__ == "__main__":
    if len(sys.argv) > 1 and sys.argv[1] == "--child":
        child_main(sys.argv[2:])
    else:
        direct_format_checks()
        extra_checks()
        sys.stdout.flush()
        run_all_behave_runs(os.path.abspath(__file__))
