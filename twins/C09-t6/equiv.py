# -*- coding: utf-8 -*-
# Shared harness core (copied verbatim into every equiv.py so each is self-contained).
from __future__ import print_function, unicode_literals
import sys
sys.path.insert(0, "/tmp/wtU/C09")
import io
import logging
import contextlib

import behave
assert behave.__file__.startswith("/tmp/wtU/C09/"), behave.__file__
from behave.configuration import Configuration
from behave.runner import ModelRunner
from behave.parser import parse_feature
from behave.step_registry import StepRegistry
from behave.model_core import Status
from behave.tag_expression import TagExpressionProtocol
from behave import model as M

OUT = []


def emit(text=""):
    OUT.append(text)


# -- STEP REGISTRY with logging step functions -------------------------------
CALLS = []
REGISTRY = StepRegistry()
_step = REGISTRY.make_decorator("step")


@_step(u'a step passes')
def step_passes(ctx):
    CALLS.append("STEP passes")


@_step(u'another step passes')
def step_passes2(ctx):
    CALLS.append("STEP another-passes")


@_step(u'a step fails')
def step_fails(ctx):
    CALLS.append("STEP fails")
    assert False, "XFAIL"


@_step(u'a background step passes')
def step_bg(ctx):
    CALLS.append("STEP background")


@_step(u'I use "{value}"')
def step_use(ctx, value):
    CALLS.append("STEP use %s" % value)


@_step(u'the scenario skips itself')
def step_skip_self(ctx):
    CALLS.append("STEP skip-self")
    ctx.scenario.skip("SELF")


class LogFormatter(object):
    """Records every formatter callback."""
    name = "log"

    def uri(self, uri):
        CALLS.append("FMT uri %s" % uri)

    def feature(self, feature):
        CALLS.append("FMT feature %s" % feature.name)

    def rule(self, rule):
        CALLS.append("FMT rule %s" % rule.name)

    def rule_finished(self):
        CALLS.append("FMT rule_finished")

    def background(self, background):
        CALLS.append("FMT background %s" % background.name)

    def scenario(self, scenario):
        CALLS.append("FMT scenario %s" % scenario.name)

    def step(self, step):
        CALLS.append("FMT step %s" % step.name)

    def match(self, match):
        CALLS.append("FMT match %s" % type(match).__name__)

    def result(self, step):
        CALLS.append("FMT result %s %s" % (step.name, step.status.name))

    def eof(self):
        CALLS.append("FMT eof")

    def close(self):
        CALLS.append("FMT close")


class LogReporter(object):
    def feature(self, feature):
        CALLS.append("REP feature %s %s" % (feature.name, feature.status.name))

    def end(self):
        CALLS.append("REP end")


def make_hooks(mode=None):
    """Hooks that log every call; 'mode' adds special behaviour."""
    def tagstr(ctx):
        return ",".join(sorted(ctx.tags))

    def before_all(ctx):
        CALLS.append("HOOK before_all")

    def after_all(ctx):
        CALLS.append("HOOK after_all")

    def before_feature(ctx, feature):
        CALLS.append("HOOK before_feature %s [%s]" % (feature.name, tagstr(ctx)))
        if mode == "skip_feature_in_hook" and "hookskip" in feature.tags:
            feature.skip("HOOK-SKIP")
        if mode == "mark_feature_in_hook" and "hookskip" in feature.tags:
            feature.mark_skipped()
        if mode == "fail_feature_hook" and "hookskip" in feature.tags:
            raise RuntimeError("FEATURE-HOOK-OOPS")

    def after_feature(ctx, feature):
        CALLS.append("HOOK after_feature %s %s" % (feature.name, feature.status.name))

    def before_rule(ctx, rule):
        CALLS.append("HOOK before_rule %s [%s]" % (rule.name, tagstr(ctx)))
        if mode == "skip_rule_in_hook" and "rskip" in rule.tags:
            rule.skip("RULE-HOOK-SKIP")

    def after_rule(ctx, rule):
        CALLS.append("HOOK after_rule %s %s" % (rule.name, rule.status.name))

    def before_scenario(ctx, scenario):
        CALLS.append("HOOK before_scenario %s [%s]" % (scenario.name, tagstr(ctx)))
        if mode == "skip_scenario_in_hook" and "sskip" in scenario.effective_tags:
            scenario.skip("SCENARIO-HOOK-SKIP")
        if mode == "mark_scenario_in_hook" and "sskip" in scenario.effective_tags:
            scenario.mark_skipped()
        if mode == "fail_scenario_hook" and "sskip" in scenario.effective_tags:
            raise RuntimeError("SCENARIO-HOOK-OOPS")

    def after_scenario(ctx, scenario):
        CALLS.append("HOOK after_scenario %s %s" % (scenario.name, scenario.status.name))
        if mode == "fail_after_scenario" and "sskip" in scenario.effective_tags:
            raise RuntimeError("AFTER-SCENARIO-OOPS")

    def before_step(ctx, step):
        CALLS.append("HOOK before_step %s" % step.name)

    def after_step(ctx, step):
        CALLS.append("HOOK after_step %s %s" % (step.name, step.status.name))

    def before_tag(ctx, tag):
        CALLS.append("HOOK before_tag %s" % tag)

    def after_tag(ctx, tag):
        CALLS.append("HOOK after_tag %s" % tag)

    return dict((k, v) for k, v in locals().items()
                if k.startswith("before_") or k.startswith("after_"))


# -- FEATURE TEXTS --------------------------------------------------------------
FEATURES = {}
FEATURES["plain"] = u'''
@f1 @common
Feature: Plain
  Background: BG
    Given a background step passes

  @s1 @sskip
  Scenario: P1
    Given a step passes
    When another step passes

  @s2
  Scenario: P2
    Given a step fails
    Then a step passes

  Scenario: P3 untagged
    Given a step passes

  @s4 @wip.one
  Scenario: P4 without steps
'''
FEATURES["rules"] = u'''
@f2 @hookskip
Feature: WithRules

  @s0
  Scenario: R0 before rules
    Given a step passes

  @r1 @rskip
  Rule: Rule One
    Background: RBG
      Given a background step passes

    @s1
    Scenario: R1.1
      Given a step passes

    Scenario: R1.2 untagged
      Given another step passes

  @r2
  Rule: Rule Two
    @s1 @sskip
    Scenario: R2.1
      Given a step passes
      And an undefined step is here

    @o1 @param_<name>
    Scenario Outline: R2.O <name>
      Given I use "<name>"

      @e1
      Examples: First
        | name  |
        | alice |
        | bob   |

      @e2 @s1
      Examples: Second
        | name  |
        | carol |

  @r3
  Rule: Rule Three empty
'''
FEATURES["outline"] = u'''
@f3
Feature: Outlines

  @o1 @tag_<kind> @unknown_<nothing> @fixed
  Scenario Outline: O1 <kind>-<n>
    Given I use "<kind>"
    When a step passes

    @e1 @sskip
    Examples: Alpha <kind>
      | kind | n |
      | x    | 1 |
      | y    | 2 |

    Examples: Untagged
      | kind | n |
      | z    | 3 |

  @o2
  Scenario Outline: O2 no examples
    Given a step passes

  @o3
  Scenario Template: O3 <v>
    Given the scenario skips itself
    Then a step passes

    @e3
    Examples: E3
      | v |
      | 1 |
      | 2 |
'''
FEATURES["empty"] = u'''
@f4 @empty
Feature: Empty feature
'''
FEATURES["single"] = u'''
Feature: Untagged feature
  Scenario: U1
    Given a step passes
  @only
  Scenario: U2
    Given a step passes
    And a step fails
    And another step passes
'''

TAG_ARGS = [
    [],
    ["--tags=@s1"],
    ["--tags=-@s1"],
    ["--tags=~@s1"],
    ["--tags=not @s1"],
    ["--tags=@f1"],
    ["--tags=not @f1"],
    ["--tags=@f2 and not @r1"],
    ["--tags=@r1"],
    ["--tags=@r2 and @s1"],
    ["--tags=@r3"],
    ["--tags=not @r2"],
    ["--tags=@e1"],
    ["--tags=not @e1"],
    ["--tags=@e2 and @s1"],
    ["--tags=@o1"],
    ["--tags=not @o1"],
    ["--tags=@param_alice"],
    ["--tags=not @param_alice"],
    ["--tags=@param_*"],
    ["--tags=not @param_*"],
    ["--tags=@tag_x or @tag_z"],
    ["--tags=@tag_x,@tag_z"],
    ["--tags=@unknown_*"],
    ["--tags=@param_<name>"],
    ["--tags=@fixed and not @tag_y"],
    ["--tags=@o2"],
    ["--tags=@o3"],
    ["--tags=@wip*"],
    ["--tags=@*.one"],
    ["--tags=@only"],
    ["--tags=not @only"],
    ["--tags=@empty"],
    ["--tags=not @empty"],
    ["--tags=@nosuch"],
    ["--tags=not @nosuch"],
    ["--tags=@s1", "--tags=-@sskip"],
    ["--tags=@s1,@s2", "--tags=@common"],
    ["--tags=(@s1 or @s2) and not (@sskip or @r1)"],
    ["--tags=@common and not @s*"],
]


def describe_model(features):
    for feature in features:
        emit("  MODEL feature %r status=%s skip=%s/%r etags=%s" % (
            feature.name, feature.status.name, feature.should_skip,
            feature.skip_reason, sorted(feature.effective_tags)))
        for item in feature.walk_scenarios(with_outlines=True, with_rules=True):
            kind = type(item).__name__
            emit("    %s %r status=%s skip=%s/%r tags=%s etags=%s" % (
                kind, item.name, item.status.name, item.should_skip,
                item.skip_reason, list(item.tags), sorted(item.effective_tags)))
            if kind == "Scenario":
                emit("      steps: " + "; ".join(
                    "%s=%s" % (s.name, s.status.name) for s in item.all_steps))
                emit("      parent=%s was_dry_run=%s" % (
                    type(item.parent).__name__, item.was_dry_run))


@contextlib.contextmanager
def captured_logging():
    stream = io.StringIO()
    handler = logging.StreamHandler(stream)
    logger = logging.getLogger("behave")
    old_handlers = logger.handlers[:]
    old_propagate = logger.propagate
    logger.handlers = [handler]
    logger.propagate = False
    try:
        yield stream
    finally:
        logger.handlers = old_handlers
        logger.propagate = old_propagate


def run_case(feature_names, args, hook_mode=None, title=None, protocol=None):
    del CALLS[:]
    command_args = list(args) + ["--no-capture", "--no-capture-stderr",
                                 "--no-logcapture", "-f", "null"]
    kwargs = {}
    if protocol:
        kwargs["tag_expression_protocol"] = TagExpressionProtocol.from_name(protocol)
    try:
        config = Configuration(command_args=command_args, load_config=False,
                               **kwargs)
    except Exception as e:  # pylint: disable=broad-except
        emit("=" * 78)
        emit("CASE %s args=%s protocol=%s" % (title or "", args, protocol))
        emit("  CONFIG-EXCEPTION %s: %s" % (type(e).__name__, e))
        return None, None
    finally:
        TagExpressionProtocol.use(TagExpressionProtocol.DEFAULT)
    config.reporters = [LogReporter()]
    features = [parse_feature(FEATURES[n].lstrip(), filename=u"%s.feature" % n)
                for n in feature_names]
    runner = ModelRunner(config, features=features, step_registry=REGISTRY)
    runner.hooks = make_hooks(hook_mode)
    runner.formatters = [LogFormatter()]
    emit("=" * 78)
    emit("CASE %s features=%s args=%s hook_mode=%s protocol=%s" % (
        title or "", ",".join(feature_names), args, hook_mode, protocol))
    stdout = io.StringIO()
    old_stdout = sys.stdout
    sys.stdout = stdout
    try:
        with captured_logging() as logstream:
            try:
                failed = runner.run()
                emit("  RESULT failed=%s hook_failures=%s undefined=%s" % (
                    failed, runner.hook_failures,
                    [s.name for s in runner.undefined_steps]))
            except Exception as e:  # pylint: disable=broad-except
                emit("  EXCEPTION %s: %s" % (type(e).__name__, e))
    finally:
        sys.stdout = old_stdout
    for line in CALLS:
        emit("  CALL " + line)
    for line in stdout.getvalue().splitlines():
        emit("  STDOUT " + line)
    for line in logstream.getvalue().splitlines():
        emit("  LOG " + line)
    describe_model(features)
    return features, runner


def run_matrix():
    all_names = ["plain", "rules", "outline", "empty", "single"]
    for tag_args in TAG_ARGS:
        for extra in ([], ["--no-skipped"], ["--dry-run"],
                      ["--dry-run", "--no-skipped"]):
            run_case(all_names, tag_args + extra)
    # -- HOOK MODES: hooks that exclude or fail elements
    for mode in ("skip_feature_in_hook", "mark_feature_in_hook",
                 "fail_feature_hook", "skip_rule_in_hook",
                 "skip_scenario_in_hook", "mark_scenario_in_hook",
                 "fail_scenario_hook", "fail_after_scenario"):
        for tag_args in ([], ["--tags=@s1"], ["--tags=not @s1"], ["--tags=@e1"]):
            for extra in ([], ["--no-skipped"]):
                run_case(["plain", "rules", "outline"], tag_args + extra,
                         hook_mode=mode)
    # -- NAME SELECT and STOP
    for extra in (["--name=R1"], ["--name=alice", "--tags=@e1"],
                  ["--name=O1 x", "--no-skipped"], ["--stop"],
                  ["--stop", "--tags=not @s1"], ["--name=nomatch"],
                  ["--name=^P", "--tags=@s1 or @s2", "--dry-run"]):
        run_case(all_names, extra)
    # -- EXPLICIT TAG-EXPRESSION PROTOCOLS
    for proto in ("auto_detect", "strict", "v1", "v2"):
        for tags in ("@s1", "not @s1", "-@s1", "@s1,@s2"):
            run_case(["plain", "rules"], ["--tags=" + tags],
                     title="protocol", protocol=proto)


def finish():
    text = u"\n".join(OUT) + u"\n"
    if sys.version_info[0] < 3:
        text = text.encode("utf-8")
    sys.stdout.write(text)


# -- TARGETED CHECKS (C09-t6): ScenarioOutline selection predicates -------------
class RecordingExpression(object):
    """Tag expression that records each check and answers from a function."""
    def __init__(self, answer_func):
        self.answer_func = answer_func
        self.seen = []

    def check(self, tags):
        self.seen.append(sorted(tags))
        return self.answer_func(tags)


class FakeConfig(object):
    def __init__(self, name, pattern=None):
        import re
        self.name = name
        self.name_re = pattern and re.compile(pattern)


OUTLINE_TEXT = u'''
@f
Feature: F
  @o @t_<a> @bad_<zzz>
  Scenario Outline: SO <a>
    Given I use "<a>"

    @e1
    Examples: One
      | a |
      | 1 |
      | 2 |

    @e2
    Examples: Two
      | a |
      | 3 |

    Examples: NoTable

  Scenario Outline: Bare
    Given a step passes
'''


def targeted_outline_selection():
    emit("=" * 78)
    emit("TARGETED ScenarioOutline.should_run_with_tags / _name_select")
    answers = [
        ("always", lambda tags: True),
        ("never", lambda tags: False),
        ("outline-own", lambda tags: "e1" not in tags and "e2" not in tags),
        ("e1", lambda tags: "e1" in tags),
        ("e2", lambda tags: "e2" in tags),
        ("t_2", lambda tags: "t_2" in tags),
        ("t_3-truthy", lambda tags: "t_3" in tags and "yes"),
        ("none", lambda tags: None),
        ("raise-on-e2", lambda tags: "e2" in tags and 1 // 0),
        ("raise-on-outline", lambda tags: "e1" not in tags and 1 // 0),
    ]
    for label, func in answers:
        stdout = io.StringIO()
        sys.stdout = stdout
        feature = parse_feature(OUTLINE_TEXT.lstrip(), filename=u"o.feature")
        for outline in feature.scenarios:
            expr = RecordingExpression(func)
            try:
                result = repr(outline.should_run_with_tags(expr))
            except Exception as e:  # pylint: disable=broad-except
                result = "EXCEPTION %s: %s" % (type(e).__name__, e)
            emit("  tags %s outline=%r -> %s" % (label, outline.name, result))
            for seen in expr.seen:
                emit("    check %s" % seen)
            # -- SECOND CALL: scenarios are built now (no rebuild expected)
            ids_before = [id(s) for s in outline._scenarios]
            expr2 = RecordingExpression(func)
            try:
                result = repr(outline.should_run_with_tags(expr2))
            except Exception as e:  # pylint: disable=broad-except
                result = "EXCEPTION %s: %s" % (type(e).__name__, e)
            emit("    again -> %s checks=%d same_scenarios=%s built=%d" % (
                result, len(expr2.seen),
                ids_before == [id(s) for s in outline._scenarios],
                len(outline._scenarios)))
            # -- Feature-level roll-up uses the outline's answer.
            expr3 = RecordingExpression(func)
            try:
                result = repr(feature.should_run_with_tags(expr3))
            except Exception as e:  # pylint: disable=broad-except
                result = "EXCEPTION %s: %s" % (type(e).__name__, e)
            emit("    feature -> %s checks=%d" % (result, len(expr3.seen)))
        sys.stdout = sys.__stdout__
        for line in stdout.getvalue().splitlines():
            emit("    STDOUT " + line)

    configs = [
        ("no-name", FakeConfig(None)),
        ("empty-name", FakeConfig([])),
        ("first", FakeConfig(["SO 1"], u"SO 1")),
        ("last", FakeConfig(["SO 3"], u"SO 3")),
        ("examples-name", FakeConfig(["Two"], u"Two$")),
        ("nomatch", FakeConfig(["zz"], u"zz")),
        ("template-name-only", FakeConfig(["<a>"], u"<a>")),
        ("name-without-regex", FakeConfig(["x"], None)),
    ]
    for label, config in configs:
        stdout = io.StringIO()
        sys.stdout = stdout
        feature = parse_feature(OUTLINE_TEXT.lstrip(), filename=u"o.feature")
        for outline in feature.scenarios:
            try:
                result = repr(outline.should_run_with_name_select(config))
            except Exception as e:  # pylint: disable=broad-except
                result = "EXCEPTION %s: %s" % (type(e).__name__, e)
            emit("  name %s outline=%r -> %s built=%d" % (
                label, outline.name, result, len(outline._scenarios)))
        sys.stdout = sys.__stdout__
        for line in stdout.getvalue().splitlines():
            emit("    STDOUT " + line)

    # -- SUBCLASSED ROW SCENARIOS: predicate is looked up on each scenario.
    feature = parse_feature(OUTLINE_TEXT.lstrip().replace(
        u"    Examples: NoTable\n", u""), filename=u"o.feature")
    outline = feature.scenarios[0]
    scenarios = outline.scenarios
    log = []

    def make_override(index, answer):
        def should_run_with_tags(tag_expression):
            log.append("override %d" % index)
            return answer
        return should_run_with_tags

    scenarios[0].should_run_with_tags = make_override(0, 0)
    scenarios[1].should_run_with_tags = make_override(1, "truthy")
    scenarios[2].should_run_with_tags = make_override(2, True)
    result = outline.should_run_with_tags(RecordingExpression(lambda t: False))
    emit("  override -> %r log=%s" % (result, log))
    del scenarios[1].should_run_with_tags
    del log[:]
    expr = RecordingExpression(lambda t: False)
    result = outline.should_run_with_tags(expr)
    emit("  override2 -> %r log=%s checks=%d" % (result, log, len(expr.seen)))


run_matrix()
targeted_outline_selection()
finish()
