# -*- coding: UTF-8 -*-
"""
Equivalence transcript for the parser error discipline (property C05).

Feeds a large, deterministic corpus of texts (hand-written valid and invalid
documents, catalogued single faults at every position, single-line mutations
of valid documents, seeded random line soups in several languages) through
all public parser entry points and prints a canonical transcript:
the dumped model, or the exception type, message, .line, .line_text,
.filename and str(); plus every log record emitted meanwhile.
"""
from __future__ import absolute_import, print_function, unicode_literals
import sys
sys.path.insert(0, "/tmp/wtU/C05")

import io
import logging
import random

from behave import parser as P
from behave import model

assert P.__file__.startswith("/tmp/wtU/C05/"), P.__file__

OUT = io.open(sys.stdout.fileno(), "w", encoding="utf-8", closefd=False)


def emit(text):
    OUT.write(text)
    OUT.write("\n")


# -- LOG CAPTURE -------------------------------------------------------------
class ListHandler(logging.Handler):
    def __init__(self):
        logging.Handler.__init__(self)
        self.records = []

    def emit(self, record):
        self.records.append("%s:%s:%s" % (record.name, record.levelname,
                                          record.getMessage()))


LOG = ListHandler()
logging.getLogger().addHandler(LOG)
logging.getLogger().setLevel(logging.DEBUG)
logging.getLogger("behave").setLevel(logging.DEBUG)


# -- MODEL DUMP --------------------------------------------------------------
def dump_tags(tags):
    return "[%s]" % ",".join("%s@%s" % (t, getattr(t, "line", "?"))
                             for t in tags)


def dump_table(table, ind):
    if table is None:
        return [ind + "table=None"]
    out = [ind + "table line=%r headings=%r" % (table.line, table.headings)]
    for row in table.rows:
        out.append(ind + "  row line=%r cells=%r" % (row.line, row.cells))
    return out


def dump_step(step, ind):
    out = [ind + "step %r type=%r name=%r line=%r file=%r" % (
        step.keyword, step.step_type, step.name, step.line, step.filename)]
    if step.text is not None:
        out.append(ind + "  text=%r line=%r ctype=%r" % (
            "%s" % step.text, step.text.line, step.text.content_type))
    if step.table is not None:
        out.extend(dump_table(step.table, ind + "  "))
    return out


def dump_background(bg, ind):
    if bg is None:
        return [ind + "background=None"]
    out = [ind + "background %r name=%r line=%r desc=%r parent=%s" % (
        bg.keyword, bg.name, bg.line, bg.description,
        type(bg.parent).__name__)]
    for step in bg.steps:
        out.extend(dump_step(step, ind + "  "))
    inherited = getattr(bg, "inherited_steps", None)
    out.append(ind + "  inherited=%d" % len(list(inherited or [])))
    return out


def dump_scenario(sc, ind):
    out = [ind + "%s %r name=%r line=%r tags=%s desc=%r parent=%s file=%r" % (
        type(sc).__name__, sc.keyword, sc.name, sc.line, dump_tags(sc.tags),
        sc.description, type(sc.parent).__name__, sc.filename)]
    for step in sc.steps:
        out.extend(dump_step(step, ind + "  "))
    if isinstance(sc, model.ScenarioOutline):
        for ex in sc.examples:
            out.append(ind + "  examples %r name=%r line=%r tags=%s" % (
                ex.keyword, ex.name, ex.line, dump_tags(ex.tags)))
            out.extend(dump_table(ex.table, ind + "    "))
    return out


def dump_container(c, ind):
    out = [ind + "%s %r name=%r line=%r tags=%s desc=%r file=%r" % (
        type(c).__name__, c.keyword, c.name, c.line, dump_tags(c.tags),
        c.description, c.filename)]
    if isinstance(c, model.Feature):
        out.append(ind + "  language=%r parser=%s" % (
            c.language, type(c.parser).__name__))
    out.extend(dump_background(c.background, ind + "  "))
    out.append(ind + "  run_items=%r" % [type(x).__name__ for x in c.run_items])
    for sc in c.scenarios:
        out.extend(dump_scenario(sc, ind + "  "))
    for rule in getattr(c, "rules", []):
        out.extend(dump_container(rule, ind + "  "))
    return out


def dump_result(result):
    if result is None:
        return ["None"]
    if isinstance(result, (model.Feature, model.Rule)):
        return dump_container(result, "")
    if isinstance(result, model.Scenario):
        return dump_scenario(result, "")
    if isinstance(result, model.Background):
        return dump_background(result, "")
    if isinstance(result, model.Step):
        return dump_step(result, "")
    if isinstance(result, list):
        out = ["list len=%d" % len(result)]
        for item in result:
            if isinstance(item, model.Step):
                out.extend(dump_step(item, "  "))
            elif isinstance(item, model.Tag):
                out.append("  tag %s@%s" % (item, item.line))
            else:
                out.append("  %r" % (item,))
        return out
    return ["%s %r" % (type(result).__name__, result)]


def dump_parser(parser_):
    return "parser: state=%s line=%r language=%r variant=%r tags=%s " \
           "last_step_type=%r lines=%r table=%s examples=%s" % (
               parser_.state.name, parser_.line, parser_.language,
               parser_.variant, dump_tags(parser_.tags),
               parser_.last_step_type, parser_.lines,
               "set" if parser_.table is not None else "None",
               "set" if parser_.examples is not None else "None")


def observe(label, func, *args, **kwargs):
    del LOG.records[:]
    emit("## " + label)
    try:
        result = func(*args, **kwargs)
    except P.ParserError as e:
        emit("  RAISES ParserError line=%r line_text=%r filename=%r" % (
            e.line, e.line_text, e.filename))
        emit("  args=%r" % (e.args,))
        emit("  str=%r" % ("%s" % e,))
    except Exception as e:  # pylint: disable=broad-except
        emit("  RAISES %s args=%r" % (type(e).__name__, e.args))
    else:
        for text in dump_result(result):
            emit("  " + text)
        if isinstance(result, model.Feature) and result.parser is not None:
            emit("  " + dump_parser(result.parser))
    for rec in LOG.records:
        emit("  LOG " + rec)


# -- ENTRY POINTS ------------------------------------------------------------
def run_all_entry_points(label, text, language=None, filename=None):
    observe("%s | parse_feature lang=%r file=%r" % (label, language, filename),
            P.parse_feature, text, language, filename)
    observe("%s | parse_rule" % label, P.parse_rule, text, language, filename)
    observe("%s | parse_scenario" % label,
            P.parse_scenario, text, language, filename)
    observe("%s | parse_steps" % label, P.parse_steps, text, language, filename)
    observe("%s | parse_step" % label, P.parse_step, text, language, filename)
    observe("%s | parse_tags" % label, P.parse_tags, text)


def run_parser_object(label, text, language=None, variant=None, filename=None):
    """Use the Parser class directly and show the parser state afterwards."""
    del LOG.records[:]
    emit("## %s | Parser(%r, %r).parse" % (label, language, variant))
    try:
        parser_ = P.Parser(language, variant)
    except Exception as e:  # pylint: disable=broad-except
        emit("  CTOR RAISES %s args=%r" % (type(e).__name__, e.args))
        return
    try:
        result = parser_.parse(text, filename)
    except P.ParserError as e:
        emit("  RAISES ParserError line=%r line_text=%r filename=%r args=%r" % (
            e.line, e.line_text, e.filename, e.args))
    except Exception as e:  # pylint: disable=broad-except
        emit("  RAISES %s args=%r" % (type(e).__name__, e.args))
    else:
        for text_ in dump_result(result):
            emit("  " + text_)
    emit("  " + dump_parser(parser_))
    for rec in LOG.records:
        emit("  LOG " + rec)


# -- CORPUS ------------------------------------------------------------------
VALID_EN = u"""\
# language: en
@f1 @f2   # comment after tags
@f3
Feature: Alpha
  Feature description line 1
  Feature description line 2

  Background: Base
    Background description
    Given a background step
    And another background step

  @s1
  Scenario: First
    Scenario description
    Given a step
      | a | b |
      | 1 | 2 |
      | 3 \\| x | 4 |
    When another step
      \"\"\"
      some text
        indented
      \"\"\"
    Then a final step:
      '''
      single quoted
      '''
    And one more
    But not this
    * generic step

  @o1 @o2
  Scenario Outline: Second <x>
    Given a <x> step
    When <y> happens

    @e1
    Examples: Table one
      | x | y |
      | 1 | 2 |
      | 3 | 4 |

    Examples:
      | x | y |

  Scenario: Title only

  Scenario: With description only
    Just some description

  @r1
  Rule: A rule
    Rule description

    Background: Rule base
      Given a rule background step

    Example: In rule
      * generic first
      And an and step
      Given a given step
      * generic after given

    Scenario Template: Outline in rule <n>
      Given <n>
      Examples: E
        | n |
        | 1 |

  Rule: Second rule without background
    Scenario: In second rule
      And inherits from feature background
"""

VALID_DE = u"""\
# language: de
@de
Funktionalit\xe4t: Deutsch
  Beschreibung

  Grundlage: Basis
    Angenommen ein Schritt

  Szenario: Eins
    Angenommen etwas
    Wenn etwas passiert
    Dann ist es gut
    Und noch mehr
    Aber nicht das

  Szenariogrundriss: Zwei <a>
    Gegeben sei <a>
    Beispiele: B
      | a |
      | 1 |
"""

VALID_FR = u"""\
# language: fr
Fonctionnalit\xe9: Fran\xe7ais
  Contexte:
    Soit un contexte
  Sc\xe9nario: Un
    Etant donn\xe9 quelque chose
    Quand il se passe
    Alors tout va bien
    Et encore
    Mais pas \xe7a
"""

VALID_JA = u"""\
# language: ja
\u30d5\u30a3\u30fc\u30c1\u30e3: \u65e5\u672c\u8a9e
  \u30b7\u30ca\u30ea\u30aa: \u4e00
    \u524d\u63d0\u4f55\u304b
    \u3082\u3057\u4f55\u304b
    \u306a\u3089\u3070\u7d50\u679c
    \u304b\u3064\u3082\u3063\u3068
"""

VALID_SMALL = u"""\
Feature: Small
  Background:
    Given b
  Scenario: S
    Given g
      | h1 | h2 |
      | c1 | c2 |
    When w
      \"\"\"
      doc
      \"\"\"
    Then t
  Scenario Outline: O
    Given <p>
    Examples: E
      | p |
      | 1 |
  Rule: R
    Scenario: RS
      Given rg
"""

HANDWRITTEN = [
    ("empty", u""),
    ("blank-lines", u"\n\n   \n\t\n"),
    ("comment-only", u"# just a comment\n# another\n"),
    ("language-only", u"# language: de\n"),
    ("language-upper", u"#  LANGUAGE:   fr  \nFonctionnalit\xe9: X\n"),
    ("language-unknown", u"# language: xx-unknown\nFeature: X\n"),
    ("language-empty", u"# language:\nFeature: X\n"),
    ("language-after-tags", u"@t\n# language: de\nFeature: X\n"),
    ("language-twice", u"# language: de\n# language: en\nFeature: X\n"),
    ("language-after-feature", u"Feature: X\n# language: de\nScenario: Y\n"),
    ("comment-language-ish", u"#language:fr\nFonctionnalit\xe9: X\n"),
    ("comment-in-initial", u"# hello\nFeature: X\n"),
    ("no-feature-text", u"This is not a feature\n"),
    ("scenario-before-feature", u"Scenario: X\n  Given a\n"),
    ("outline-before-feature", u"Scenario Outline: X\n  Given a\n"),
    ("background-before-feature", u"Background: X\n  Given a\n"),
    ("rule-before-feature", u"Rule: X\n"),
    ("tags-then-rule-before-feature", u"@t\nRule: X\n"),
    ("examples-before-feature", u"Examples: X\n"),
    ("step-before-feature", u"Given a step\n"),
    ("table-before-feature", u"| a | b |\n"),
    ("docstring-before-feature", u'"""\ntext\n"""\n'),
    ("tags-only", u"@a @b\n@c\n"),
    ("tags-then-garbage", u"@a @b\ngarbage\n"),
    ("tags-bad-token", u"@a b @c\nFeature: X\n"),
    ("tags-comment", u"@a #b @c\nFeature: X\n"),
    ("tags-bad-after-comment", u"@a # b c\nFeature: X\n"),
    ("tags-bare-at", u"@ @@ @a@b\nFeature: X\n"),
    ("second-feature", u"Feature: X\nFeature: Y\n"),
    ("second-feature-after-steps",
     u"Feature: X\n Scenario: A\n  Given a\nFeature: Y\n"),
    ("tagged-second-feature", u"Feature: X\n@t\nFeature: Y\n"),
    ("feature-in-table",
     u"Feature: X\n Scenario: A\n  Given a\n   | a |\nFeature: Y\n"),
    ("text-after-steps",
     u"Feature: X\n Scenario: A\n  Given a\n  some text\n"),
    ("text-after-table",
     u"Feature: X\n Scenario: A\n  Given a\n   | a |\n   | 1 |\n  some text\n"),
    ("text-after-docstring",
     u'Feature: X\n Scenario: A\n  Given a\n   """\n   t\n   """\n  some text\n'),
    ("examples-in-scenario",
     u"Feature: X\n Scenario: A\n  Given a\n  Examples: E\n   | a |\n"),
    ("examples-in-background",
     u"Feature: X\n Background: B\n  Given a\n  Examples: E\n   | a |\n"),
    ("examples-in-feature", u"Feature: X\n Examples: E\n   | a |\n"),
    ("tagged-examples-in-scenario",
     u"Feature: X\n Scenario: A\n  Given a\n  @t\n  Examples: E\n   | a |\n"),
    ("and-first", u"Feature: X\n Scenario: A\n  And a\n"),
    ("but-first", u"Feature: X\n Scenario: A\n  But a\n"),
    ("star-first", u"Feature: X\n Scenario: A\n  * a\n  And b\n"),
    ("and-after-empty-background",
     u"Feature: X\n Background:\n Scenario: A\n  And a\n"),
    ("and-after-background",
     u"Feature: X\n Background:\n  When b\n Scenario: A\n  And a\n  But c\n"),
    ("and-in-rule-inherited",
     u"Feature: X\n Background:\n  Then b\n Rule: R\n  Scenario: A\n   And a\n"),
    ("and-in-rule-own-empty-bg",
     u"Feature: X\n Background:\n  Then b\n Rule: R\n  Background:\n  Scenario: A\n   And a\n"),
    ("and-in-rule-no-bg", u"Feature: X\n Rule: R\n  Scenario: A\n   But a\n"),
    ("and-second-scenario",
     u"Feature: X\n Scenario: A\n  Given a\n Scenario: B\n  And b\n"),
    ("lowercase-keywords",
     u"Feature: X\n Scenario: A\n  given a\n  WHEN b\n  tHeN c\n  and d\n"),
    ("keyword-without-space",
     u"Feature: X\n Scenario: A\n  Givena\n  Given\n  Whenever b\n"),
    ("table-wrong-cells",
     u"Feature: X\n Scenario: A\n  Given a\n   | a | b |\n   | 1 |\n"),
    ("table-too-many-cells",
     u"Feature: X\n Scenario: A\n  Given a\n   | a |\n   | 1 | 2 |\n"),
    ("table-malformed-row",
     u"Feature: X\n Scenario: A\n  Given a\n   | a | b\n   | 1 | 2 |\n"),
    ("table-malformed-row-2",
     u"Feature: X\n Scenario: A\n  Given a\n   | a | b |\n   | 1 | 2\n"),
    ("table-single-pipe",
     u"Feature: X\n Scenario: A\n  Given a\n   |\n   |\n"),
    ("table-double-pipe",
     u"Feature: X\n Scenario: A\n  Given a\n   ||\n   | |\n"),
    ("table-escaped",
     u"Feature: X\n Scenario: A\n  Given a\n   | a\\|b | c\\\\|\n   | 1 | 2 |\n"),
    ("table-before-step", u"Feature: X\n Scenario: A\n   | a |\n"),
    ("table-before-step-in-steps",
     u"Feature: X\n Scenario: A\n  Given a\n Scenario: B\n   | a |\n"),
    ("table-at-eof",
     u"Feature: X\n Scenario: A\n  Given a\n   | a |\n   | 1 |"),
    ("table-then-garbage-state",
     u"Feature: X\n Scenario: A\n  Given a\n   | a |\n  Background: late\n"),
    ("table-comment-inside",
     u"Feature: X\n Scenario: A\n  Given a\n   | a |\n   # c\n   | 1 |\n"),
    ("table-blank-inside",
     u"Feature: X\n Scenario: A\n  Given a\n   | a |\n\n   | 1 |\n  When b\n"),
    ("two-tables",
     u"Feature: X\n Scenario: A\n  Given a\n   | a |\n  When b\n   | c |\n   | 2 |\n"),
    ("examples-table-malformed",
     u"Feature: X\n Scenario Outline: A\n  Given <a>\n  Examples:\n   | a | b |\n   | 1 |\n"),
    ("examples-no-table",
     u"Feature: X\n Scenario Outline: A\n  Given <a>\n  Examples:\n Scenario: B\n"),
    ("examples-then-text",
     u"Feature: X\n Scenario Outline: A\n  Given <a>\n  Examples:\n  text\n"),
    ("examples-then-step",
     u"Feature: X\n Scenario Outline: A\n  Given <a>\n  Examples:\n  Given b\n"),
    ("examples-at-eof",
     u"Feature: X\n Scenario Outline: A\n  Given <a>\n  Examples:\n"),
    ("examples-table-eof",
     u"Feature: X\n Scenario Outline: A\n  Given <a>\n  Examples:\n   | a |"),
    ("outline-without-steps",
     u"Feature: X\n Scenario Outline: A\n  Examples:\n   | a |\n   | 1 |\n"),
    ("docstring-before-step", u'Feature: X\n Scenario: A\n  """\n  t\n  """\n'),
    ("docstring-before-step-steps-state",
     u'Feature: X\n Scenario: A\n  Given a\n Scenario: B\n  """\n'),
    ("docstring-unterminated",
     u'Feature: X\n Scenario: A\n  Given a\n   """\n   text\n'),
    ("docstring-mixed-quotes",
     u"Feature: X\n Scenario: A\n  Given a\n   \"\"\"\n   '''\n   \"\"\"\n  When b\n"),
    ("docstring-bad-indent",
     u'Feature: X\n Scenario: A\n  Given a\n     """\n   text\n     """\n'),
    ("docstring-with-keywords",
     u'Feature: X\n Scenario: A\n  Given a\n  """\n  Feature: no\n  # comment kept\n\n  @tag\n  | t |\n  """\n  Then b\n'),
    ("docstring-twice",
     u'Feature: X\n Scenario: A\n  Given a\n  """\n  one\n  """\n  """\n  two\n  """\n'),
    ("docstring-and-table",
     u'Feature: X\n Scenario: A\n  Given a\n  """\n  one\n  """\n  | a |\n  | 1 |\n'),
    ("docstring-crlf",
     u'Feature: X\r\n Scenario: A\r\n  Given a\r\n  """\r\n  one  \r\n  """\r\n'),
    ("docstring-open-with-trailing",
     u'Feature: X\n Scenario: A\n  Given a\n  """python\n  one\n  """ trailing\n'),
    ("second-background",
     u"Feature: X\n Background: A\n  Given a\n Background: B\n"),
    ("second-background-empty-first",
     u"Feature: X\n Background: A\n Background: B\n  Given b\n"),
    ("background-after-scenario",
     u"Feature: X\n Scenario: A\n  Given a\n Background: B\n"),
    ("background-after-title-scenario",
     u"Feature: X\n Scenario: A\n Background: B\n"),
    ("tagged-background", u"Feature: X\n @t @u\n Background: B\n"),
    ("tagged-background-in-rule", u"Feature: X\n Rule: R\n @t\n Background: B\n"),
    ("rule-background-after-feature-bg",
     u"Feature: X\n Background: A\n  Given a\n Rule: R\n  Background: B\n   Given b\n  Background: C\n"),
    ("rule-in-steps",
     u"Feature: X\n Scenario: A\n  Given a\n Rule: R\n  Scenario: B\n   Given b\n"),
    ("rule-desc", u"Feature: X\n Rule: R\n  text\n  more text\n"),
    ("feature-keyword-in-rule", u"Feature: X\n Rule: R\n  Feature: Y\n"),
    ("feature-keyword-in-scenario", u"Feature: X\n Scenario: R\n  Feature: Y\n"),
    ("tags-then-step", u"Feature: X\n Scenario: A\n  Given a\n  @t\n  Given b\n"),
    ("tags-then-background", u"Feature: X\n @t\n Background: B\n"),
    ("tags-then-text", u"Feature: X\n @t\n some text\n"),
    ("tags-at-eof", u"Feature: X\n Scenario: A\n  Given a\n @t\n"),
    ("tags-bad-in-steps", u"Feature: X\n Scenario: A\n  Given a\n @t bad\n"),
    ("tabs-and-unicode",
     u"Feature:\tX \u00e4\u00f6\n\tScenario:\tA\n\t\tGiven\ta \u2603\n"),
    ("colon-less-keywords", u"Feature X\nScenario A\n"),
    ("keyword-prefix", u"Featured: X\nFeature:X\n Scenarios: S\n Scenario:Y\n"),
    ("example-alias",
     u"Feature: X\n Example: A\n  Given a\n Scenario Template: B\n  Given <b>\n  Scenarios: S\n   | b |\n   | 1 |\n"),
    ("steps-only", u"Given a\nWhen b\nThen c\nAnd d\n"),
    ("one-step", u"Given a single step"),
    ("one-step-with-table", u"Given a\n | a |\n | 1 |\n"),
    ("one-step-with-text", u'When a:\n """\n text\n """\n'),
    ("and-only-step", u"And a\n"),
    ("scenario-only", u"@t1\nScenario: A\n  desc\n  Given a\n  Then b\n"),
    ("outline-only",
     u"@t1\nScenario Outline: A\n  Given <a>\n  Examples:\n  | a |\n  | 1 |\n"),
    ("scenario-desc-first", u"some description\nScenario: A\n  Given a\n"),
    ("rule-only",
     u"@r\nRule: R\n  desc\n  Background:\n   Given b\n  Scenario: A\n   Given a\n"),
    ("rule-no-rule-line", u"Scenario: A\n  Given a\n"),
    ("rule-text-first", u"free text\nRule: R\n"),
    ("bom", u"\ufeffFeature: X\n"),
    ("form-feed-vt", u"Feature: X\x0c Scenario: A\x0b  Given a\x1cWhen b\u2028Then c\n"),
    ("nul-chars", u"Feature: X\n Scenario: \x00\n  Given \x00a\n"),
    ("percent-in-text", u"Feature: 100%s %d {x}\n bad %s line {0}\n Scenario: %(a)s\n  Given 50% {step_type}\n  nope % {y}\n"),
    ("percent-tag", u"@a %s{x}\nFeature: X\n"),
]

LANG_TEXTS = [("en", VALID_EN), ("de", VALID_DE), ("fr", VALID_FR),
              ("ja", VALID_JA), ("small", VALID_SMALL)]

FAULT_LINES = [
    ("second-feature", u"Feature: Injected"),
    ("text", u"injected free text"),
    ("examples", u"Examples: Injected"),
    ("and", u"And injected"),
    ("but", u"But injected"),
    ("row-1", u"| only-one-cell-but-three-|-x | y | z |"),
    ("row-0", u"|"),
    ("bad-tag", u"@ok notatag"),
    ("background", u"Background: Injected"),
    ("tagged-bg", u"@t"),
    ("rule", u"Rule: Injected"),
    ("docstring", u'"""'),
    ("docstring-sq", u"'''"),
    ("scenario", u"Scenario: Injected"),
    ("outline", u"Scenario Outline: Injected"),
    ("comment", u"# language: de"),
    ("star", u"* injected"),
]

SOUP_POOL = [
    u"Feature: F", u"Rule: R", u"Background: B", u"Scenario: S",
    u"Example: E", u"Scenario Outline: O", u"Scenario Template: T",
    u"Examples: X", u"Scenarios: Y",
    u"  Given g", u"  When w", u"  Then t", u"  And a", u"  But b", u"  * s",
    u"  given lower", u"Givenx", u"  Then colon:",
    u"@t1", u"@t1 @t2 # c", u"@t1 bad", u"@", u"  @x",
    u"| a | b |", u"| 1 | 2 |", u"| 1 |", u"|", u"| a | b", u"||", u"  | x\\|y | z |",
    u'  """', u"  '''", u'"""', u'    """xml', u"text line", u"  indented text",
    u"# comment", u"# language: de", u"# language: fr", u"#language: xx", u"",
    u"   ",
    u"Funktionalit\xe4t: D", u"Szenario: D", u"Grundlage: D", u"Regel: D",
    u"Szenariogrundriss: D", u"Beispiele: D", u"  Angenommen d", u"  Und d",
    u"  Aber d", u"  Wenn d", u"  Dann d",
    u"Fonctionnalit\xe9: F", u"Sc\xe9nario: F", u"Contexte: F", u"  Soit f",
    u"  Et f", u"  Mais f", u"Exemples: F",
    u"\u30d5\u30a3\u30fc\u30c1\u30e3: J", u"\u30b7\u30ca\u30ea\u30aa: J",
    u"  \u524d\u63d0j", u"  \u304b\u3064j",
]


def mutations(lines):
    n = len(lines)
    for i in range(n):
        yield "del@%d" % (i + 1), lines[:i] + lines[i + 1:]
        yield "dup@%d" % (i + 1), lines[:i + 1] + lines[i:]
        if i + 1 < n:
            yield "swap@%d" % (i + 1), (lines[:i] + [lines[i + 1], lines[i]] +
                                        lines[i + 2:])
        yield "trunc@%d" % (i + 1), lines[:i + 1]
        yield "halfline@%d" % (i + 1), (lines[:i] +
                                        [lines[i][:len(lines[i]) // 2]] +
                                        lines[i + 1:])


def main():
    # pylint: disable=too-many-branches,too-many-locals
    emit("#### SECTION 1: handwritten, all entry points")
    for label, text in HANDWRITTEN:
        run_all_entry_points(label, text, filename="hw/%s.feature" % label)
    for lang, text in LANG_TEXTS:
        run_all_entry_points("valid-" + lang, text)

    emit("#### SECTION 2: explicit language argument / Parser objects")
    for lang in (None, "en", "de", "fr", "ja", "xx", ""):
        for label, text in (("en", VALID_SMALL), ("de", VALID_DE),
                            ("garbage", u"garbage\n"), ("empty", u"")):
            run_parser_object("lang=%r-%s" % (lang, label), text, lang)
            observe("lang=%r-%s | parse_steps" % (lang, label),
                    P.parse_steps, u"Given a\nAngenommen b\nAnd c\nUnd d\n",
                    lang)
    for variant in (None, "feature", "rule", "scenario", "steps", "tags"):
        for label, text in (("comment-first", u"# language: de\nSzenario: X\n"),
                            ("small", VALID_SMALL), ("garbage", u"garbage\n")):
            run_parser_object("variant-%s" % label, text, None, variant, "v.feature")

    emit("#### SECTION 3: parse_tags")
    for text in (u"", u"@a", u"@a @b", u"  @a\t@b  ", u"@a\n@b", u"@a #c @d",
                 u"# only comment", u"@a b", u"a", u"@a\nb\n@c", u"@", u"@@",
                 u"@a#b", u"#", u"@a # x\n@b", u"@a @b #c\nbad", u"@\xe4 @\u2603",
                 u"@a %s {x}", u"x{y} %d"):
        observe("parse_tags %r" % text, P.parse_tags, text)
        emit("## Parser.parse_tags line=7 %r" % text)
        parser_ = P.Parser()
        parser_.line = 7
        parser_.filename = "tags.feature"
        try:
            tags = parser_.parse_tags(text)
            emit("  " + dump_tags(tags))
        except P.ParserError as e:
            emit("  RAISES ParserError line=%r filename=%r args=%r str=%r" % (
                e.line, e.filename, e.args, "%s" % e))

    emit("#### SECTION 4: catalogued faults at every position")
    for lang, text in (("small", VALID_SMALL), ("de", VALID_DE)):
        lines = text.splitlines()
        for kind, fault in FAULT_LINES:
            for pos in range(len(lines) + 1):
                mutated = u"\n".join(lines[:pos] + [fault] + lines[pos:]) + u"\n"
                observe("fault %s/%s@%d | parse_feature" % (lang, kind, pos + 1),
                        P.parse_feature, mutated, None, "fault.feature")

    emit("#### SECTION 5: single-line mutations of valid documents")
    for lang, text in LANG_TEXTS:
        lines = text.splitlines()
        for label, mutated_lines in mutations(lines):
            mutated = u"\n".join(mutated_lines)
            observe("mut %s/%s | parse_feature" % (lang, label),
                    P.parse_feature, mutated)
    steps_text = (u"Given a\n | a | b |\n | 1 | 2 |\nWhen b\n \"\"\"\n doc\n"
                  u" \"\"\"\nThen c:\nAnd d\nBut e\n* f\n")
    for label, mutated_lines in mutations(steps_text.splitlines()):
        mutated = u"\n".join(mutated_lines)
        observe("mut steps/%s | parse_steps" % label, P.parse_steps, mutated)
        observe("mut steps/%s | parse_scenario" % label,
                P.parse_scenario, u"Scenario: S\n" + mutated)
        observe("mut steps/%s | parse_rule" % label,
                P.parse_rule, u"Rule: R\nBackground:\n Then x\nScenario: S\n" + mutated)

    emit("#### SECTION 6: random line soups")
    rng = random.Random(20240505)
    entry_points = [
        ("parse_feature", lambda t: P.parse_feature(t, None, "soup.feature")),
        ("parse_rule", lambda t: P.parse_rule(t, None, "soup.feature")),
        ("parse_scenario", lambda t: P.parse_scenario(t, None, "soup.feature")),
        ("parse_steps", lambda t: P.parse_steps(t, None, "soup.feature")),
        ("parse_tags", P.parse_tags),
    ]
    for number in range(1500):
        size = rng.randint(1, 12)
        picked = [SOUP_POOL[rng.randrange(len(SOUP_POOL))] for _ in range(size)]
        if rng.random() < 0.6:
            # -- BIAS: towards documents that get past the initial state.
            head = [SOUP_POOL[rng.randrange(9)]]
            if rng.random() < 0.7:
                head.insert(0, u"Feature: Soup")
            picked = head + picked
        text = u"\n".join(picked)
        name, func = entry_points[number % len(entry_points)]
        observe("soup %d %s %r" % (number, name, text), func, text)

    emit("#### SECTION 7: ParserError class")
    for args, kwargs in [
            ((u"msg", 3), {}), ((u"msg", 0), {}), ((u"msg", None), {}),
            ((u"msg", 3, "f.feature"), {}),
            ((u"msg", 3, "f.feature", u"  the line  "), {}),
            ((u"msg", 3), dict(line_text=u" l ", reason=u"why")),
            ((u"msg", 3), dict(line_text=u" l ", reason=u"why",
                               use_annotated_message=False)),
            ((u"msg \xe4", 2, u"\xe4.feature"), dict(reason=u"")),
    ]:
        e = P.ParserError(*args, **kwargs)
        emit("ParserError%r %r -> args=%r line=%r line_text=%r filename=%r str=%r" % (
            args, sorted(kwargs.items()), e.args, e.line, e.line_text,
            e.filename, "%s" % e))
    OUT.flush()


def extra():
    """The parse_* wrappers: filename attribution, identity and passthrough."""
    import traceback
    emit("#### EXTRA: wrappers attach the filename to the very same exception")
    wrappers = [("parse_feature", P.parse_feature), ("parse_rule", P.parse_rule),
                ("parse_scenario", P.parse_scenario),
                ("parse_steps", P.parse_steps), ("parse_step", P.parse_step)]
    texts = [u"garbage", u"Feature: F\nFeature: G", u"And x", u"@a b",
             u"Given a\n | a |\n | 1 | 2 |", u'"""', u"| a |",
             u"# language: zz\nFeature: F", u"Scenario: S\n Given a\n Examples: E",
             u"", u"Given ok", u"Feature: ok", u"Rule: R", u"Scenario: S"]
    filenames = [None, "", "a.feature", u"\xe4\xf6.feature", 0, 42,
                 ("tuple", "name")]
    for name, func in wrappers:
        for filename in filenames:
            for text in texts:
                for language in (None, "de", "no-such-language"):
                    label = "%s(%r, %r, %r)" % (name, text, language, filename)
                    try:
                        result = func(text, language, filename)
                    except P.ParserError as e:
                        tb_funcs = [frame[2] for frame in
                                    traceback.extract_tb(sys.exc_info()[2])]
                        try:
                            as_text = "%s" % e
                        except Exception as e2:  # pylint: disable=broad-except
                            as_text = "STR-RAISES %s" % type(e2).__name__
                        emit("%s -> ParserError type=%s line=%r filename=%r "
                             "line_text=%r args=%r str=%r cause=%r context=%r "
                             "innermost=%s" % (
                                 label, type(e).__name__, e.line, e.filename,
                                 e.line_text, e.args, as_text,
                                 getattr(e, "__cause__", None),
                                 getattr(e, "__context__", None), tb_funcs[-1]))
                    except Exception as e:  # pylint: disable=broad-except
                        emit("%s -> %s %r" % (label, type(e).__name__, e.args))
                    else:
                        emit("%s -> ok %s" % (label, dump_result(result)[0]))

    emit("#### EXTRA: non-text input is rejected before parsing")
    for name, func in wrappers:
        for bad in (None, b"Feature: bytes", 12, [u"Feature: F"]):
            try:
                func(bad, None, "bad.feature")
                emit("%s(%r) -> ok" % (name, bad))
            except Exception as e:  # pylint: disable=broad-except
                emit("%s(%r) -> %s %r" % (name, bad, type(e).__name__, e.args))

    emit("#### EXTRA: subclassed ParserError and foreign errors pass through")

    class SpecialParserError(P.ParserError):
        pass

    raised = []
    original_action = P.Parser.action

    def make_action(exc_factory):
        def action(self, line):
            if line.strip() == u"BOOM":
                exc = exc_factory(self)
                raised.append(exc)
                raise exc
            return original_action(self, line)
        return action

    factories = [
        ("special", lambda p: SpecialParserError(u"special", p.line, "inner.feature")),
        ("plain", lambda p: P.ParserError(u"plain", p.line, "inner.feature", u"BOOM")),
        ("value", lambda p: ValueError("not a parser error")),
        ("stop", lambda p: StopIteration("stop")),
        ("keyboard", lambda p: KeyboardInterrupt("kb")),
        ("generator-exit", lambda p: GeneratorExit("ge")),
    ]
    for fname, factory in factories:
        P.Parser.action = make_action(factory)
        try:
            for name, func in wrappers:
                del raised[:]
                try:
                    func(u"BOOM\n", None, "outer.feature")
                    emit("%s/%s -> ok" % (fname, name))
                except BaseException as e:  # pylint: disable=broad-except
                    emit("%s/%s -> %s args=%r filename=%r same_object=%r raised=%d" % (
                        fname, name, type(e).__name__, e.args,
                        getattr(e, "filename", "n/a"),
                        bool(raised) and e is raised[-1], len(raised)))
        finally:
            P.Parser.action = original_action

    emit("#### EXTRA: parse_file")
    import os
    tmpdir = os.path.join(os.path.dirname(os.path.abspath(__file__)),
                          "_tmp_features")
    os.mkdir(tmpdir)
    os.chdir("/tmp/wtU/C05")    # -- Feature.filename is made relative to cwd.
    try:
        for index, text in enumerate(texts):
            path = os.path.join(tmpdir, "f%d.feature" % index)
            with io.open(path, "w", encoding="utf-8") as f:
                f.write(text)
            for language in (None, "de"):
                try:
                    feature = P.parse_file(path, language)
                    emit("parse_file %d %r -> %s" % (
                        index, language, dump_result(feature)[0]))
                except P.ParserError as e:
                    emit("parse_file %d %r -> ParserError line=%r filename=%r str=%r" % (
                        index, language, e.line,
                        e.filename.replace(tmpdir, "TMP"),
                        ("%s" % e).replace(tmpdir, "TMP")))
    finally:
        import shutil
        shutil.rmtree(tmpdir)


if __name__ == "__main__":
    main()
    extra()
    OUT.flush()
