# -*- coding: UTF-8 -*-
"""
Equivalence transcript for property C10 (file-location / name selection).

Prints a canonical transcript of everything observable through the public
behaviour of behave.runner_util / behave.model that C10 depends on:

  * FileLocationParser.parse, FeatureListParser.parse / parse_file
  * FeatureLineDatabase (line -> entity, line -> scenarios) for EVERY line
  * parse_features() with 1..3 locations per file, several files, strings
  * collect_feature_locations() with directories, @listfiles, locations
  * --name selection (should_run_with_name_select + real "python -m behave")

Run on the clean tree and on the patched tree; outputs must be identical.
"""

from __future__ import absolute_import, print_function
import sys
sys.path.insert(0, "/tmp/wtU/C10")

import itertools
import os
import shutil
import subprocess

HERE = os.path.dirname(os.path.abspath(__file__))
WORK = os.path.join(HERE, "_work")

import behave
assert behave.__file__.startswith("/tmp/wtU/C10/"), behave.__file__
from behave import parser as gherkin
from behave import runner_util
from behave.configuration import Configuration
from behave.model import Feature, Rule, ScenarioOutline, Scenario
from behave.model_core import FileLocation
from behave.runner_util import (
    FileLocationParser, FeatureLineDatabase, FeatureListParser,
    FeatureScenarioLocationCollector, FeatureScenarioLocationCollector1,
    FeatureScenarioLocationCollector2,
    parse_features, collect_feature_locations,
)


# ---------------------------------------------------------------------------
# FIXTURES
# ---------------------------------------------------------------------------
FEATURE_ALICE = u"""\
# -- comment before the feature
@alice @wip
Feature: Alice
  Some description line
  Another description line

  Background: Common
    Given a step passes

  @setup
  Scenario: A0 setup
    Given a step passes

  Scenario: A1
    Given a step passes
    When a step passes

    # -- a comment between the scenarios

  @outline
  Scenario Outline: A2 <name>
    Given a step passes with "<name>"
    Then a step passes

    @first
    Examples: Table1
      | name  |
      | anna  |
      | berta |

    Examples: Table2
      | name  |
      | carl  |

  Scenario: A3
    Given a step passes

  Rule: R1
    Background: Rule background
      Given a step passes

    Scenario: R1.S1
      Given a step passes

    Scenario Outline: R1.O2 <n>
      Given a step passes with "<n>"

      Examples:
        | n |
        | 1 |
        | 2 |

    @teardown
    Scenario: R1 teardown
      Given a step passes

  Rule: R2
    Scenario: R2.S1
      Given a step passes
    Scenario: A1
      Given a step passes


"""

FEATURE_BOB = u"""\
Feature: Bob
  Scenario: B1
    Given a step passes
  Scenario: B1
    Given a step passes
  Scenario: B2 (special) [x]
    Given a step passes
"""

FEATURE_NOSCENARIOS = u"""\
@empty
Feature: Charly without scenarios
  Only a description.
"""

FEATURE_EMPTYFILE = u"""\
# -- only a comment, no feature
"""

FEATURE_DORA = u"""\


@dora
Feature: Dora

  Scenario Outline: D1 <x>
    Given a step passes with "<x>"
    Examples:
      | x |
      | a |
  @teardown
  Scenario: D teardown
    Given a step passes
  @setup
  Scenario: D setup
    Given a step passes
  Scenario: D2
    Given a step passes
"""

STEPS_PY = u"""\
from behave import step

@step(u'a step passes')
def step_passes(context):
    pass

@step(u'a step passes with "{value}"')
def step_passes_with(context, value):
    pass
"""

ENVIRONMENT_PY = u"""\
from __future__ import print_function
import os

def after_feature(context, feature):
    with open(os.environ["C10_OBS_FILE"], "a") as f:
        print("FEATURE %s status=%s" % (feature.name, feature.status.name), file=f)
        for s in feature.walk_scenarios(with_outlines=True, with_rules=True):
            print("  %s %r line=%s skip=%s status=%s" % (
                s.__class__.__name__, s.name, s.location.line,
                s.should_skip, s.status.name), file=f)
"""

FILES = [
    ("features/alice.feature", FEATURE_ALICE),
    ("features/bob.feature", FEATURE_BOB),
    ("features/sub/charly.feature", FEATURE_NOSCENARIOS),
    ("features/sub/empty.feature", FEATURE_EMPTYFILE),
    ("features/sub/dora.feature", FEATURE_DORA),
    ("features/steps/steps.py", STEPS_PY),
    ("features/environment.py", ENVIRONMENT_PY),
    ("features/notes.txt", u"not a feature\n"),
]


def setup_workdir():
    if os.path.isdir(WORK):
        shutil.rmtree(WORK)
    for name, contents in FILES:
        path = os.path.join(WORK, name)
        dirname = os.path.dirname(path)
        if not os.path.isdir(dirname):
            os.makedirs(dirname)
        with open(path, "wb") as f:
            f.write(contents.encode("UTF-8"))
    os.chdir(WORK)


MARKER = object()


def line_count(text):
    return len(text.splitlines())


# ---------------------------------------------------------------------------
# TRANSCRIPT HELPERS
# ---------------------------------------------------------------------------
def show(*args):
    text = u" ".join(u"%s" % (arg,) for arg in args)
    text = text.replace(WORK, "<WORK>")
    print(text)


def describe_exception(e):
    return "%s: %s" % (e.__class__.__name__, e)


def describe_location(location):
    return "%s(%r, %r)" % (location.__class__.__name__,
                           location.filename, location.line)


def describe_entity(entity):
    if entity is None:
        return "None"
    return "%s[%s@%s]" % (entity.__class__.__name__, entity.name,
                          entity.location.line)


def describe_scenarios(scenarios):
    return "[%s]" % ", ".join(describe_entity(s) for s in scenarios)


def describe_feature_selection(feature):
    if feature is None:
        return "None"
    parts = []
    for s in feature.walk_scenarios(with_outlines=True, with_rules=True):
        if isinstance(s, Rule):
            parts.append("R@%s:%s%s" % (s.location.line,
                                        "S" if s.should_skip else "-",
                                        s.status.name[0]))
            continue
        kind = "O" if isinstance(s, ScenarioOutline) else "s"
        step_statuses = "".join(step.status.name[0] for step in s.steps) \
            if not isinstance(s, ScenarioOutline) else ""
        parts.append("%s@%s:%s%s%s" % (kind, s.location.line,
                                      "S" if s.should_skip else "-",
                                      s.status.name[0], step_statuses))
    return "%s{%s skip=%s status=%s} %s" % (
        feature.name, os.path.relpath(feature.filename, WORK),
        feature.should_skip, feature.status.name, " ".join(parts))


def attempt(label, func, *args, **kwargs):
    try:
        result = func(*args, **kwargs)
    except BaseException as e:      # pylint: disable=broad-except
        show(label, "=> RAISED", describe_exception(e))
        return None
    return result


# ---------------------------------------------------------------------------
# SECTIONS
# ---------------------------------------------------------------------------
def section(title):
    show("")
    show("=" * 8, title, "=" * 8)


def check_file_location_parser():
    section("FileLocationParser.parse")
    texts = [
        "alice.feature", "alice.feature:10", "alice.feature:0", "alice.feature:007",
        "  alice.feature:12  ", " alice.feature ", "features/alice.feature:3",
        "a:b.feature:4", "a:1:2", "alice.feature:", "alice.feature:-1",
        "alice.feature:1x", ":5", "", "   ", "C:\\x\\alice.feature:9",
        "alice.feature: 5", "alice.feature :5", "alice.feature:5\n",
        "alice.feature:5\nfoo", u"\u00e4lice.feature:2", "alice.feature:\t8",
        u"alice.feature:\u0663", "x" * 10 + ":" + "9" * 30,
        "alice.feature:" + "1" * 5000,
    ]
    for text in texts:
        location = attempt("parse(%r)" % text[:40], FileLocationParser.parse, text)
        if location is not None:
            show("parse(%r)" % text[:40], "=>", describe_location(location)[:120],
                 "str=%s" % (u"%s" % location)[:80])
    for bad in (None, 5, b"alice.feature:3" if str is not bytes else u"alice.feature:3"):
        location = attempt("parse(%r)" % (bad,), FileLocationParser.parse, bad)
        if location is not None:
            show("parse(%r)" % (bad,), "=>", describe_location(location))


def check_line_database():
    section("FeatureLineDatabase: every line")
    for name, text in FILES:
        if not name.endswith(".feature"):
            continue
        feature = gherkin.parse_file(os.path.abspath(name))
        show("--", name, "=>", describe_entity(feature))
        if feature is None:
            continue
        database = FeatureLineDatabase.make(feature)
        database2 = FeatureLineDatabase(feature)
        show("data:", ", ".join("%s=%s" % (line, describe_entity(entity))
                                for line, entity in database.data.items()))
        assert list(database.data.items()) == list(database2.data.items())
        show("line_data_for:", ", ".join(
            "%s=%s" % (line, describe_entity(entity))
            for line, entity in FeatureLineDatabase.make_line_data_for(feature)))
        lines = list(range(-2, line_count(text) + 5)) + [10**6]
        # -- ASCENDING and then DESCENDING (cached index is reused).
        for line in lines + lines[::-1]:
            run_item = database.select_run_item_by_line(line)
            scenarios = database.select_scenarios_by_line(line)
            assert isinstance(scenarios, list)
            for scenario in scenarios:
                assert isinstance(scenario, Scenario)
            show("line", line, "=>", describe_entity(run_item), "=>",
                 describe_scenarios(scenarios))
        # -- RESULT LIST IS A FRESH LIST (not the model's own list).
        for run_item in database.data.values():
            selected = database.select_scenarios_by_line(run_item.location.line)
            selected.append(MARKER)
            again = database.select_scenarios_by_line(run_item.location.line)
            show("fresh-list", describe_entity(run_item),
                 not any(x is MARKER for x in again), len(again))
        # -- SUB-ENTITY DATABASES:
        for entity in feature.walk_scenarios(with_outlines=True, with_rules=True):
            sub = FeatureLineDatabase.make(entity)
            show("sub", describe_entity(entity), "data:",
                 ", ".join("%s=%s" % (l, describe_entity(e))
                           for l, e in sub.data.items()))
            for line in (0, 1, entity.location.line - 1, entity.location.line,
                         entity.location.line + 1, 10**6):
                show("  sub-line", line, "=>",
                     describe_entity(sub.select_run_item_by_line(line)), "=>",
                     describe_scenarios(sub.select_scenarios_by_line(line)))

    show("-- special databases")
    empty = FeatureLineDatabase()
    show("empty.data", list(empty.data.items()))
    attempt("empty.select_run_item_by_line(3)", empty.select_run_item_by_line, 3)
    attempt("empty.select_scenarios_by_line(3)", empty.select_scenarios_by_line, 3)
    custom = FeatureLineDatabase(line_data=[(5, "five"), (9, None), (12, "twelve")])
    for line in (0, 4, 5, 6, 8, 9, 10, 11, 12, 13):
        show("custom line", line, "=>", custom.select_run_item_by_line(line), "=>",
             custom.select_scenarios_by_line(line))
    attempt("custom.select_run_item_by_line(None)",
            custom.select_run_item_by_line, None)
    attempt("custom.select_run_item_by_line('7')",
            custom.select_run_item_by_line, "7")
    attempt("make(None)", FeatureLineDatabase.make, None)
    attempt("make('text')", FeatureLineDatabase.make, "text")
    nothing = FeatureLineDatabase(None, None)
    show("nothing", nothing.entity, list(nothing.data.items()))


def feature_paths():
    return [name for name, _ in FILES if name.endswith(".feature")]


def show_parse_features(locations, **kwargs):
    label = "parse_features([%s])" % ", ".join(
        (u"%s" % loc) if isinstance(loc, FileLocation) else repr(loc)
        for loc in locations)
    features = attempt(label, parse_features, locations, **kwargs)
    if features is None:
        return
    show(label, "=> %d feature(s)" % len(features))
    for feature in features:
        show("   ", describe_feature_selection(feature))


def check_parse_features_single():
    section("parse_features: single location, every line")
    for name, text in FILES:
        if not name.endswith(".feature"):
            continue
        show_parse_features([FileLocation(name)])
        show_parse_features([name])
        for line in list(range(0, line_count(text) + 4)) + [10**6]:
            show_parse_features([FileLocation(name, line)])


def check_parse_features_multi():
    section("parse_features: 2..3 locations per file")
    for name, text in FILES:
        if not name.endswith(".feature"):
            continue
        count = line_count(text)
        lines = list(range(0, count + 2))
        step = 1 if count < 20 else 3
        for line1, line2 in itertools.product(lines[::step], lines[::step]):
            show_parse_features([FileLocation(name, line1),
                                 FileLocation(name, line2)])
        triple_lines = lines[::max(1, count // 6)]
        for triple in itertools.product(triple_lines, repeat=3):
            show_parse_features([FileLocation(name, line) for line in triple])
        # -- MIXED: bare filename + lines.
        show_parse_features([FileLocation(name), FileLocation(name, 5)])
        show_parse_features([FileLocation(name, 5), FileLocation(name)])
        show_parse_features([FileLocation(name, 5), name])
        show_parse_features([name, name])


def check_parse_features_many_files():
    section("parse_features: several files")
    alice, bob, charly, empty, dora = feature_paths()
    L = FileLocation
    cases = [
        [],
        [L(alice, 15), L(bob, 4)],
        [L(alice, 15), L(alice, 37), L(bob, 4), L(bob, 2)],
        [L(alice, 15), L(bob, 4), L(alice, 37)],
        [L(bob, 4), L(alice, 15), L(bob, 6), L(alice)],
        [L(alice, 15), L(empty), L(alice, 37)],
        [L(alice, 15), L(empty, 3), L(empty, 4), L(bob, 2)],
        [L(empty), L(empty, 2)],
        [L(empty), L(alice, 44), L(alice, 45)],
        [L(charly, 2), L(charly, 3), L(dora, 9)],
        [L(charly), L(dora, 10), L(dora, 13), L(dora, 16)],
        [L(dora, 6), L(dora, 9), L(dora, 10)],
        [L(alice, 25), L(alice, 26), L(alice, 30), L(bob), L(dora, 0)],
        [alice, bob, dora],
        [alice, L(alice, 15)],
        [L(alice, 15), "./" + alice],
        [L(alice, 15), "features/../" + alice, L(alice, 37)],
        [L(os.path.abspath(alice), 15), L(alice, 37)],
        [L(alice, 15), L("features/missing.feature", 3)],
        ["features/missing.feature"],
        [alice + ":15"],
        [L(alice, 15), 42],
        [L(alice, 15), None],
        [L(alice, 15), L(alice, 15), L(alice, 15)],
        (L(bob, 4), L(bob, 6)),
        iter([L(bob, 4), L(bob, 6), L(dora, 14)]),
    ]
    for locations in cases:
        show_parse_features(locations)
    show_parse_features([L(bob, 4)], language="en")
    show_parse_features([L(bob, 4), L(bob, 6)], language="de")


def check_collectors():
    section("FeatureScenarioLocationCollector variants")
    alice = feature_paths()[0]
    collector_classes = [FeatureScenarioLocationCollector,
                         FeatureScenarioLocationCollector1,
                         FeatureScenarioLocationCollector2]
    line_sets = [(), (0,), (13,), (14,), (15,), (22,), (30,), (35,), (13, 38),
                 (1,), (3,), (63,), (70,), (15, 0), (22, 29, 33), (10,)]
    for collector_class in collector_classes:
        for lines in line_sets:
            label = "%s%r" % (collector_class.__name__, lines)
            feature = gherkin.parse_file(os.path.abspath(alice))
            collector = collector_class(feature)
            for line in lines:
                collector.add_location(FileLocation(alice, line))
            show(label, "filename=%s use_all=%s lines=%s" % (
                collector.filename, collector.use_all_scenarios,
                sorted(collector.scenario_lines)))
            for strict in (False, True):
                selected = attempt(label + " discover(strict=%s)" % strict,
                                   collector.discover_selected_scenarios, strict)
                if selected is not None:
                    assert isinstance(selected, set)
                    show(label, "discover(strict=%s)" % strict, "=>",
                         describe_scenarios(sorted(selected,
                                                   key=lambda s: s.location.line)),
                         "lines=%s" % sorted(collector.scenario_lines))
            feature = gherkin.parse_file(os.path.abspath(alice))
            collector = collector_class(feature, FileLocation(alice, 99))
            for line in lines:
                collector.add_location(FileLocation(alice, line))
            built = attempt(label + " build_feature", collector.build_feature)
            if built is not None:
                assert built is feature
                show(label, "build =>", describe_feature_selection(built))
                show(label, "selected =>", describe_scenarios(
                    sorted(collector.selected_scenarios,
                           key=lambda s: s.location.line)))
            collector.clear()
            show(label, "cleared:", collector.feature, collector.filename,
                 collector.use_all_scenarios, sorted(collector.scenario_lines),
                 sorted(collector.all_scenarios), sorted(collector.selected_scenarios))
    collector = FeatureScenarioLocationCollector2(location=FileLocation("x.feature", 3))
    attempt("add_location(other file)", collector.add_location,
            FileLocation("y.feature", 4))
    show("no-feature build =>", collector.build_feature())
    attempt("no-feature discover", collector.discover_selected_scenarios)
    for lines in ([], [10, 20, 30]):
        for line in (0, 9, 10, 11, 20, 29, 30, 31):
            show("select_scenario_line_for(%s, %s) =>" % (line, lines),
                 FeatureScenarioLocationCollector.select_scenario_line_for(line, lines),
                 FeatureScenarioLocationCollector1.select_scenario_line_for(line, lines))


def check_feature_list_parser():
    section("FeatureListParser")
    text = u"""\
# -- comment line
features/alice.feature
  features/alice.feature:15

   # indented comment
features/bob.feature:4
features/sub/dora.feature : 3
features/*.feature
features/sub/*.feature:3
features/sub/[cd]*.feature
features/s?b/dora.feature
features/none*.feature
features/../features/bob.feature:2
./features/./bob.feature
%(abs)s
%(abs)s:7
features/missing.feature:12
#features/bob.feature
features/alice.feature:15   \t
features/alice.feature:0
""" % {"abs": os.path.abspath("features/bob.feature")}
    for here in (None, "", ".", "features", os.path.abspath("."), "nowhere/else"):
        locations = attempt("parse(text, here=%r)" % here,
                            FeatureListParser.parse, text, here)
        if locations is None:
            continue
        show("parse(text, here=%r) => %d" % (here, len(locations)))
        for location in sorted_globs(locations):
            show("   ", describe_location(location))
    for snippet in (u"", u"\n\n", u"#only\n", u"a.feature", u"a.feature:3\r\nb.feature:4\r\n",
                    u"  # x\n\t\nc.feature:9", u"x.feature:3:4", u"*.feature:" + "1" * 5000):
        locations = attempt("parse(%r)" % snippet[:30], FeatureListParser.parse, snippet)
        if locations is not None:
            show("parse(%r) =>" % snippet[:30],
                 [describe_location(loc) for loc in locations])

    listfiles = {
        "all.txt": u"# all\nfeatures/alice.feature:15\nfeatures/alice.feature:37\n\nfeatures/bob.feature\n",
        "features/rel.txt": u"bob.feature:4\n  sub/dora.feature:9  \n# c\n\nsub/*.feature\nalice.feature:30\nalice.feature:35\n",
        "features/sub/up.txt": u"../bob.feature:6\ndora.feature\n%s:15\n" % os.path.abspath("features/alice.feature"),
        "empty.txt": u"",
    }
    for name, contents in sorted(listfiles.items()):
        with open(name, "w") as f:
            f.write(contents)
    for name in sorted(listfiles) + ["missing.txt", "features"]:
        for prefix in ("", "@"):
            label = "parse_file(%r)" % (prefix + name)
            locations = attempt(label, FeatureListParser.parse_file, prefix + name)
            if locations is None:
                continue
            show(label, "=> %d" % len(locations))
            for location in sorted_globs(locations):
                show("   ", describe_location(location))
            show_parse_features(sorted_globs(locations))


def sorted_globs(locations):
    # -- glob order is filesystem dependent but identical within one machine;
    #    keep the order as returned (it is part of the observable result).
    return list(locations)


def check_collect_feature_locations():
    section("collect_feature_locations")
    cases = [
        ["features"],
        ["features/sub"],
        ["features/alice.feature:15", "features/alice.feature:37"],
        ["@all.txt"],
        ["@features/rel.txt", "features/bob.feature:2"],
        ["@features/sub/up.txt"],
        ["@empty.txt"],
        ["features/sub", "@all.txt", "features/bob.feature:6"],
        ["@missing.txt"],
        ["features/missing.feature"],
        ["features/missing.feature:3"],
        ["features/notes.txt"],
        ["features/notes.txt:3"],
        [],
    ]
    for paths in cases:
        for strict in (True, False):
            label = "collect(%r, strict=%s)" % (paths, strict)
            locations = attempt(label, collect_feature_locations, paths, strict)
            if locations is None:
                continue
            show(label, "=>", [describe_location(loc) for loc in locations])
            show_parse_features(locations)


NAME_PATTERNS = [
    ["A1"], ["A2"], ["A2 anna"], ["anna"], ["B1"], ["B2 (special)"],
    ["B2 \\(special\\) \\[x\\]"], ["^A"], ["S1$"], ["R1|R2"], ["A1", "D2"],
    ["teardown"], ["setup", "B1"], ["nothing matches this"], ["."], [""],
    ["R1.O2 -- @1.2"], ["@1.1"], ["Table2"], ["a", "b", "c"], ["[AB]1"],
    ["(?i)a1"], ["D1 a"], ["^$"],
]


def check_name_select_model():
    section("name selection: config.name_re + should_run_with_name_select")
    features = []
    for name in feature_paths():
        feature = gherkin.parse_file(os.path.abspath(name))
        if feature is not None:
            features.append(feature)
    for names in NAME_PATTERNS + [[]]:
        args = []
        for name in names:
            args.extend(["--name", name])
        config = attempt("Configuration(%r)" % names, Configuration, args,
                         load_config=False)
        if config is None:
            continue
        name_re = config.name_re
        show("names=%r" % names, "config.name=%r" % config.name, "name_re=%s flags=%s" % (
            (name_re.pattern, name_re.flags) if name_re else (None, None)))
        for feature in features:
            for entity in feature.walk_scenarios(with_outlines=True):
                answer = entity.should_run_with_name_select(config)
                if answer is True or answer is False or answer is None:
                    text = repr(answer)
                else:
                    text = "match%r=%r" % (answer.span(), answer.group(0))
                show("   ", describe_entity(entity), "name_select=%s" % text,
                     "should_run=%r" % bool(entity.should_run(config)))
    for names in (["a", "b"], [u"\u00e4", "x"], [], ["(", "x"], ["a|b", "c"]):
        name_re = attempt("build_name_re(%r)" % names, Configuration.build_name_re, names)
        if name_re is not None:
            show("build_name_re(%r) =>" % names, repr(name_re.pattern), name_re.flags,
                 bool(name_re.search(u"xa\u00e4")))


def run_behave(args):
    obs_file = os.path.join(WORK, "obs.txt")
    if os.path.exists(obs_file):
        os.remove(obs_file)
    env = dict(os.environ)
    env["PYTHONPATH"] = "/tmp/wtU/C10"
    env["C10_OBS_FILE"] = obs_file
    env.pop("BEHAVE_ARGS", None)
    command = [sys.executable, "-m", "behave", "--no-color", "-f", "plain",
               "--no-timings", "--no-capture"] + args
    process = subprocess.Popen(command, cwd=WORK, env=env,
                               stdout=subprocess.PIPE, stderr=subprocess.STDOUT)
    output = process.communicate()[0].decode("UTF-8", "replace")
    show("$ behave", " ".join(args), "=> exit %s" % process.returncode)
    for line in output.splitlines():
        if line.startswith("Took "):
            continue
        show("  |", line.rstrip())
    if os.path.exists(obs_file):
        with open(obs_file) as f:
            for line in f.read().splitlines():
                show("  #", line)


def check_runs():
    section("real runs: python -m behave")
    runs = [
        ["features"],
        ["features/alice.feature:15"],
        ["features/alice.feature:16", "features/alice.feature:38"],
        ["features/alice.feature:22", "features/bob.feature:4", "features/sub/dora.feature:9"],
        ["features/alice.feature:30", "features/alice.feature:31", "features/alice.feature:35"],
        ["features/alice.feature:40"],
        ["features/alice.feature:3"],
        ["features/alice.feature:0"],
        ["features/alice.feature:999"],
        ["features/sub/dora.feature:16", "--show-skipped"],
        ["@all.txt"],
        ["@features/rel.txt"],
        ["@features/sub/up.txt", "--dry-run"],
        ["@missing.txt"],
        ["features/alice.feature:15", "features/sub/empty.feature", "features/alice.feature:37"],
        ["--name", "A1", "features"],
        ["--name", "A2", "--name", "B2 \\(special\\)", "features"],
        ["--name", "anna", "features/alice.feature"],
        ["--name", "S1$", "features/alice.feature"],
        ["--name", "R1", "features/alice.feature:40"],
        ["--name", "A1", "features/alice.feature:63"],
        ["--name", "nothing matches", "features"],
        ["--name", "teardown", "features", "--show-skipped"],
        ["--name", "D", "features/sub/dora.feature:16"],
        ["--name", "(", "features"],
        ["--tags", "@outline", "--name", "berta", "features/alice.feature:22"],
    ]
    for args in runs:
        run_behave(args)


def main():
    setup_workdir()
    try:
        check_file_location_parser()
        check_line_database()
        check_parse_features_single()
        check_parse_features_multi()
        check_parse_features_many_files()
        check_collectors()
        check_feature_list_parser()
        check_collect_feature_locations()
        check_name_select_model()
        check_runs()
    finally:
        os.chdir(HERE)
        shutil.rmtree(WORK, ignore_errors=True)


if __name__ == "__main__":
    main()
