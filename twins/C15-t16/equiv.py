# -*- coding: utf-8 -*-
"""
Equivalence transcript for twin C15-t16 (ModelDescriptor.describe_table).
Runs real behave runs (subprocess, PYTHONPATH points to the worktree) whose
plain / steps.code / junit outputs render step tables, and calls
describe_table / ModelPrinter.print_table directly in-process on many
representative and boundary tables.  Prints a canonical transcript.
"""
from __future__ import absolute_import, print_function, unicode_literals
import io
import json
import os
import re
import shutil
import subprocess
import sys
import tempfile

WORKTREE = "/tmp/wtW/C15"
sys.path.insert(0, WORKTREE)

# ---------------------------------------------------------------------------
# FIXTURE TREE
# ---------------------------------------------------------------------------
FILES = {}
FILES["features/basic.feature"] = u'''
@feat
Feature: Basic fäture
  A description line.
  Second description line.

  Background: Common
    Given a passing step
    And a table step
      | name  | value   |
      | Alice | 1\\|2    |
      | Böb   | x\\\\y    |

  @ok
  Scenario: Passing scénario
    Given a passing step
    When I add 3 and 4
    Then the float 1.5 is seen
    And a doc-string step
      """
      line one
        indented "quoted" line
      ünicode line
      """

  @bad
  Scenario: Failing scenario
    Given a passing step
    When a failing step
    Then a passing step

  Scenario: Undefined scenario
    Given a passing step
    When an undefined step
    Then a passing step

  @skip
  Scenario: Skipped scenario
    Given a passing step

  Scenario: Error scenario
    Given a step that raises "böse"
    Then a passing step

  Scenario: Attach scenario
    Given a step that attaches data
    And a step that attaches data
    Then a custom value "abc" is seen

  @outline
  Scenario Outline: Outline <name>
    Given a passing step
    When I add <a> and <b>
    Then the word "<name>" is seen

    Examples: First
      | name | a | b |
      | one  | 1 | 2 |
      | two  | 3 | 4 |

    @skip
    Examples: Second
      | name  | a | b |
      | three | 5 | 6 |

    Examples: Third
      | name | a | b |
      | four | 7 | x |
'''
FILES["features/rules.feature"] = u'''
Feature: With rules

  Background: Feature background
    Given a passing step

  Scenario: Before rules
    When I add 1 and 1

  Rule: First rule
    Background: Rule background
      Given a table step
        | a |
        | 1 |

    Scenario: R1 S1
      When a passing step

    Scenario: R1 failing
      When a failing step
      Then a passing step

    Scenario Outline: R1 outline <n>
      When I add <n> and <n>

      Examples:
        | n |
        | 1 |
        | 2 |

  Rule: Second rule

    Scenario: R2 S1
      Given a doc-string step
        """
        only line
        """

  @skip
  Rule: Skipped rule
    Scenario: R3 S1
      Given a passing step
'''
FILES["features/empty.feature"] = u'''
Feature: Empty feature
  Nothing here.
'''
FILES["features/bgfail.feature"] = u'''
Feature: Background fails

  Background:
    Given a failing step

  Scenario: BF one
    Then a passing step

  Scenario: BF two
    Then a passing step
'''
FILES["features/steps/steps.py"] = u'''# -*- coding: utf-8 -*-
from __future__ import unicode_literals
from behave import given, when, then, step, register_type


class Custom(object):
    def __init__(self, text):
        self.text = text


def parse_custom(text):
    return Custom(text)

register_type(Custom=parse_custom)


@step(u'a passing step')
def step_pass(ctx):
    pass

@step(u'a failing step')
def step_fail(ctx):
    assert False, u"XFAIL first line\\nsecond lïne"

@step(u'a table step')
def step_table(ctx):
    assert ctx.table is not None

@step(u'a doc-string step')
def step_text(ctx):
    assert ctx.text

@step(u'I add {a:d} and {b:d}')
def step_add(ctx, a, b):
    ctx.sum = a + b

@step(u'the float {x:f} is seen')
def step_float(ctx, x):
    pass

@step(u'the word "{word}" is seen')
def step_word(ctx, word):
    pass

@step(u'a custom value "{value:Custom}" is seen')
def step_custom(ctx, value):
    assert isinstance(value, Custom)

@step(u'a step that raises "{msg}"')
def step_raise(ctx, msg):
    raise RuntimeError(msg)

@step(u'a step that attaches data')
def step_attach(ctx):
    ctx.attach("text/plain", b"hello \\xc3\\xa4")
'''
FILES["rec_formatter.py"] = u'''# -*- coding: utf-8 -*-
from __future__ import unicode_literals
from behave.formatter.base import Formatter


class RecordingFormatter(Formatter):
    name = "rec"
    description = "records events"

    def __init__(self, stream_opener, config):
        super(RecordingFormatter, self).__init__(stream_opener, config)
        self.stream = self.open()

    def _w(self, text):
        self.stream.write(text + u"\\n")

    def uri(self, uri):
        self._w(u"uri %s" % uri)

    def feature(self, feature):
        self._w(u"feature %s" % feature.name)

    def rule(self, rule):
        self._w(u"rule %s" % rule.name)

    def background(self, background):
        self._w(u"background %s @%s" % (background.name, background.location))

    def scenario(self, scenario):
        self._w(u"scenario %s @%s" % (scenario.name, scenario.location))

    def step(self, step):
        self._w(u"step %s %s" % (step.keyword, step.name))

    def match(self, match):
        args = [(a.name, a.original, repr(type(a.value).__name__))
                for a in match.arguments]
        self._w(u"match %s %r" % (match.location, args))

    def result(self, step):
        self._w(u"result %s => %s" % (step.name, step.status.name))

    def eof(self):
        self._w(u"eof")

    def close(self):
        self._w(u"close")
        self.close_stream()
'''


FILES["features/tables.feature"] = u'''
Feature: Tables

  Scenario: Many tables
    Given a table step
      | a |
    And a table step
      | wide heading here | b |
      | x                 | a much wider cell than its heading |
      |                   |   |
    When a table step
      | esc \\| pipe | back \\\\ slash | nl \\n line |
      | \\|\\|\\|       | \\\\\\\\          | \\n\\n      |
    Then a table step
      | ünï | 日本語 | e\u0301 |
      | ä   | 語     | x  |
    And a failing step
    And a table step
      | never | run |
      | 1     | 2   |

  Scenario Outline: Outline table <v>
    Given a table step
      | key | <v>     |
      | <v> | <v><v> |

    Examples:
      | v       |
      | 1       |
      | longer  |
'''


def make_tree():
    root = tempfile.mkdtemp(prefix="c15twin_")
    for relname, content in FILES.items():
        path = os.path.join(root, relname)
        dirname = os.path.dirname(path)
        if not os.path.isdir(dirname):
            os.makedirs(dirname)
        with io.open(path, "w", encoding="utf-8") as f:
            f.write(content)
    return root


# ---------------------------------------------------------------------------
# NORMALISATION
# ---------------------------------------------------------------------------
DURATION_JSON = re.compile(r'("duration":\s*)[-+0-9.eE]+')
DURATION_TXT = re.compile(r'\b\d+\.\d{3}s\b')
DURATION_SUMMARY = re.compile(r'Took \d+min \d+\.\d+s|Took \d+m\d+\.\d+s')


JUNIT_ATTRS = re.compile(r'\b(time|timestamp|hostname)="[^"]*"')


def normalise(text, root):
    text = text.replace(root, "<ROOT>")
    text = DURATION_JSON.sub(r'\g<1>0', text)
    text = DURATION_TXT.sub("N.NNNs", text)
    text = DURATION_SUMMARY.sub("Took T", text)
    text = JUNIT_ATTRS.sub(r'\1="X"', text)
    return text


def emit(title, text):
    print("=" * 8, title)
    for line in text.splitlines():
        print("  | " + line.rstrip())


def run_behave(root, label, args, outputs):
    env = dict(os.environ)
    env["PYTHONPATH"] = os.pathsep.join([WORKTREE, root])
    env["PYTHONIOENCODING"] = "utf-8"
    env["COLUMNS"] = "80"
    env.pop("BEHAVE_ARGS", None)
    for name in outputs:
        path = os.path.join(root, name)
        if os.path.exists(path):
            os.remove(path)
    cmd = [sys.executable, "-m", "behave"] + args
    proc = subprocess.Popen(cmd, cwd=root, env=env, stdout=subprocess.PIPE,
                            stderr=subprocess.STDOUT)
    out, _ = proc.communicate()
    out = out.decode("utf-8", "replace")
    print("#" * 70)
    print("RUN", label, " ".join(args))
    print("returncode:", proc.returncode)
    emit("stdout", normalise(out, root))
    results = {}
    for name in outputs:
        path = os.path.join(root, name)
        if not os.path.exists(path):
            emit(name, "<missing>")
            continue
        with io.open(path, "r", encoding="utf-8") as f:
            content = f.read()
        results[name] = content
        emit(name, normalise(content, root))
    return results


def describe_json(text, root):
    """Parse the JSON report, print a canonical dump and read it back."""
    try:
        data = json.loads(text)
    except ValueError as e:
        print("JSON INVALID:", e.__class__.__name__)
        return
    canonical = json.dumps(data, indent=1, sort_keys=True, ensure_ascii=True)
    emit("json canonical", normalise(canonical, root))
    from behave.json_parser import JsonParser
    try:
        features = JsonParser().parse_features(data)
    except Exception as e:      # pylint: disable=broad-except
        print("READBACK:", e.__class__.__name__, e)
        return
    def loc(x):
        return (x.location.filename, x.location.line)

    for feature in features:
        print("READBACK feature", repr(feature.name), loc(feature),
              feature.tags)
        if feature.background:
            print("   background", repr(feature.background.name),
                  [(s.name, s.status.name) for s in feature.background.steps])
        for scenario in feature.scenarios:
            print("   scenario", repr(scenario.name), loc(scenario),
                  scenario.tags)
            for step in scenario.steps:
                print("      step", step.keyword, repr(step.name),
                      step.status.name, repr(step.error_message),
                      repr(step.text),
                      step.table and (step.table.headings,
                                      [list(r) for r in step.table.rows]))


COMMON = ["--no-color", "--no-summary"]
RUNS = [
    ("all-formatters",
     ["-f", "json.pretty", "-o", "out.json", "-f", "plain", "-o", "plain.txt",
      "-f", "progress", "-o", "p1.txt", "-f", "progress2", "-o", "p2.txt",
      "-f", "progress3", "-o", "p3.txt", "-f", "pretty", "-o", "pretty.txt",
      "-f", "rec_formatter:RecordingFormatter", "-o", "rec.txt",
      "--tags=~@skip", "features"],
     ["out.json", "plain.txt", "p1.txt", "p2.txt", "p3.txt", "pretty.txt",
      "rec.txt"]),
    ("reverse-order-show-skipped",
     ["-f", "rec_formatter:RecordingFormatter", "-o", "rec.txt",
      "-f", "progress3", "-o", "p3.txt", "-f", "plain", "-o", "plain.txt",
      "-f", "json", "-o", "out.json", "--tags=~@skip", "--show-skipped",
      "features"],
     ["out.json", "plain.txt", "p3.txt", "rec.txt"]),
    ("no-skipped-no-multiline-timings",
     ["-f", "json", "-o", "out.json", "-f", "plain", "-o", "plain.txt",
      "-f", "progress2", "-o", "p2.txt", "-f", "progress3", "-o", "p3.txt",
      "--tags=~@skip", "--no-skipped", "--no-multiline", "--show-timings",
      "features"],
     ["out.json", "plain.txt", "p2.txt", "p3.txt"]),
    ("dry-run",
     ["-f", "json.pretty", "-o", "out.json", "-f", "plain", "-o", "plain.txt",
      "-f", "progress3", "-o", "p3.txt",
      "-f", "rec_formatter:RecordingFormatter", "-o", "rec.txt",
      "--dry-run", "features"],
     ["out.json", "plain.txt", "p3.txt", "rec.txt"]),
    ("only-empty-feature",
     ["-f", "json", "-o", "out.json", "-f", "plain", "-o", "plain.txt",
      "-f", "progress3", "-o", "p3.txt", "features/empty.feature"],
     ["out.json", "plain.txt", "p3.txt"]),
    ("no-feature-selected",
     ["-f", "json", "-o", "out.json", "-f", "plain", "-o", "plain.txt",
      "--tags=@nonexistent", "--no-skipped", "features"],
     ["out.json", "plain.txt"]),
    ("stop-on-failure",
     ["-f", "json.pretty", "-o", "out.json", "-f", "plain", "-o", "plain.txt",
      "-f", "rec_formatter:RecordingFormatter", "-o", "rec.txt",
      "--stop", "features/basic.feature"],
     ["out.json", "plain.txt", "rec.txt"]),
    ("json-on-stdout",
     ["-f", "json", "features/rules.feature", "features/bgfail.feature"],
     []),
    ("table-renderers",
     ["-f", "plain", "-o", "plain.txt", "-f", "steps.code", "-o", "code.txt",
      "--junit", "--junit-directory", "reports",
      "--tags=~@skip", "--no-timings", "features/tables.feature",
      "features/rules.feature", "features/basic.feature"],
     ["plain.txt", "code.txt", "reports/TESTS-tables.xml",
      "reports/TESTS-rules.xml"]),
    ("colored-pretty",
     ["-f", "pretty", "-o", "pretty.txt", "-f", "json", "-o", "out.json",
      "--color", "features/rules.feature"],
     ["pretty.txt", "out.json"]),
]


def real_runs(root):
    for label, args, outputs in RUNS:
        use_common = [a for a in COMMON
                      if not (a == "--no-color" and "--color" in args)]
        results = run_behave(root, label, use_common + args, outputs)
        if "out.json" in results:
            describe_json(results["out.json"], root)


# ---------------------------------------------------------------------------
# DIRECT (IN-PROCESS) USE OF ModelDescriptor / ModelPrinter
# ---------------------------------------------------------------------------
class FakeTable(object):
    """Duck-typed table: only .headings and .rows are used."""
    def __init__(self, headings, rows):
        self.headings = headings
        self.rows = rows


def direct_describe_table():
    from behave.model import Table, Row
    from behave.model_describe import ModelDescriptor, ModelPrinter

    print("#" * 70)
    print("DIRECT describe_table")

    def show(label, table, indentation):
        try:
            text = ModelDescriptor.describe_table(table, indentation)
        except Exception as e:      # pylint: disable=broad-except
            print("  ", label, repr(indentation), "raised",
                  e.__class__.__name__, "|", e)
            return
        print("  ", label, repr(indentation), "->", type(text).__name__,
              len(text))
        print("     repr:", repr(text))
        for line in text.split("\n"):
            print("     [" + line + "]")

    headings3 = [u"name", u"value", u"x"]
    TABLES = [
        ("headings-only", Table([u"a", u"bb", u""])),
        ("single-cell", Table([u"a"], rows=[[u"1"]])),
        ("empty-cells", Table([u"", u""], rows=[[u"", u""], [u"", u""]])),
        ("heading-widest", Table([u"a long heading", u"b"],
                                 rows=[[u"1", u"2"], [u"33", u"4"]])),
        ("cell-widest", Table([u"a", u"b"],
                              rows=[[u"a wide cell", u"2"],
                                    [u"3", u"another wide cell"]])),
        ("escapes", Table([u"p|pe", u"back\\slash", u"new\nline"],
                          rows=[[u"|", u"\\", u"\n"],
                                [u"|||", u"\\\\|", u"a\nb\nc"],
                                [u"\\n", u"\\|", u"|\n\\"]])),
        ("unicode", Table([u"\u00fcn\u00ef", u"\u65e5\u672c\u8a9e"],
                          rows=[[u"\u00e4", u"\u8a9e"],
                                [u"e\u0301", u"\U0001F600"]])),
        ("whitespace-cells", Table([u" a ", u"\t"],
                                   rows=[[u"  ", u" x"], [u"y ", u""]])),
        ("many-rows", Table([u"i", u"sq"],
                            rows=[[u"%d" % i, u"%d" % (i * i)]
                                  for i in range(25)])),
        ("many-columns", Table([u"c%d" % i for i in range(12)],
                               rows=[[u"x" * ((i * j) % 7) for i in range(12)]
                                     for j in range(4)])),
        ("row-objects", Table(headings3,
                              rows=[Row(headings3, [u"1", u"22", u"333"]),
                                    Row(headings3, [u"4444", u"5", u""])])),
        ("no-columns", FakeTable([], [])),
        ("no-columns-with-rows", FakeTable([], [[], []])),
        ("tuple-rows", FakeTable([u"a", u"b"], [(u"1", u"22"), (u"333", u"4")])),
        ("tuple-headings", FakeTable((u"a", u"b"), [[u"1", u"2"]])),
        ("ragged-long-row", FakeTable([u"a", u"b"],
                                      [[u"1", u"2", u"extra-long-cell"],
                                       [u"3", u"4"]])),
        ("ragged-short-row", FakeTable([u"a", u"b"],
                                       [[u"1", u"2"], [u"3"]])),
        ("ragged-short-first-row", FakeTable([u"a", u"b", u"c"],
                                             [[u"1"], [u"1", u"2", u"3"]])),
        ("ragged-empty-row", FakeTable([u"a"], [[]])),
        ("headings-shorter-than-all", FakeTable([u"a"],
                                                [[u"1", u"2"], [u"3", u"4"]])),
        ("none-cell", FakeTable([u"a", u"b"], [[u"1", None]])),
        ("int-cell", FakeTable([u"a", u"b"], [[u"1", u"2"], [3, u"4"]])),
        ("bytes-cell", FakeTable([u"a"], [[b"bytes"]])),
        ("none-heading", FakeTable([None], [[u"1"]])),
        ("rows-none", FakeTable([u"a"], None)),
        ("rows-tuple", FakeTable([u"a"], ([u"1"],))),
        ("headings-none", FakeTable(None, [[u"1"]])),
    ]
    for label, table in TABLES:
        for indentation in (None, u"", u"  ", u"\t|", u"      "):
            show(label, table, indentation)

    # -- TABLE IS NOT MODIFIED:
    table = Table([u"a|", u"b"], rows=[[u"1\n", u"2\\"]])
    ModelDescriptor.describe_table(table, u"  ")
    print("   unchanged:", table.headings, [list(r) for r in table.rows])

    # -- PRINTER:
    class LogStream(object):
        def __init__(self):
            self.calls = []

        def write(self, text):
            self.calls.append(("write", text))

        def flush(self):
            self.calls.append(("flush",))

    for label, table in TABLES[:8] + TABLES[-8:]:
        for indentation in (None, u"    "):
            stream = LogStream()
            printer = ModelPrinter(stream)
            try:
                result = printer.print_table(table, indentation)
                print("   print_table", label, repr(indentation), "->",
                      repr(result), stream.calls)
            except Exception as e:      # pylint: disable=broad-except
                print("   print_table", label, repr(indentation), "raised",
                      e.__class__.__name__, "|", e, stream.calls)
    stream = LogStream()
    ModelPrinter(stream).print_docstring(u'one\n"""two"""\n  three', u"  ")
    print("   print_docstring", stream.calls)
    print("   describe_docstring",
          repr(ModelDescriptor.describe_docstring(u"x\ny")),
          repr(ModelDescriptor.describe_docstring(u"", u" ")))


def main():
    root = make_tree()
    try:
        real_runs(root)
    finally:
        shutil.rmtree(root, ignore_errors=True)
    direct_describe_table()


if __name__ == "__main__":
    main()
