# -*- coding: UTF-8 -*-
"""Equivalence transcript for C11-t20 (runner_util.load_step_modules)."""
from __future__ import print_function
import sys
sys.path.insert(0, "/tmp/wtW/C11")

import contextlib
import os
import re
import shutil
import subprocess
import tempfile
import types

from behave import matchers, runner_util, step_registry
from behave.matchers import get_step_matcher_factory
from behave.runner_util import load_step_modules

EVENTS = []
log_module = types.ModuleType("c11_log")
log_module.EVENTS = EVENTS
sys.modules["c11_log"] = log_module


class FakeContext(object):
    def __init__(self):
        self.log = []

    @contextlib.contextmanager
    def use_with_user_mode(self):
        yield


class FakeStep(object):
    def __init__(self, step_type, name):
        self.step_type = step_type
        self.name = name


def install_probes(workdir):
    factory = get_step_matcher_factory()
    def make_probe(name, original):
        def probe(*args, **kwargs):
            result = original(*args, **kwargs)
            EVENTS.append("%s%r -> current=%s default=%s" % (
                name, args or tuple(sorted(kwargs.items())),
                factory.current_matcher.NAME, factory.default_matcher.NAME))
            return result
        return probe

    for name in ("use_default_step_matcher", "use_step_matcher",
                 "use_current_step_matcher_as_default"):
        setattr(factory, name, make_probe(name, getattr(factory, name)))

    real_listdir = os.listdir

    def listdir_probe(path="."):
        if str(path).startswith(workdir):
            EVENTS.append("listdir(%s)" % str(path).replace(workdir, "<W>"))
        return real_listdir(path)
    os.listdir = listdir_probe


def write(path, text):
    dirname = os.path.dirname(path)
    if not os.path.isdir(dirname):
        os.makedirs(dirname)
    with open(path, "w") as f:
        f.write(text)


HEADER = u"""\
from behave import given, when, then, step
import c11_log
c11_log.EVENTS.append("exec %s (use_step_matcher in globals: %r)" % (
    __file__.split("/")[-2] + "/" + __file__.split("/")[-1],
    "use_step_matcher" in globals()))
"""


def report(workdir, label, step_paths, sys_path_before):
    factory = get_step_matcher_factory()
    registry = step_registry.registry
    print("-- %s: events" % label)
    for event in EVENTS:
        print("   %s" % event.replace(workdir, "<W>"))
    del EVENTS[:]
    print("-- %s: matcher current=%s default=%s default_name=%s sys.path restored=%r" % (
        label, factory.current_matcher.NAME, factory.default_matcher.NAME,
        factory.default_matcher_name, sys.path == sys_path_before))
    for step_type in ("given", "when", "then", "step"):
        print("   steps[%s]=%r" % (step_type, [
            (m.__class__.__name__, m.pattern,
             str(m.location).replace(workdir, "<W>"))
            for m in registry.steps[step_type]]))
    for step_type in ("given", "when", "then"):
        for text in ("I have 3 apples", "I have 3 pears", "numbers 1, 2",
                     "generated step 5", "late step", "anything else"):
            result = registry.find_match(FakeStep(step_type, text))
            if result is None:
                print("   lookup(%s, %r) -> None" % (step_type, text))
                continue
            context = FakeContext()
            try:
                result.run(context)
                ran = "ok"
            except Exception as e:  # pylint: disable=broad-except
                ran = "RAISED %s: %s" % (e.__class__.__name__, e)
            print("   lookup(%s, %r) -> %s %r run=%s events=%r" % (
                step_type, text, result.func.__name__,
                [(a.start, a.end, a.original, repr(a.value), a.name)
                 for a in result.arguments], ran, EVENTS))
            del EVENTS[:]


def run_case(workdir, label, step_paths, before=None):
    factory = get_step_matcher_factory()
    factory.reset()
    step_registry.registry.clear()
    del EVENTS[:]
    if before:
        before()
    sys_path_before = list(sys.path)
    print("== %s: load_step_modules(%r)" % (
        label, [p.replace(workdir, "<W>") for p in step_paths]
        if isinstance(step_paths, (list, tuple)) else type(step_paths).__name__))
    try:
        result = load_step_modules(step_paths)
        print("-- %s: returned %r" % (label, result))
    except BaseException as e:  # pylint: disable=broad-except
        print("-- %s: RAISED %s: %s" % (
            label, e.__class__.__name__, str(e).replace(workdir, "<W>")))
    report(workdir, label, step_paths, sys_path_before)


def build_tree(workdir):
    dir_a = os.path.join(workdir, "a_steps")
    dir_b = os.path.join(workdir, "b_steps")
    dir_c = os.path.join(workdir, "c_steps")
    dir_d = os.path.join(workdir, "d_steps")
    dir_e = os.path.join(workdir, "e_steps")
    # -- a_steps: matcher switch leaks must be reset after each entry.
    write(os.path.join(dir_a, "10_re.py"), HEADER + u"""
use_step_matcher("re")

@given(u'I have (?P<count>\\\\d+) apples')
def given_apples(ctx, count):
    c11_log.EVENTS.append("given_apples %r" % (count,))
""")
    write(os.path.join(dir_a, "15_notes.txt"), u"not python\n")
    write(os.path.join(dir_a, "20_parse.py"), HEADER + u"""
import a_helper

@step(u'I have {count:d} {what}')
def generic_have(ctx, count, what):
    c11_log.EVENTS.append("generic_have %r %r %s" % (count, what, a_helper.GREETING))
""")
    write(os.path.join(dir_a, "README"), u"no extension\n")
    write(os.path.join(dir_a, "a_helper.py"), u"""
import c11_log
c11_log.EVENTS.append("a_helper executed as %s" % __name__)
GREETING = "hello"
""")
    write(os.path.join(dir_a, "30_cf.py"), HEADER + u"""
from behave import register_type
import parse

use_step_matcher("cfparse")

@parse.with_pattern(r"\\d+")
def parse_number(text):
    return int(text)

register_type(Number=parse_number)

@when(u'numbers {values:Number+}')
def when_numbers(ctx, values):
    c11_log.EVENTS.append("when_numbers %r" % (values,))
""")
    write(os.path.join(dir_a, "zz_backup.py.orig"), u"raise RuntimeError('never loaded')\n")
    # -- b_steps: creates files on the fly (directory listing laziness).
    write(os.path.join(dir_b, "10_creator.py"), HEADER + u"""
import os
here = os.path.dirname(os.path.abspath(__file__))
root = os.path.dirname(here)
with open(os.path.join(here, "99_late.py"), "w") as f:
    f.write("from behave import step\\nimport c11_log\\n"
            "c11_log.EVENTS.append('exec late')\\n"
            "@step(u'late step')\\ndef late(ctx): pass\\n")
os.makedirs(os.path.join(root, "c_steps"))
with open(os.path.join(root, "c_steps", "00_generated.py"), "w") as f:
    f.write("from behave import then\\nimport c11_log\\n"
            "c11_log.EVENTS.append('exec generated')\\n"
            "@then(u'generated step {n:d}')\\n"
            "def generated(ctx, n): c11_log.EVENTS.append('generated %r' % n)\\n")
use_step_matcher("re")
""")
    write(os.path.join(dir_b, "20_after.py"), HEADER + u"""
@then(u'generated {anything}')
def then_generated_generic(ctx, anything):
    c11_log.EVENTS.append("then_generated_generic %r" % (anything,))
""")
    # -- d_steps: a failing module in the middle.
    write(os.path.join(dir_d, "10_ok.py"), HEADER + u"""
@given(u'I have {count:d} apples')
def given_apples_parse(ctx, count):
    c11_log.EVENTS.append("given_apples_parse %r" % (count,))
""")
    write(os.path.join(dir_d, "20_broken.py"), HEADER + u"""
use_step_matcher("re")
raise RuntimeError("broken step module")
""")
    write(os.path.join(dir_d, "30_never.py"), HEADER + u"""
@given(u'never registered')
def never(ctx): pass
""")
    # -- e_steps: a directory whose name ends with ".py" and an ambiguous pair.
    write(os.path.join(dir_e, "10_first.py"), HEADER + u"""
@given(u'I have {count:d} apples')
def first(ctx, count): pass
""")
    write(os.path.join(dir_e, "20_ambiguous.py"), HEADER + u"""
@given(u'I have 3 apples')
def second(ctx): pass
""")
    os.makedirs(os.path.join(dir_e, "15_dir.py"))
    return dir_a, dir_b, dir_c, dir_d, dir_e


FEATURE = u"""\
Feature: loading
  Scenario: steps from several modules
    Given I have 3 apples
    And I have 4 pears
    When numbers 1, 2, 3
    Then I have 5 plums
"""


def exercise_subprocess(workdir, dir_a):
    print("== python -m behave")
    project = os.path.join(workdir, "project")
    write(os.path.join(project, "features", "loading.feature"), FEATURE)
    shutil.copytree(dir_a, os.path.join(project, "features", "steps"))
    write(os.path.join(project, "c11_log.py"), u"class _Sink(list):\n"
          u"    def append(self, item):\n        print('EVENT: %s' % item)\n"
          u"EVENTS = _Sink()\n")
    env = dict(os.environ, PYTHONPATH="/tmp/wtW/C11" + os.pathsep + project,
               PYTHONDONTWRITEBYTECODE="1")
    proc = subprocess.Popen(
        [sys.executable, "-m", "behave", "-f", "plain", "--no-capture",
         "--no-timings", "--no-color", "features"],
        cwd=project, env=env, stdout=subprocess.PIPE,
        stderr=subprocess.STDOUT, universal_newlines=True)
    output = proc.communicate()[0]
    output = re.sub(r"Took \d+m\d+\.\d+s", "Took <DURATION>", output)
    print("  rc=%d" % proc.returncode)
    for line in output.replace(workdir, "<W>").splitlines():
        print("    | " + line.rstrip())


def main():
    workdir = os.path.realpath(tempfile.mkdtemp(prefix="c11t20_"))
    cwd = os.getcwd()
    try:
        os.chdir(workdir)
        dir_a, dir_b, dir_c, dir_d, dir_e = build_tree(workdir)
        exercise_subprocess(workdir, dir_a)
        install_probes(workdir)
        run_case(workdir, "single-dir", [dir_a])
        run_case(workdir, "empty-list", [])
        run_case(workdir, "cfparse-as-default", [dir_a],
                 before=lambda: matchers.use_step_matcher("cfparse"))
        run_case(workdir, "lazy-listing", [dir_a, dir_b, dir_c])
        run_case(workdir, "again-after-generation", [dir_c, dir_b])
        run_case(workdir, "broken-module", [dir_a, dir_d, dir_b])
        run_case(workdir, "missing-dir", [dir_a, os.path.join(workdir, "nowhere"), dir_b])
        run_case(workdir, "dir-named-py-and-ambiguous", [dir_e])
        run_case(workdir, "tuple-paths", (dir_d[:-7] + "a_steps",))
        run_case(workdir, "none-paths", None)
        run_case(workdir, "generator-paths", (p for p in [dir_a]))
    finally:
        os.chdir(cwd)
        shutil.rmtree(workdir, ignore_errors=True)
        get_step_matcher_factory().reset()


if __name__ == "__main__":
    main()
