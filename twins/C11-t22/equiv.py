# -*- coding: UTF-8 -*-
"""
Equivalence transcript for property C11 (step matching and dispatch), twin C11-t22.

Exercises the public behaviour of behave.matchers, behave.step_registry and
behave.runner_util.load_step_modules (plus one "python -m behave" run) and
prints a canonical transcript.  Run on the clean and on the patched tree:
the two transcripts must be identical.
"""
from __future__ import print_function
import sys
sys.path.insert(0, "/tmp/wtX/C11")
import os
os.chdir("/tmp/wtX/C11")

import contextlib
import shutil
import subprocess
import tempfile
import traceback

import parse
import behave
assert behave.__file__.startswith("/tmp/wtX/C11/"), behave.__file__
from behave import matchers
from behave.matchers import (
    Match, MatchWithError, NoMatch, StepParseError,
    ParseMatcher, CFParseMatcher, RegexMatcher, SimplifiedRegexMatcher,
    CucumberRegexMatcher, get_step_matcher_factory,
    use_step_matcher, use_default_step_matcher, register_type)
from behave.model import Step
from behave.step_registry import StepRegistry, AmbiguousStep
from behave import step_registry as step_registry_module
from behave import runner_util


def out(*args):
    print(*args)
    sys.stdout.flush()


def section(title):
    out("")
    out("=" * 8, title)


def describe_error(error):
    return "%s: %s" % (error.__class__.__name__, error)


# -----------------------------------------------------------------------------
# FAKE CONTEXT + RECORDING STEP FUNCTIONS
# -----------------------------------------------------------------------------
class FakeContext(object):
    def __init__(self):
        self.calls = []
        self.modes = []

    @contextlib.contextmanager
    def use_with_user_mode(self):
        self.modes.append("enter-user-mode")
        try:
            yield self
        finally:
            self.modes.append("leave-user-mode")


_FUNC_COUNTER = [0]


def make_step_func(name):
    # -- ENSURE: Each step function has its own location (file:line).
    _FUNC_COUNTER[0] += 1
    source = ("\n" * _FUNC_COUNTER[0] +
              "def %s(context, *args, **kwargs):\n"
              "    context.calls.append((%r, args, tuple(sorted(kwargs.items()))))\n"
              % (name, name))
    namespace = {}
    code = compile(source, "/tmp/wtX/C11/_twins/equiv_step_functions.py", "exec")
    exec(code, namespace)
    return namespace[name]


def make_strict_func(name, params):
    # -- A step function with a fixed signature (named parameters).
    namespace = {}
    code = ("def %s(context, %s):\n"
            "    values = sorted((k, v) for k, v in locals().items() if k != 'context')\n"
            "    context.calls.append((%r, (), tuple(values)))\n") % (
                name, ", ".join(params), name)
    exec(code, namespace)
    return namespace[name]


def show_arguments(step_text, arguments):
    if arguments is None:
        out("    arguments: None")
        return
    out("    arguments[%d]:" % len(arguments))
    for arg in arguments:
        consistent = "n/a"
        if isinstance(arg.start, int) and isinstance(arg.end, int) and arg.start >= 0:
            consistent = (step_text[arg.start:arg.end] == arg.original)
        out("      - start=%r end=%r original=%r value=%r(%s) name=%r span-ok=%s" % (
            arg.start, arg.end, arg.original, arg.value,
            type(arg.value).__name__, arg.name, consistent))


def show_match(step_text, matched, run=True):
    if matched is None:
        out("    -> None")
        return
    func_name = getattr(matched.func, "__name__", None)
    out("    -> %s func=%s location=%s" % (
        matched.__class__.__name__, func_name, matched.location))
    show_arguments(step_text, matched.arguments)
    if run:
        context = FakeContext()
        try:
            matched.run(context)
            out("    run: calls=%r modes=%r" % (context.calls, context.modes))
        except Exception as e:  # pylint: disable=broad-except
            out("    run: RAISED %s | calls=%r modes=%r" % (
                describe_error(e), context.calls, context.modes))


# -----------------------------------------------------------------------------
# TYPE CONVERTERS
# -----------------------------------------------------------------------------
@parse.with_pattern(r"\d+")
def parse_number(text):
    return int(text)


@parse.with_pattern(r"[A-Za-z]+")
def parse_word_upper(text):
    return text.upper()


@parse.with_pattern(r"yes|no")
def parse_yesno(text):
    return text == "yes"


@parse.with_pattern(r"\w+")
def parse_failing(text):
    raise ValueError("cannot convert %r" % text)


@parse.with_pattern(r"\w+")
def parse_failing_type_error(text):
    raise TypeError("bad type for %r" % text)


@parse.with_pattern(r"(\d+)-(\d+)", regex_group_count=2)
def parse_range(text):
    low, high = text.split("-")
    return (int(low), int(high))


CUSTOM_TYPES = dict(Number=parse_number, Upper=parse_word_upper,
                    YesNo=parse_yesno, Failing=parse_failing,
                    FailingTE=parse_failing_type_error, Range=parse_range)


# -----------------------------------------------------------------------------
# PART 1: MATCHERS (direct)
# -----------------------------------------------------------------------------
PARSE_CASES = [
    ("a plain step", ["a plain step", "A plain step", "a plain step ", " a plain step",
                      "a plain step too", "a plain", ""]),
    ("I have {count:d} items", ["I have 3 items", "I have 0 items", "I have -12 items",
                                "I have 0x1F items", "I have three items",
                                "i have 3 items", "I have 3 items now", "I have  3 items"]),
    ("{name} likes {food}", ["Alice likes cheese", "Alice  likes  cheese", " likes ",
                             "Alice likes", "Alice likes cheese and likes wine",
                             u"J\xfcrgen likes K\xe4se"]),
    ("{} and {}", ["one and two", "one and two and three", "and", " and "]),
    ("{:w} meets {:w}", ["Bob meets Eve", "Bob  meets Eve", "Bob meets Eve Eve", "B-b meets Eve"]),
    ("{first:w} then {} then {third:d}", ["abc then some more then 42",
                                          "abc then  then 42", "abc then x then y"]),
    ("{} before {name} after {:d}", ["x before y after 7", "x y before z after 007"]),
    ("price is {x:f} euro", ["price is 1.5 euro", "price is -0.25 euro", "price is 3 euro",
                             "price is .5 euro", "Price is 1.5 euro"]),
    ("{a:d}{b:w}", ["12ab", "1a", "ab12", "12"]),
    ("buy {amount:Number} {what:Upper}", ["buy 2 apples", "buy 02 Apples", "buy two apples",
                                          "buy 2 apples!", "BUY 2 apples"]),
    ("flag {flag:YesNo} and {:Number} and {other:YesNo}",
     ["flag yes and 5 and no", "flag no and 10 and yes", "flag maybe and 5 and no"]),
    ("fails with {value:Failing}", ["fails with anything", "fails with", "fails  with x",
                                    "Fails with x"]),
    ("fails2 with {value:FailingTE} and {n:d}", ["fails2 with abc and 3", "fails2 with abc and x"]),
    ("range {r:Range} end", ["range 1-2 end", "range 10-200 end", "range 1- end"]),
    ("range {r:Range} then {n:d} and {}", ["range 3-4 then 5 and rest of it"]),
    ("{x:d} {x:d}", ["1 1", "1 2"]),
    ("width {w:>5} end", ["width    ab end", "width ab end"]),
    ("{greeting:l}, {who:u}!", ["hello, WORLD!", "Hello, WORLD!", "hello, world!"]),
    ("quoted \"{text}\" here", ["quoted \"some text\" here", "quoted \"\" here",
                                "quoted \"a \"b\" c\" here"]),
    ("{n:d} {m:d} {o:d} {p:d} {q:d} {r:d} {s:d} {t:d} {u:d} {v:d} {w:d}",
     ["1 2 3 4 5 6 7 8 9 10 11"]),
    ("{} {} {} {} {} {} {} {} {} {} {}", ["a b c d e f g h i j k"]),
    ("{z} {y} {x}", ["1 2 3"]),
    ("{b.c} of {a[0]}", ["one of two"]),
]

CFPARSE_CASES = [
    ("numbers {numbers:Number+} end", ["numbers 1, 2, 3 end", "numbers 1 end", "numbers  end",
                                       "numbers 1,2 end", "Numbers 1 end"]),
    ("maybe {numbers:Number*} end", ["maybe 1, 2 end", "maybe  end", "maybe end"]),
    ("optional {flag:YesNo?}end", ["optional yes end", "optional end", "optional no end",
                                   "optional yesend", "optional maybe end"]),
    ("{words:Upper+} with {n:Number?} and {:Number+}",
     ["ab, cd with 3 and 4, 5", "ab with  and 4", "ab with and 4"]),
    ("plain {name} and {count:d}", ["plain x and 3", "plain x and y"]),
    ("fails many {values:Failing+}", ["fails many a, b", "fails many"]),
]

REGEX_CASES = [
    (r"a plain step", ["a plain step", "A plain step", "a plain step too", "xa plain step"]),
    (r"I have (?P<count>\d+) items?", ["I have 3 items", "I have 1 item", "I have 3 itemss",
                                       "i have 3 items", "I have  items"]),
    (r"(\w+) likes (\w+)", ["Alice likes cheese", "Alice likes", "Alice likes cheese a lot"]),
    (r"(?P<who>\w+) gives (\d+) to (?P<whom>\w+)", ["Bob gives 10 to Eve", "Bob gives ten to Eve"]),
    (r"optional(?: (?P<word>\w+))? end", ["optional thing end", "optional end", "optional  end"]),
    (r"opt (\w+)?-(\w+)?-", ["opt a-b-", "opt -b-", "opt a--", "opt --"]),
    (r"nested ((?P<inner>\d+)-(\d+)) done", ["nested 12-34 done", "nested 12- done"]),
    (r"alt (?:(?P<a>a+)|(?P<b>b+))", ["alt aaa", "alt bb", "alt c", "alt aab"]),
    (r"(?i)case (?P<x>\w+)", ["case ABC", "CASE abc", "kase abc"]),
    (u"\xfcber (?P<wort>\\w+)", [u"\xfcber K\xe4se", u"uber K\xe4se"]),
    (r"empty (?P<e>)(\d*)", ["empty ", "empty 12", "empty x"]),
    (r"(a)(b)(c)(d)(e)(f)(g)(h)(i)(j)(?P<k>k)(l)", ["abcdefghijkl", "abcdefghijk"]),
]

REGEX0_CASES = [
    (r"^a plain step$", ["a plain step", "a plain step too", "xa plain step"]),
    (r"a prefix (?P<rest>\w+)", ["a prefix word", "a prefix word and more", "no a prefix word"]),
    (r"^(?P<n>\d+) (\d+)$", ["1 2", "1 2 3", "12 345"]),
    (r"(?P<all>.*)", ["", "anything goes", "multi\nline"]),
]


def run_matcher_cases(title, matcher_class, cases, **kwargs):
    section(title)
    func = make_step_func("recorder")
    for pattern, texts in cases:
        out("PATTERN %s: %r" % (matcher_class.__name__, pattern))
        try:
            matcher = matcher_class(func, pattern, **kwargs)
        except Exception as e:  # pylint: disable=broad-except
            out("  CONSTRUCT RAISED %s" % describe_error(e))
            continue
        out("  repr=%r describe=%s step_type=%s" % (
            matcher, matcher.describe(matcher.SCHEMA_AS_STEP), matcher.step_type))
        try:
            matcher.compile()
            out("  compile: ok regex_pattern=%r" % matcher.regex_pattern)
        except Exception as e:  # pylint: disable=broad-except
            out("  compile: RAISED %s" % describe_error(e))
        for text in texts + [pattern]:
            out("  TEXT %r" % text)
            try:
                args = matcher.check_match(text)
                out("    check_match:")
                show_arguments(text, args)
            except Exception as e:  # pylint: disable=broad-except
                out("    check_match: RAISED %s" % describe_error(e))
            try:
                matched = matcher.match(text)
                show_match(text, matched)
            except Exception as e:  # pylint: disable=broad-except
                out("    match: RAISED %s" % describe_error(e))
            try:
                out("    matches: %r" % (matcher.matches(text),))
            except Exception as e:  # pylint: disable=broad-except
                out("    matches: RAISED %s" % describe_error(e))


def part1_matchers():
    run_matcher_cases("PART 1a: ParseMatcher", ParseMatcher, PARSE_CASES,
                      custom_types=CUSTOM_TYPES)
    run_matcher_cases("PART 1b: CFParseMatcher", CFParseMatcher,
                      CFPARSE_CASES + PARSE_CASES[:8], custom_types=CUSTOM_TYPES)
    run_matcher_cases("PART 1c: SimplifiedRegexMatcher", SimplifiedRegexMatcher,
                      REGEX_CASES)
    run_matcher_cases("PART 1d: CucumberRegexMatcher", CucumberRegexMatcher,
                      REGEX0_CASES + REGEX_CASES[:5])
    run_matcher_cases("PART 1e: RegexMatcher", RegexMatcher, REGEX0_CASES)

    section("PART 1f: bad patterns / special constructions")
    func = make_step_func("recorder")
    for matcher_class, pattern in [
            (SimplifiedRegexMatcher, "^anchored"),
            (SimplifiedRegexMatcher, "anchored$"),
            (SimplifiedRegexMatcher, "unbalanced ("),
            (CucumberRegexMatcher, "unbalanced ("),
            (ParseMatcher, "unknown {x:UnknownType}"),
            (ParseMatcher, "bad {x:d"),
            (CFParseMatcher, "unknown {x:UnknownType+}")]:
        out("PATTERN %s: %r" % (matcher_class.__name__, pattern))
        try:
            matcher = matcher_class(func, pattern)
            out("  constructed: %r" % matcher)
        except BaseException as e:  # pylint: disable=broad-except
            out("  CONSTRUCT RAISED %s" % describe_error(e))
            continue
        for operation in ("compile", "check_match", "match", "matches"):
            try:
                if operation == "compile":
                    result = matcher.compile() is matcher
                else:
                    result = getattr(matcher, operation)("unbalanced ( x")
                    if isinstance(result, Match):
                        result = "%s stored_error=%s" % (
                            result.__class__.__name__,
                            describe_error(getattr(result, "stored_error", None)))
                out("  %s: %r" % (operation, result))
            except Exception as e:  # pylint: disable=broad-except
                out("  %s: RAISED %s" % (operation, describe_error(e)))

    section("PART 1g: Match.run argument splitting")
    from behave.model_core import Argument
    for arguments in [
            [],
            [Argument(0, 1, "1", 1)],
            [Argument(0, 1, "1", 1, "one")],
            [Argument(0, 1, "1", 1), Argument(2, 3, "2", 2, "two"), Argument(4, 5, "3", 3)],
            [Argument(0, 1, "a", "A", "x"), Argument(2, 3, "b", "B", "x")],
            [Argument(0, 1, "a", None, ""), Argument(2, 3, "b", None)],
            None]:
        matched = Match(make_step_func("runner"), arguments)
        context = FakeContext()
        try:
            matched.run(context)
            out("run(%r args): calls=%r modes=%r" % (
                arguments and len(arguments), context.calls, context.modes))
        except Exception as e:  # pylint: disable=broad-except
            out("run: RAISED %s modes=%r" % (describe_error(e), context.modes))
    strict = make_strict_func("strict_step", ["first", "second"])
    for arguments in [
            [Argument(0, 1, "1", 1), Argument(2, 3, "2", 2)],
            [Argument(0, 1, "1", 1, "second"), Argument(2, 3, "2", 2, "first")],
            [Argument(0, 1, "1", 1, "second"), Argument(2, 3, "2", 2)],
            [Argument(0, 1, "1", 1, "first"), Argument(2, 3, "2", 2)],
            [Argument(0, 1, "1", 1)]]:
        matched = Match(strict, arguments)
        context = FakeContext()
        try:
            matched.run(context)
            out("strict run: calls=%r modes=%r" % (context.calls, context.modes))
        except Exception as e:  # pylint: disable=broad-except
            out("strict run: RAISED %s modes=%r" % (describe_error(e), context.modes))
    out("NoMatch: %r args=%r" % (NoMatch(), NoMatch().arguments))
    error_match = MatchWithError(strict, ValueError("stored"))
    try:
        error_match.run(FakeContext())
    except Exception as e:  # pylint: disable=broad-except
        out("MatchWithError.run: RAISED %s cause=%r" % (
            describe_error(e), getattr(e, "__cause__", None)))


# -----------------------------------------------------------------------------
# PART 2: REGISTRY HISTORIES AND LOOKUPS
# -----------------------------------------------------------------------------
class QuietErrorHandlerFile(object):
    def __init__(self):
        self.parts = []

    def write(self, text):
        self.parts.append(text)

    def flush(self):
        pass


STEP_FUNCTIONS = dict(("f%d" % i, make_step_func("f%d" % i)) for i in range(1, 13))

LOOKUP_TEXTS = [
    "a plain step", "A plain step", "a plain step too", "I have 3 items",
    "I have 3 items now", "I have three items", "Alice likes cheese",
    "buy 2 apples", "numbers 1, 2, 3 end", "Bob gives 10 to Eve",
    "a prefix word and more", "optional end", "fails with anything", "nothing matches this",
    "", "x 1 y", "x 1 Y",
]

HISTORIES = [
    ("H1: generic vs specific, registration order", [
        ("use", "parse"),
        ("add", "step", "a plain step", "f1"),
        ("add", "given", "a plain step", "f2"),
        ("add", "Given", "a plain {thing}", "f3"),
        ("add", "when", "a {kind} step", "f4"),
        ("add", "when", "a plain {thing}", "f5"),
        ("add", "Then", "{anything}", "f6"),
        ("add", "then", "a plain step", "f7"),
        ("add", "step", "I have {count:d} items", "f8"),
        ("add", "given", "I have {count} items", "f9"),
        ("add", "step", "{name} likes {food}", "f10"),
    ]),
    ("H2: ambiguity and re-registration", [
        ("use", "parse"),
        ("add", "given", "a plain step", "f1"),
        ("add", "given", "a plain step", "f1"),
        ("add", "given", "a plain step", "f2"),
        ("add", "GIVEN", "a plain step", "f1"),
        ("add", "when", "a plain step", "f1"),
        ("add", "step", "a plain step", "f1"),
        ("add", "step", "a plain step", "f3"),
        ("add", "given", "a {kind} step", "f4"),
        ("add", "given", "a plain step too", "f5"),
        ("add", "given", "A plain step", "f6"),
        ("add", "given", "I have {count:d} items", "f7"),
        ("add", "given", "I have {count:d} items", "f7"),
        ("add", "given", "I have {count:d} items", "f8"),
        ("add", "given", "I have {other:d} items", "f9"),
        ("add", "given", "I have 3 items", "f10"),
        ("add", "then", "I have 3 items", "f10"),
        ("add", "then", "I have {count:d} items", "f11"),
        ("add", "then", u"I have {count:d} items", "f11"),
    ]),
    ("H3: matcher switches", [
        ("use", "re"),
        ("add", "given", r"I have (?P<count>\d+) items", "f1"),
        ("add", "step", r"(?P<who>\w+) gives (\d+) to (?P<whom>\w+)", "f2"),
        ("add", "when", r"optional(?: (?P<word>\w+))? end", "f3"),
        ("use", "parse"),
        ("register", "Number", "Upper", "Failing"),
        ("add", "given", "buy {amount:Number} {what:Upper}", "f4"),
        ("add", "given", "I have {count:d} items", "f5"),
        ("add", "when", "I have {count:d} items", "f5"),
        ("add", "step", "fails with {value:Failing}", "f6"),
        ("use", "cfparse"),
        ("register", "Number"),
        ("add", "then", "numbers {numbers:Number+} end", "f7"),
        ("add", "then", "numbers 1, 2 end", "f8"),
        ("use", "re0"),
        ("add", "when", r"a prefix (?P<rest>\w+)", "f9"),
        ("add", "when", r"a prefix word", "f10"),
        ("add", "then", r"^x (\d) y$", "f11"),
        ("default", None),
        ("add", "then", "x {n:d} Y", "f12"),
        ("use", "unknown-matcher"),
        ("add", "given", "after unknown {x}", "f12"),
    ]),
    ("H4: bad step definitions are ignored", [
        ("use", "re"),
        ("add", "given", r"unbalanced (", "f1"),
        ("add", "given", r"^anchored", "f2"),
        ("add", "given", r"fine (\d+)", "f3"),
        ("use", "parse"),
        ("add", "given", "unknown {x:UnknownType}", "f4"),
        ("add", "given", "a plain step", "f5"),
        ("add", "step", "a plain step", "f5"),
        ("add", "step", "{x} 1 {y}", "f6"),
    ]),
    ("H5: only generic steps / empty registry lookups", [
        ("use", "parse"),
        ("add", "step", "a plain step", "f1"),
        ("add", "step", "a plain {thing}", "f2"),
        ("add", "step", "{other} plain step", "f3"),
    ]),
    ("H6: empty registry", []),
]


def describe_registry(registry):
    for step_type in ("given", "when", "then", "step"):
        entries = registry.steps[step_type]
        out("  steps[%s][%d]:" % (step_type, len(entries)))
        for entry in entries:
            out("    %s %s func=%s" % (entry.__class__.__name__,
                                      entry.describe(entry.SCHEMA_AT_LOCATION),
                                      entry.func.__name__))
    out("  other keys: %r" % sorted(set(registry.steps) - set(["given", "when", "then", "step"])))


def run_history(title, operations, raise_on_bad=False):
    section("PART 2: " + title + (" [RAISE_ERROR_ON_BAD_STEP_DEFINITION]" if raise_on_bad else ""))
    factory = get_step_matcher_factory()
    factory.reset()
    registry = StepRegistry()
    registry.RAISE_ERROR_ON_BAD_STEP_DEFINITION = raise_on_bad
    error_file = QuietErrorHandlerFile()
    registry.error_handler.file = error_file
    decorators = dict((name, registry.make_decorator(name))
                      for name in ("given", "when", "then", "step"))
    saved_stdout = sys.stdout
    for operation in operations:
        kind = operation[0]
        try:
            if kind == "use":
                result = use_step_matcher(operation[1])
                out("use_step_matcher(%r) -> %s" % (operation[1], result.__name__))
            elif kind == "default":
                result = use_default_step_matcher(operation[1])
                out("use_default_step_matcher(%r) -> %s" % (operation[1], result.__name__))
            elif kind == "register":
                register_type(**dict((name, CUSTOM_TYPES[name]) for name in operation[1:]))
                out("register_type%r -> ok" % (operation[1:],))
            else:
                _, keyword, pattern, func_name = operation
                func = STEP_FUNCTIONS[func_name]
                before = dict((k, len(v)) for k, v in registry.steps.items())
                if keyword in decorators:
                    returned = decorators[keyword](pattern)(func)
                    assert returned is func
                else:
                    registry.add_step_definition(keyword, pattern, func)
                after = dict((k, len(v)) for k, v in registry.steps.items())
                added = sorted(k for k in after if after[k] != before[k])
                out("add %s(%r, %s) -> added-to=%r" % (keyword, pattern, func_name, added))
        except BaseException as e:  # pylint: disable=broad-except
            out("%r -> RAISED %s" % (operation, describe_error(e)))
    sys.stdout = saved_stdout
    out("current_matcher=%s default_matcher=%s" % (
        factory.current_matcher.__name__, factory.default_matcher.__name__))
    out("error handler output: %r" % "".join(error_file.parts))
    out("bad_step_definitions: %r" % [
        x.describe() for x in registry.error_handler.bad_step_definitions])
    describe_registry(registry)

    lists_before = dict((k, list(v)) for k, v in registry.steps.items())
    for step_type in ("given", "when", "then", "step"):
        for text in LOOKUP_TEXTS:
            step = Step("some.feature", 7, step_type.title(), step_type, text)
            out("  LOOKUP %s %r" % (step_type, text))
            try:
                definition = registry.find_step_definition(step)
                if definition is None:
                    out("    definition: None")
                else:
                    out("    definition: %s func=%s" % (
                        definition.describe(), definition.func.__name__))
            except Exception as e:  # pylint: disable=broad-except
                out("    find_step_definition: RAISED %s" % describe_error(e))
            try:
                matched = registry.find_match(step)
                show_match(text, matched)
            except Exception as e:  # pylint: disable=broad-except
                out("    find_match: RAISED %s" % describe_error(e))
    lists_after = dict((k, list(v)) for k, v in registry.steps.items())
    out("registry lists unchanged by lookups: %r" % (lists_before == lists_after))
    try:
        registry.find_match(Step("some.feature", 1, u"And", "and", "a plain step"))
    except Exception as e:  # pylint: disable=broad-except
        out("lookup with unknown step type: RAISED %s" % describe_error(e))
    registry.clear()
    out("after clear: %r bad=%r" % (sorted((k, len(v)) for k, v in registry.steps.items()),
                                   registry.error_handler.bad_step_definitions))
    factory.reset()


def part2_registry():
    for title, operations in HISTORIES:
        run_history(title, operations)
    run_history(HISTORIES[3][0], HISTORIES[3][1], raise_on_bad=True)

    section("PART 2x: lookups with call-logging matchers (call order, short-circuit)")
    call_log = []

    class LoggingMatcher(object):
        def __init__(self, name, result):
            self.name = name
            self.result = result

        def match(self, text):
            call_log.append((self.name, text))
            return self.result

    class FalsyResult(object):
        def __bool__(self):
            return False
        __nonzero__ = __bool__

    registry = StepRegistry()
    registry.steps["given"] = [LoggingMatcher("g1", None), LoggingMatcher("g2", FalsyResult()),
                               LoggingMatcher("g3", "G3-RESULT"), LoggingMatcher("g4", "G4")]
    registry.steps["when"] = [LoggingMatcher("w1", 0), LoggingMatcher("w2", "")]
    registry.steps["step"] = [LoggingMatcher("s1", []), LoggingMatcher("s2", "S2-RESULT"),
                              LoggingMatcher("s3", "S3")]
    for step_type in ("given", "when", "then", "step"):
        step = Step("some.feature", 3, step_type.title(), step_type, "text for " + step_type)
        for finder in ("find_match", "find_step_definition"):
            del call_log[:]
            result = getattr(registry, finder)(step)
            if isinstance(result, LoggingMatcher):
                result = "<LoggingMatcher %s>" % result.name
            out("%s(%s) -> %r calls=%r" % (finder, step_type, result, call_log))
    out("list sizes: %r" % sorted((k, len(v)) for k, v in registry.steps.items()))


# -----------------------------------------------------------------------------
# PART 3: load_step_modules
# -----------------------------------------------------------------------------
STEP_MODULE_FILES = {
    "dir1/a_steps.py": u'''
from behave import given, when, then, step, use_step_matcher
use_step_matcher("re")
@given(u'regex (?P<n>\\\\d+) in a_steps')
def step_a1(ctx, n): pass
''',
    "dir1/b_steps.py": u'''
# -- EXPECT: default matcher again (parse), decorators from globals.
@Given(u'parse {n:d} in b_steps')
def step_b1(ctx, n): pass
use_step_matcher("cfparse")
@When(u'cfparse {n:d} in b_steps')
def step_b2(ctx, n): pass
''',
    "dir1/notes.txt": u"not a python file\n",
    "dir1/c_steps.py": u'''
@step(u'generic {n:d} in c_steps')
def step_c1(ctx, n): pass
LEAKED = "module global"
''',
    "dir1/z_steps.pyc": u"not loaded",
    "dir1/Z_upper.py": u'''
assert "LEAKED" not in globals()
@then(u'upper sorts first')
def step_z1(ctx): pass
''',
    "dir2/a_steps.py": u'''
import a_helper
@given(u'{word:w} from dir2')
def step_d2(ctx, word): pass
''',
    "dir2/a_helper.py": u'''
from behave import step
@step(u'helper step {x}')
def step_helper(ctx, x): pass
''',
    "dir3/ambiguous_steps.py": u'''
@given(u'parse 7 in b_steps')
def step_ambiguous(ctx): pass
''',
    "dir4/first_steps.py": u'''
use_step_matcher("re")
@when(u'before the error')
def step_before_error(ctx): pass
''',
    "dir4/second_steps.py": u'''
raise RuntimeError("step module is broken")
''',
    "dir4/third_steps.py": u'''
@when(u'after the error')
def step_after_error(ctx): pass
''',
}


def part3_load_step_modules():
    section("PART 3: load_step_modules")
    workdir = tempfile.mkdtemp(prefix="c11_equiv_")
    saved_cwd = os.getcwd()
    try:
        for filename, contents in STEP_MODULE_FILES.items():
            path = os.path.join(workdir, filename)
            if not os.path.isdir(os.path.dirname(path)):
                os.makedirs(os.path.dirname(path))
            with open(path, "w") as f:
                f.write(contents)
        os.makedirs(os.path.join(workdir, "empty_dir"))
        os.chdir(workdir)
        factory = get_step_matcher_factory()
        registry = step_registry_module.registry

        def normalize(text):
            return text.replace(workdir, "<WORKDIR>")

        def attempt(step_dirs, default=None):
            factory.reset()
            if default:
                use_step_matcher(default)
            step_paths = [os.path.join(workdir, d) for d in step_dirs]
            saved_path = list(sys.path)
            for name in ("a_helper",):
                sys.modules.pop(name, None)
            try:
                runner_util.load_step_modules(step_paths)
                out("load_step_modules(%r, current=%r): ok" % (step_dirs, default))
            except BaseException as e:  # pylint: disable=broad-except
                out("load_step_modules(%r, current=%r): RAISED %s" % (
                    step_dirs, default, normalize(describe_error(e))))
            out("  sys.path restored: %r" % (sys.path == saved_path))
            out("  current_matcher=%s default_matcher=%s" % (
                factory.current_matcher.__name__, factory.default_matcher.__name__))
            for step_type in ("given", "when", "then", "step"):
                for entry in registry.steps[step_type]:
                    out("  %s: %s %s func=%s" % (
                        step_type, entry.__class__.__name__,
                        normalize(entry.describe(entry.SCHEMA_AT_LOCATION)),
                        entry.func.__name__))

        registry.clear()
        attempt(["dir1"])
        attempt(["dir1"])       # -- AGAIN: same files, same patterns => ignored or ambiguous?
        registry.clear()
        attempt(["dir2", "dir1"])
        attempt(["dir3"])
        registry.clear()
        attempt(["empty_dir", "dir1", "empty_dir"], default="re")
        registry.clear()
        attempt(["dir4"])
        registry.clear()
        attempt(["dir1", "missing_dir", "dir2"])
        registry.clear()
        attempt([])
        registry.clear()
        factory.reset()
    finally:
        os.chdir(saved_cwd)
        shutil.rmtree(workdir, ignore_errors=True)


# -----------------------------------------------------------------------------
# PART 4: python -m behave
# -----------------------------------------------------------------------------
FEATURE_FILES = {
    "features/dispatch.feature": u'''
Feature: Dispatch

  Scenario: Matching
    Given a plain step
    When a plain step
    Then a plain step
    And I have 3 items
    But I have three items

  Scenario: Typed and regex
    Given buy 2 apples
    When Bob gives 10 to Eve
    Then numbers 1, 2, 3 end
    And optional end
    And optional word end

  Scenario: Case and prefix/suffix mismatches
    Given A plain step
    When a plain step with suffix
    Then prefixed a plain step

  Scenario: Conversion error
    Given fails with anything
    Then a plain step
''',
    "features/steps/a_regex_steps.py": u'''
from behave import given, when, then, step, use_step_matcher
use_step_matcher("re")

@step(u'(?P<who>\\\\w+) gives (\\\\d+) to (?P<whom>\\\\w+)')
def step_gives(ctx, amount, who, whom):
    print("CALLED step_gives: %r %r %r" % (who, amount, whom))

@then(u'optional(?: (?P<word>\\\\w+))? end')
def step_optional(ctx, word):
    print("CALLED step_optional: %r" % (word,))
''',
    "features/steps/b_parse_steps.py": u'''
import parse
from behave import given, when, then, step, register_type, use_step_matcher

@parse.with_pattern(r"\\d+")
def parse_number(text):
    return int(text)

@parse.with_pattern(r"\\w+")
def parse_failing(text):
    raise ValueError("cannot convert %r" % text)

register_type(Number=parse_number, Failing=parse_failing)

@step(u'a plain step')
def step_plain_generic(ctx):
    print("CALLED step_plain_generic")

@given(u'a plain step')
def step_plain_given(ctx):
    print("CALLED step_plain_given")

@then(u'a plain {thing}')
def step_plain_then(ctx, thing):
    print("CALLED step_plain_then: %r" % thing)

@then(u'I have {count:d} items')
def step_have_items(ctx, count):
    print("CALLED step_have_items: %r" % count)

@then(u'I have {count} items')
def step_have_items_untyped(ctx, count):
    print("CALLED step_have_items_untyped: %r" % count)

@given(u'buy {amount:Number} {}')
def step_buy(ctx, what, amount):
    print("CALLED step_buy: %r %r" % (amount, what))

@given(u'fails with {value:Failing}')
def step_fails(ctx, value):
    print("CALLED step_fails: %r" % value)

use_step_matcher("cfparse")
register_type(Number=parse_number)

@then(u'numbers {numbers:Number+} end')
def step_numbers(ctx, numbers):
    print("CALLED step_numbers: %r" % numbers)
''',
}


def part4_behave_run():
    section("PART 4: python -m behave")
    workdir = tempfile.mkdtemp(prefix="c11_equiv_run_")
    try:
        for filename, contents in FEATURE_FILES.items():
            path = os.path.join(workdir, filename)
            if not os.path.isdir(os.path.dirname(path)):
                os.makedirs(os.path.dirname(path))
            with open(path, "w") as f:
                f.write(contents)
        env = dict(os.environ)
        env["PYTHONPATH"] = "/tmp/wtX/C11"
        env["PYTHONDONTWRITEBYTECODE"] = "1"
        env.pop("BEHAVE_ARGS", None)
        for args in (["-f", "plain", "--no-timings", "--no-capture", "--no-color"],
                     ["-f", "pretty", "--no-timings", "--no-color", "--dry-run"],
                     ["-f", "json.pretty", "--no-timings", "--no-color", "-n", "Typed"],
                     ["-f", "steps.doc", "--dry-run", "--no-color"]):
            process = subprocess.Popen([sys.executable, "-m", "behave"] + args,
                                       cwd=workdir, env=env,
                                       stdout=subprocess.PIPE, stderr=subprocess.STDOUT,
                                       universal_newlines=True)
            output = process.communicate()[0]
            output = output.replace(workdir, "<WORKDIR>")
            lines = []
            in_traceback_frame = False
            for line in output.splitlines():
                # -- NORMALIZE: Drop traceback frames (source line numbers/text).
                if line.startswith('  File "'):
                    in_traceback_frame = True
                    continue
                if in_traceback_frame and line.startswith("    "):
                    continue
                in_traceback_frame = False
                if line.lstrip().startswith('"duration"'):
                    continue
                if line.startswith("Took "):
                    continue
                lines.append(line.rstrip())
            out("$ behave %s  (exit=%d)" % (" ".join(args), process.returncode))
            out("\n".join(lines))
    finally:
        shutil.rmtree(workdir, ignore_errors=True)


def main():
    for part in (part1_matchers, part2_registry, part3_load_step_modules,
                 part4_behave_run):
        try:
            part()
        except BaseException:  # pylint: disable=broad-except
            out("PART %s CRASHED:" % part.__name__)
            out(traceback.format_exc())
            raise
    out("")
    out("DONE")


if __name__ == "__main__":
    main()
