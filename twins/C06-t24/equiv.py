# -*- coding: UTF-8 -*-
"""Equivalence transcript for property C06 (ScenarioOutline expansion).

Exercises ScenarioOutline.scenarios / ScenarioOutlineBuilder through parsed
features and through direct calls, and prints a canonical transcript.
"""
from __future__ import print_function, unicode_literals
import sys
sys.path.insert(0, "/tmp/wtX/C06")

import contextlib
import io
import os
import shutil
import subprocess
import tempfile

import six
from behave import model
from behave.model import (ScenarioOutline, ScenarioOutlineBuilder, Examples,
                          Table, Row, Step, Tag, Text)
from behave.parser import parse_feature

OUT = []


def emit(*parts):
    OUT.append(u" ".join(six.text_type(p) for p in parts))


@contextlib.contextmanager
def captured_stdout():
    old = sys.stdout
    buf = io.StringIO() if six.PY3 else io.BytesIO()
    sys.stdout = buf
    try:
        yield buf
    finally:
        sys.stdout = old


def attempt(label, func, *args, **kwargs):
    try:
        result = func(*args, **kwargs)
    except Exception as e:  # pylint: disable=broad-except
        emit(label, "RAISES", type(e).__name__, repr(six.text_type(e)))
        return None
    emit(label, "=>", repr(result))
    return result


def dump_table(prefix, table):
    if table is None:
        emit(prefix, "table=None")
        return
    emit(prefix, "table.headings", repr(list(table.headings)),
         "line", table.line, "modified", table.modified)
    for row in table.rows:
        emit(prefix, "  row", repr(list(row.cells)), "line", row.line,
             "headings_shared", row.headings is table.headings)


def dump_step(prefix, step):
    emit(prefix, step.step_type, step.keyword, repr(step.name),
         "line", step.line, "file", step.filename)
    if step.text is not None:
        emit(prefix, "  text", type(step.text).__name__, repr(six.text_type(step.text)),
             "ctype", getattr(step.text, "content_type", None),
             "tline", getattr(step.text, "line", None))
    if step.table is not None:
        dump_table(prefix + "  ", step.table)


def dump_scenario(prefix, scenario):
    emit(prefix, type(scenario).__name__, repr(scenario.name),
         "line", scenario.line, "file", scenario.filename,
         "keyword", scenario.keyword)
    emit(prefix, " tags", repr([(six.text_type(t), type(t).__name__,
                                 getattr(t, "line", None))
                                for t in scenario.tags]))
    emit(prefix, " effective_tags", repr(sorted(scenario.effective_tags)))
    emit(prefix, " description", repr(scenario.description))
    row = getattr(scenario, "_row", None)
    if row is not None:
        emit(prefix, " _row", repr(list(row.cells)), "id", getattr(row, "id", None),
             "index", getattr(row, "index", None), "line", row.line)
    emit(prefix, " parent", type(scenario.parent).__name__,
         "feature_is_parent_feature",
         scenario.feature is getattr(scenario.parent, "feature", None))
    emit(prefix, " background_is_parent's",
         scenario.background is getattr(scenario.parent, "background", None))
    bsteps = getattr(scenario, "_background_steps", None)
    if bsteps is None:
        emit(prefix, " _background_steps None")
    else:
        for step in bsteps:
            dump_step(prefix + "  bg:", step)
    for step in scenario.background_steps:
        dump_step(prefix + "  allbg:", step)
    for step in scenario.steps:
        dump_step(prefix + "  step:", step)


def dump_outline_template(prefix, outline):
    emit(prefix, "TEMPLATE", repr(outline.name), "line", outline.line,
         "tags", repr([six.text_type(t) for t in outline.tags]))
    for step in outline.steps:
        dump_step(prefix + "  tstep:", step)
    for example in outline.examples:
        emit(prefix, "  examples", repr(example.name), "line", example.line,
             "index", getattr(example, "index", None),
             "tags", repr([six.text_type(t) for t in example.tags]))
        dump_table(prefix + "    ", example.table)
        if example.table is not None:
            for row in example.table.rows:
                emit(prefix, "     rowid", getattr(row, "id", None),
                     getattr(row, "index", None))


def dump_outline(prefix, outline):
    dump_outline_template(prefix + " before:", outline)
    emit(prefix, "any_modified", outline._is_any_example_table_modified(),
         "expected", outline._expected_scenarios_count(),
         "cache_len", len(outline._scenarios))
    with captured_stdout() as buf:
        scenarios = outline.scenarios
    emit(prefix, "stdout", repr(buf.getvalue()))
    emit(prefix, "count", len(scenarios))
    for i, scenario in enumerate(scenarios):
        dump_scenario("%s [%d]" % (prefix, i), scenario)
    dump_outline_template(prefix + " after:", outline)
    emit(prefix, "any_modified", outline._is_any_example_table_modified(),
         "expected", outline._expected_scenarios_count(),
         "cache_len", len(outline._scenarios))
    again = outline.scenarios
    emit(prefix, "cached_same_list", again is scenarios,
         "same_objs", all(a is b for a, b in zip(again, scenarios)),
         "is_cache", again is outline._scenarios)
    emit(prefix, "iter", repr([s.name for s in outline]))
    emit(prefix, "status", outline.status, "duration", outline.duration)


# ---------------------------------------------------------------------------
# FEATURE TEXTS
# ---------------------------------------------------------------------------
FEATURE_1 = u'''
@feature_tag
Feature: Alice <name>

  Background:
    Given a background step for <name>
    And a plain background step

  @outline @row.<name> @id.<row.id> @ex.<examples.name> @<unknown>.x @idx<examples.index>.<row.index>
  Scenario Outline: Greet <name> in <lang> -- <missing> & <row.id>
    Descr line with <name>
    Given a person named "<name>" speaking <lang>
      """
      Hello <name>,
      you speak <lang> and <greeting> (<nothing>)
      """
    When I greet <name><name> with:
      | who    | <lang> | fixed |
      | <name> | x<lang>y | same |
      | <greeting> | <name>/<lang> | <none> |
    Then nothing without placeholders changes
      | a | b |
      | 1 | 2 |
    But text without placeholder
      """
      plain text > and < swapped
      """

    @e1 @shared
    Examples: First <lang>
      | name  | lang    | greeting |
      | Alice | English | Hi       |
      | Bob   | <name>  | lang     |
      |       | Deutsch | Grüß Gott |

    @e2
    @more.<name>
    Examples: Second block
      | greeting | lang | name |
      | Hé       | fr   | Zoë  |

    Examples:
      | lang | name | greeting |

    Examples: Third
      | name | lang | greeting |
      | <lang> | <greeting> | <name> |
      | a\\|b | c d  | e\\tf     |

  Scenario: Plain scenario
    Given a plain step

  @so2
  Scenario Outline: No placeholders
    Given a fixed step
    Examples:
      | x |
      | 1 |
      | 2 |

  Scenario Outline: No examples at all <x>
    Given a step <x>
'''

FEATURE_2 = u'''
Feature: No background
  @t.<a>_<b> @"quoted.<a>" @keep
  Scenario Template: T <a> <b> <a>
    Given <a>
    When <b> and <a>
      | <a> | <b> |
      | <b> | <a> |
    Examples: E-<a>
      | a | b |
      | 1 | 2 |
      | <b> | <a> |
      | b | a |
    Examples: With spaces
      | b   | a   |
      | x y | p q |
'''

FEATURE_3 = u'''
Feature: Examples without table
  Scenario Outline: Syndrome <a>
    Given step <a>
    Examples: Empty one
    Examples: Real
      | a |
      | 7 |
'''

FEATURE_RULE = u'''
@f
Feature: With rule
  Background:
    Given feature bg <v>
  @r
  Rule: R1
    Background:
      Given rule bg <v>
    @o.<v>
    Scenario Outline: In rule <v>
      Given rule step <v>
      @ex
      Examples: RE
        | v |
        | 1 |
        | 2 |
'''


def all_outlines(feature):
    # -- NOTE: Must not trigger ScenarioOutline.scenarios (lazy build).
    for run_item in feature.run_items:
        if isinstance(run_item, ScenarioOutline):
            yield run_item
        elif isinstance(run_item, model.Rule):
            for rule_item in run_item.run_items:
                if isinstance(rule_item, ScenarioOutline):
                    yield rule_item


def section_parsed():
    for label, text in (("F1", FEATURE_1), ("F2", FEATURE_2),
                        ("F3", FEATURE_3), ("FR", FEATURE_RULE)):
        emit("=" * 20, label)
        with captured_stdout() as buf:
            feature = parse_feature(text, filename="%s.feature" % label)
        emit(label, "parse stdout", repr(buf.getvalue()))
        outlines = list(all_outlines(feature))
        emit(label, "outlines", len(outlines))
        for k, outline in enumerate(outlines):
            dump_outline("%s.o%d" % (label, k), outline)
        emit(label, "walk", repr([s.name for s in feature.walk_scenarios()]))
        emit(label, "walk+outlines",
             repr([(type(s).__name__, s.name)
                   for s in feature.walk_scenarios(with_outlines=True)]))


def section_schemas():
    schemas = [
        u"{name} -- @{row.id} {examples.name}",
        u"{name}",
        u"{name} -*- {examples.name}@{row.id}",
        u"{examples.index}.{row.index}: {name} [{examples.id}|{row.name}|{row.index:03d}]",
        u"<name> {name} <row.id> {row.id}",
        u"",
        u"{name} {bad.field}",
        u"{name} {row.nope}",
        u"{0}",
    ]
    for schema in schemas:
        emit("-" * 20, "schema", repr(schema))
        feature = parse_feature(FEATURE_2, filename="S.feature")
        outline = list(all_outlines(feature))[0]
        outline.annotation_schema = schema

        def get():
            return [s.name for s in outline.scenarios]
        attempt("schema.names", get)
        emit("schema.cache_len", len(outline._scenarios),
             "modified", [e.table.modified for e in outline.examples],
             "ids", [[getattr(r, "id", None) for r in e.table.rows]
                     for e in outline.examples],
             "ex.index", [getattr(e, "index", None) for e in outline.examples])
    # -- class-level schema
    emit("class schema", repr(ScenarioOutline.annotation_schema),
         repr(ScenarioOutlineBuilder.annotation_schema),
         repr(ScenarioOutlineBuilder().annotation_schema),
         repr(ScenarioOutlineBuilder(u"X").annotation_schema))


def section_table_api():
    emit("=" * 20, "TABLE-API")
    feature = parse_feature(FEATURE_2, filename="T.feature")
    outline = list(all_outlines(feature))[0]
    first = outline.scenarios
    emit("initial", repr([s.name for s in first]))
    emit("not modified -> same", outline.scenarios is first)
    table0 = outline.examples[0].table
    table1 = outline.examples[1].table

    table0.add_row([u"n1", u"n2"])
    emit("after add_row: modified", table0.modified, table1.modified,
         outline._is_any_example_table_modified(),
         outline._expected_scenarios_count())
    second = outline.scenarios
    emit("rebuilt new list", second is not first, len(second))
    for i, s in enumerate(second):
        dump_scenario("add_row[%d]" % i, s)
    emit("flags reset", table0.modified, table1.modified)

    table1.add_column(u"c", values=[u"CEE"])
    table1.add_row(Row(table1.headings, [u"r1", u"r2", u"r3"]), line=99)
    outline.steps.append(Step(u"T.feature", 50, u"And", "given", u"col <c>|<a>"))
    third = outline.scenarios
    emit("after add_column", len(third), third is not second)
    for i, s in enumerate(third):
        dump_scenario("add_col[%d]" % i, s)

    table0.remove_column(u"a")
    fourth = outline.scenarios
    emit("after remove_column", repr([s.name for s in fourth]))
    emit("steps", repr([[st.name for st in s.steps] for s in fourth]))

    table0.clear()
    fifth = outline.scenarios
    emit("after clear", repr([s.name for s in fifth]), "expected",
         outline._expected_scenarios_count())

    table1.modified = True
    sixth = outline.scenarios
    emit("manual modified flag", sixth is not fifth,
         repr([s.name for s in sixth]), table1.modified)

    # -- replace an examples table / append examples
    new_table = Table([u"a", u"b"], rows=[[u"AA", u"BB"]], line=200)
    new_examples = Examples(u"T.feature", 199, u"Examples", u"Late <b>",
                            tags=[Tag(u"late", 198)], table=new_table)
    outline.examples.append(new_examples)
    seventh = outline.scenarios
    emit("appended examples", repr([(s.name, s.line, list(map(six.text_type, s.tags)))
                                    for s in seventh]))
    outline.examples.append(Examples(u"T.feature", 300, u"Examples", u"NoTable"))
    emit("appended table-less: any_modified",
         outline._is_any_example_table_modified(),
         outline._expected_scenarios_count(),
         outline.scenarios is seventh)
    new_table.add_row([u"A2", u"B2"])
    with captured_stdout() as buf:
        eighth = outline.scenarios
    emit("rebuild with table-less", repr(buf.getvalue()),
         repr([(s.name, s.line) for s in eighth]))
    outline.examples[:] = []
    emit("no examples", outline._is_any_example_table_modified(),
         outline._expected_scenarios_count(), outline.scenarios is eighth)

    # -- outline built by hand, never any examples
    outline2 = ScenarioOutline(u"h.feature", 1, u"Scenario Outline", u"hand <x>")
    emit("hand", outline2.scenarios, outline2._is_any_example_table_modified(),
         outline2._expected_scenarios_count(), outline2.status)
    outline3 = ScenarioOutline(u"h.feature", 1, u"Scenario Outline", u"hand <x>",
                               tags=[u"t<x>"],
                               steps=[Step(u"h.feature", 2, u"Given", "given", u"s <x>")],
                               examples=[Examples(u"h.feature", 3, u"Examples", u"",
                                                  table=Table([u"x"], [[u"1"], [u"2"]], line=4))])
    emit("hand3 status before", outline3.status)
    for i, s in enumerate(outline3.scenarios):
        dump_scenario("hand3[%d]" % i, s)
    outline3.reset()
    emit("hand3 after reset", outline3.status, len(outline3._scenarios))
    outline3.skip()
    emit("hand3 skipped", outline3.status, [s.status for s in outline3.scenarios])


class WeirdRow(object):
    """dict-like placeholder provider with call log."""
    def __init__(self, pairs, log, truth=True):
        self.pairs = pairs
        self.log = log
        self.truth = truth

    def items(self):
        self.log.append("items")
        return iter(self.pairs)

    def __bool__(self):
        self.log.append("bool")
        return self.truth
    __nonzero__ = __bool__


def section_render_template():
    emit("=" * 20, "RENDER")
    render = ScenarioOutlineBuilder.render_template
    headings = [u"name", u"lang", u"x"]
    row = Row(headings, [u"Alice", u"<name>", u""], line=5)
    empty_row = Row([], [], line=6)
    cases = [
        (u"Hello <name>", row, None),
        (u"Hello <name> <lang> <x>|", row, None),
        (u"Hello <lang> <name>", row, None),
        (u"no placeholders", row, None),
        (u"only < here", row, None),
        (u"only > here", row, None),
        (u"> reversed <", row, None),
        (u">name<", row, None),
        (u"", row, None),
        (u"<name>", None, None),
        (u"<name>", None, {}),
        (u"<name>", empty_row, {u"name": u"P"}),
        (u"<name> <row.id>", row, {u"row.id": u"1.2", u"name": u"shadow"}),
        (u"<row.id> <name>", None, {u"row.id": u"<name>", u"name": u"N"}),
        (u"<a><b>", {u"a": u"<b>", u"b": u"<a>"}, None),
        (u"<a><b>", {u"b": u"<a>", u"a": u"<b>"}, None),
        (u"<a>", {u"a": u"1"}, {u"a": u"2"}),
        (u"<<a>>", {u"a": u"b"}, {u"<b>": u"deep"}),
        (u"<ä> <日本>", {u"ä": u"ö", u"日本": u"語"}, None),
        (u"<a>", {u"a": 5}, None),
        (u"<a>", {u"a": None}, None),
        (u"<a>", None, {u"a": 5}),
        (u"<1>", {1: u"one"}, None),
        (u"x", {u"a": 5}, None),
        (None, row, None),
        (5, row, None),
        (b"<name>" if six.PY3 else u"<name>", row, None),
        (Text(u"doc <name>\n<lang>", u"text/x", 7), row, None),
        (Tag(u"tag.<name>", 3), row, None),
    ]
    for text, row_, params in cases:
        label = "render(%r, %r, %r)" % (text, row_, params)
        result = attempt(label, render, text, row_, params)
        if result is not None:
            emit("   type", type(result).__name__,
                 getattr(result, "content_type", "-"), getattr(result, "line", "-"))
    # -- call protocol on placeholder providers
    for text in (u"plain", u"<a> <b> <c>"):
        for truth1, truth2 in ((True, True), (False, True), (True, False)):
            log1, log2 = [], []
            shared = []
            r = WeirdRow([(u"a", u"1"), (u"b", u"<c>")], log1, truth1)
            p = WeirdRow([(u"c", u"3"), (u"a", u"never")], log2, truth2)
            r.log = shared
            p.log = shared
            r.log.append("R")
            result = render(text, r, p)
            emit("protocol", repr(text), truth1, truth2, "=>", repr(result),
                 repr(shared))
    # -- keyword calls
    emit("kw", repr(render(u"<a>", params={u"a": u"k"})),
         repr(render(text=u"<a>", row={u"a": u"r"})),
         repr(ScenarioOutlineBuilder().render_template(u"<a>", {u"a": u"i"})))


def section_builder_direct():
    emit("=" * 20, "BUILDER-DIRECT")
    B = ScenarioOutlineBuilder
    headings = [u"name", u"lang"]
    row = Row(headings, [u"Alice", u"en US"], line=9)
    row.id = u"1.1"
    row.index = 1
    # -- is_parametrized_tag / step
    for tag in (u"a", u"<a>", u"a<", u">a<", u"", u"<>"):
        emit("is_parametrized_tag", repr(tag), B.is_parametrized_tag(tag))
    attempt("is_parametrized_step(str)", B.is_parametrized_step, u"<a>")
    step_p = Step(u"f", 1, u"Given", "given", u"a <name>")
    step_n = Step(u"f", 2, u"Given", "given", u"a name")
    emit("is_parametrized_step", B.is_parametrized_step(step_p),
         B.is_parametrized_step(step_n))
    emit("has_parametrized_steps", B.has_parametrized_steps([]),
         B.has_parametrized_steps([step_n]), B.has_parametrized_steps([step_n, step_p]))
    attempt("has_parametrized_steps(bad)", B.has_parametrized_steps, [step_n, 1, step_p])
    attempt("has_parametrized_steps(bad2)", B.has_parametrized_steps, [step_p, 1])
    # -- make_row_tags
    tag_cases = [
        None, [], (),
        [u"plain", u"t.<name>", u"t.<lang>", u"<unknown>", u"<name>.<unknown>",
         u"<row.id>", u"a b", u"\\tx\\ny<name>", u"'q'<name>\"", u"<name", u"name>",
         u">name<"],
        [Tag(u"x.<name>", 4), Tag(u"keep", 5)],
    ]
    for tags in tag_cases:
        for params in (None, {}, {u"row.id": u"1.1", u"unknown": u"<name>"}):
            result = attempt("make_row_tags(%r, params=%r)" % (tags, params),
                             B.make_row_tags, tags, row, params)
            if result:
                emit("   types", [type(t).__name__ for t in result])
    # -- make_step_for_row
    table = Table([u"h <name>", u"<lang>", u"c"],
                  rows=[[u"<name>", u"<lang>|<name>", u"<name><name>"],
                        [u"", u"plain", u"<other>"]], line=20)
    text = Text(u"Doc <name>\n  <lang> <row.id>", u"text/plain", 30)
    tstep = Step(u"f.feature", 10, u"When", "when", u"do <name> <lang> <row.id>",
                 text=text, table=table)
    rows = [
        row,
        Row([u"lang", u"name"], [u"<name>", u"<lang>"], line=11),
        Row([u"name", u"lang"], [u"<lang>", u"<name>"], line=12),
        Row([u"name", u"lang", u"other"], [u"", u"ünï", u"<name>"], line=13),
        Row([], [], line=14),
        {u"name": u"dictrow"},
    ]
    for r in rows:
        for params in (None, {u"row.id": u"9.9", u"lang": u"PARAM"}):
            new_step = B.make_step_for_row(tstep, r, params)
            emit("make_step_for_row row=%r params=%r" % (r, params))
            dump_step("   new:", new_step)
            emit("   distinct", new_step is not tstep,
                 new_step.table is not tstep.table,
                 new_step.table.headings is not tstep.table.headings,
                 all(a is not b for a, b in zip(new_step.table.rows, tstep.table.rows)),
                 all(rr.headings is new_step.table.headings for rr in new_step.table.rows),
                 "modified", new_step.table.modified)
    dump_step("template after:", tstep)
    # -- no table / no text / empty text
    s1 = Step(u"f.feature", 10, u"When", "when", u"do <name>")
    dump_step("notable:", B.make_step_for_row(s1, row))
    s2 = Step(u"f.feature", 10, u"When", "when", u"do <name>", text=u"")
    dump_step("emptytext:", B.make_step_for_row(s2, row))
    s3 = Step(u"f.feature", 10, u"When", "when", u"do <name>",
              table=Table([], rows=None, line=3))
    dump_step("emptytable:", B.make_step_for_row(s3, row))
    s4 = Step(u"f.feature", 10, u"When", "when", u"do it",
              table=Table([u"<name>"], rows=[[u"<name>"]], line=3))
    attempt("bad value in table", B.make_step_for_row, s4, {u"name": 5})
    attempt("bad value in table (other key)", B.make_step_for_row, s4,
            {u"zzz": 5})
    dump_step("s4 untouched:", s4)
    log = []
    wr = WeirdRow([(u"name", u"W"), (u"W", u"<name>")], log)
    s5 = Step(u"f.feature", 10, u"When", "when", u"do <name> it",
              text=Text(u"<name> <W>"),
              table=Table([u"<name>", u"<W>"], rows=[[u"<W>", u"<name>"]], line=3))
    dump_step("weird:", B.make_step_for_row(s5, wr, {u"name": u"P"}))
    emit("weird log", repr(log))
    log[:] = []
    dump_step("weird-notable:", B.make_step_for_row(s1, wr))
    emit("weird log", repr(log))
    # -- make_scenario_name
    builder = B(u"{name} -- @{row.id} {examples.name}")
    ex = Examples(u"f.feature", 3, u"Examples", u"Ex <name> <row.id>",
                  table=Table(headings, [[u"Alice", u"en US"]], line=4))
    ex.index = 3
    for params in (None, {}, {u"row.id": u"X.Y", u"examples.index": u"idx"},
                   {u"row.id": u"X.Y", u"examples.index": u"idx", u"row.index": u"7"},
                   {u"examples.name": u"ignored", u"row.id": u"<name>",
                    u"examples.index": u"3", u"row.index": u"1", u"name": u"shadow"}):
        p = params
        attempt("make_scenario_name", builder.make_scenario_name,
                u"N <name> <examples.name> <examples.index> <row.index>",
                ex, row, p)
        emit("   params after", repr(sorted(p.items())) if p is not None else None)
    ex_noname = Examples(u"f.feature", 3, u"Examples", u"",
                         table=Table(headings, [[u"Alice", u"en US"]], line=4))
    ex_noname.index = 1
    attempt("make_scenario_name (no ex name)", builder.make_scenario_name,
            u"N <name>", ex_noname, row)
    attempt("make_scenario_name (no ex name, full params)", builder.make_scenario_name,
            u"N <name> <examples.name>|", ex_noname, row,
            {u"row.id": u"1.1", u"examples.index": u"1", u"row.index": u"1"})
    ex_none = Examples(u"f.feature", 3, u"Examples", u"tmp")
    ex_none.name = None
    ex_none.index = 1
    attempt("make_scenario_name (None ex name)", builder.make_scenario_name,
            u"N <name>", ex_none, row)
    # -- build_scenarios direct, twice, on same outline -> fresh objects
    feature = parse_feature(FEATURE_2, filename="D.feature")
    outline = list(all_outlines(feature))[0]
    a = B(u"{name}#{row.id}").build_scenarios(outline)
    emit("direct build cache untouched", len(outline._scenarios),
         [e.table.modified for e in outline.examples])
    b = B().build_scenarios(outline)
    emit("direct a", repr([s.name for s in a]))
    emit("direct b", repr([s.name for s in b]))
    emit("direct distinct", all(x is not y for x, y in zip(a, b)))
    # -- exception in the middle of a build: partial state
    feature = parse_feature(FEATURE_2, filename="E.feature")
    outline = list(all_outlines(feature))[0]
    outline.examples[0].table.rows[1].cells[0] = 5
    attempt("build with bad cell", lambda: [s.name for s in outline.scenarios])
    emit("partial state", len(outline._scenarios),
         [e.table.modified for e in outline.examples],
         [[getattr(r, "id", None) for r in e.table.rows] for e in outline.examples],
         [getattr(e, "index", None) for e in outline.examples])
    attempt("build with bad cell again", lambda: [s.name for s in outline.scenarios])


STEPS_PY = u'''
from behave import step

@step(u'{text}')
def step_any(context, text):
    row = context.active_outline
    print("ACTIVE:", None if row is None else list(row.cells), "STEP:", text)
    if "FAIL" in text:
        assert False, "failing: " + text
'''

RUN_FEATURE = u'''
@f
Feature: Run outline
  Background:
    Given bg <a>
  @o.<a>
  Scenario Outline: Run <a> <b>
    Given first <a>
      """
      doc <b>
      """
    When second <b>
      | <a> | k |
      | <b> | v |
    @x
    Examples: One
      | a | b |
      | 1 | 2 |
      | FAIL | 3 |
    @y
    Examples: Two
      | b | a |
      | 4 | 5 |
'''


def run_behave(workdir, args):
    env = dict(os.environ)
    env["PYTHONPATH"] = "/tmp/wtX/C06"
    env["PYTHONIOENCODING"] = "utf-8"
    env.pop("BEHAVE_ARGS", None)
    proc = subprocess.Popen([sys.executable, "-m", "behave"] + args,
                            cwd=workdir, env=env, stdout=subprocess.PIPE,
                            stderr=subprocess.STDOUT)
    out, _ = proc.communicate()
    out = out.decode("utf-8", "replace")
    lines = []
    for line in out.splitlines():
        if line.startswith("Took "):
            line = "Took <T>"
        lines.append(line.rstrip())
    return proc.returncode, lines


def section_run():
    emit("=" * 20, "RUN")
    workdir = tempfile.mkdtemp(prefix="c06_equiv_")
    try:
        os.makedirs(os.path.join(workdir, "features", "steps"))
        with io.open(os.path.join(workdir, "features", "steps", "steps.py"), "w",
                     encoding="utf-8") as f:
            f.write(STEPS_PY)
        with io.open(os.path.join(workdir, "features", "run.feature"), "w",
                     encoding="utf-8") as f:
            f.write(RUN_FEATURE)
        arg_sets = [
            ["-f", "plain", "--no-timings", "--no-capture", "-q"],
            ["-f", "plain", "--no-timings", "--dry-run"],
            ["-f", "plain", "--no-timings", "--tags=o.5", "--no-capture"],
            ["-f", "plain", "--no-timings", "--tags=x", "--stop"],
            ["-f", "plain", "--no-timings", "-n", "Run 5", "--no-capture"],
            ["-f", "plain", "--no-timings", "features/run.feature:18"],
            ["-f", "steps.doc", "--dry-run"],
            ["-f", "tags.location", "--dry-run"],
        ]
        for args in arg_sets:
            code, lines = run_behave(workdir, args)
            emit("behave", " ".join(args), "-> rc", code)
            for line in lines:
                emit("   |", line.replace(workdir, "<WD>"))
    finally:
        shutil.rmtree(workdir, ignore_errors=True)


def main():
    section_parsed()
    section_schemas()
    section_table_api()
    section_render_template()
    section_builder_direct()
    section_run()
    text = u"\n".join(OUT) + u"\n"
    if six.PY2:
        text = text.encode("utf-8")
        sys.stdout.write(text)
    else:
        sys.stdout.buffer.write(text.encode("utf-8"))


if __name__ == "__main__":
    main()
