# -*- coding: UTF-8 -*-
"""Equivalence transcript for property C10 (file-location / name selection).

Prints a canonical transcript of what the public API of behave.runner_util,
behave.model and behave.configuration does for many locations / lines / names.
"""
from __future__ import absolute_import, print_function
import sys
sys.path.insert(0, "/tmp/wtX/C10")

import itertools
import os
import re
import shutil
import subprocess
import tempfile

import behave
assert behave.__file__.startswith("/tmp/wtX/C10/"), behave.__file__
from behave import runner_util
from behave.configuration import Configuration
from behave.model import Feature, Rule, ScenarioOutline, Scenario
from behave.model_core import FileLocation
from behave.parser import parse_feature
from behave.runner_util import (
    FeatureLineDatabase, FeatureListParser, FileLocationParser,
    FeatureScenarioLocationCollector, FeatureScenarioLocationCollector1,
    FeatureScenarioLocationCollector2, collect_feature_locations,
    parse_features)


FEATURES = {
    "basic.feature": u"""Feature: Alice
  Background: Alice.Background
    Given a step passes

  Scenario: A1
    Given a step passes

  @setup
  Scenario: A_setup
    Given a step passes

  Scenario: A2
    Given a step passes
    When a step passes

  @teardown
  Scenario: A_teardown
    Given a step passes
""",
    "outline.feature": u"""
@f_tag
Feature: Bob

  Scenario Outline: Bob.SO_<row.id> <Name>
    Given a person with name "<Name>"
    Then the person is born in <Birthyear>

    Examples: E1
      | Name  | Birthyear |
      | Alice |  1990     |
      | Bob   |  1991     |

    @ex2
    Examples: E2
      | Name   | Birthyear |
      | Charly |  1992     |

  Scenario: Bob.S3
    Given a step passes
    When a step passes

  Scenario Outline: Empty <x>
    Given a step passes
""",
    "rule.feature": u"""Feature: Charly
  Background: Charly.Background
    Given a step passes

  Scenario: C1
    Given a step passes

  Rule: Charly.Rule_1

    Scenario: Rule_1.C2
      Given a step passes
      When a step passes

    Scenario Outline: Rule_1.SO <n>
      Given a step passes
      Examples:
        | n |
        | 1 |
        | 2 |

  Rule: Charly.Rule_2
    @setup
    Scenario: Rule_2.setup
      Given a step passes

    Scenario: Rule_2.C3
      Given a step passes

  Rule: Charly.Rule_3_empty
""",
    "noscenario.feature": u"""Feature: Dora
  Just a description.
""",
    "empty.feature": u"""# only a comment
""",
    "sub/deep.feature": u"""Feature: Deep
  Scenario: D1
    Given a step passes
  Scenario: D2 (special) [x]
    Given a step fails
  Scenario: D3
    Given a step passes
""",
}

STEPS = u'''
from behave import given, when, then, step

@step(u'a step passes')
def step_passes(context):
    pass

@step(u'a step fails')
def step_fails(context):
    assert False, "XFAIL"

@given(u'a person with name "{name}"')
def step_person(context, name):
    pass

@then(u'the person is born in {year:d}')
def step_born(context, year):
    pass
'''


WORKDIR = [None]


def out(*args):
    text = u" ".join(x if isinstance(x, type(u"")) else str(x) for x in args)
    if WORKDIR[0]:
        text = text.replace(WORKDIR[0], "<W>")
    print(text)
    sys.stdout.flush()


def describe(item):
    if item is None:
        return "None"
    name = getattr(item, "name", None)
    line = getattr(getattr(item, "location", None), "line", None)
    return "%s(%r@%s)" % (item.__class__.__name__, name, line)


def catch(func, *args, **kwargs):
    try:
        return func(*args, **kwargs)
    except BaseException as e:  # pylint: disable=broad-except
        return "RAISED %s: %s" % (e.__class__.__name__, e)


def scenario_states(feature):
    if feature is None:
        return "None"
    parts = []
    for scenario in feature.walk_scenarios(with_outlines=True):
        parts.append("%s:%d:skip=%s:%s" % (
            scenario.name, scenario.location.line, scenario.should_skip,
            scenario.status.name))
    return "%s[%s]" % (feature.name, "; ".join(parts))


# -----------------------------------------------------------------------------
def section_line_database(workdir):
    out("== FeatureLineDatabase")
    for name in sorted(FEATURES):
        text = FEATURES[name]
        feature = catch(parse_feature, text, filename=name)
        out("-- feature", name, describe(feature))
        if not isinstance(feature, Feature):
            continue
        nlines = len(text.splitlines())
        entities = [feature] + feature.walk_scenarios(with_outlines=True,
                                                      with_rules=True)
        for entity in entities:
            out("  make_line_data_for", describe(entity), "->",
                [(line, describe(x))
                 for line, x in FeatureLineDatabase.make_line_data_for(entity)])
        for entity in entities:
            for maker in (FeatureLineDatabase.make, FeatureLineDatabase):
                db = maker(entity)
                out("  db", maker is FeatureLineDatabase, describe(db.entity),
                    [(k, describe(v)) for k, v in db.data.items()])
                for line in list(range(0, nlines + 4)) + [-1, -7, 10**6]:
                    item = catch(db.select_run_item_by_line, line)
                    # -- twice (cached line index)
                    item2 = catch(db.select_run_item_by_line, line)
                    assert item is item2 or item == item2
                    scenarios = catch(db.select_scenarios_by_line, line)
                    if isinstance(scenarios, list):
                        scenarios = [describe(x) for x in scenarios]
                    out("    line", line, "->",
                        item if isinstance(item, str) else describe(item),
                        "=>", scenarios)
    out("-- special databases")
    db = FeatureLineDatabase()
    out("empty", list(db.data.items()), db.entity,
        catch(db.select_run_item_by_line, 3),
        catch(db.select_scenarios_by_line, 0))
    db = FeatureLineDatabase(line_data=[(2, "two"), (5, None), (9, "nine")])
    for line in range(-1, 12):
        out("raw", line, catch(db.select_run_item_by_line, line),
            catch(db.select_scenarios_by_line, line))
    db = FeatureLineDatabase(entity="ignored", line_data=[(4, "four")])
    out("raw2", db.entity, [catch(db.select_run_item_by_line, x)
                            for x in (0, 4, 5)])
    out("unhashable", catch(db.select_run_item_by_line, [1]))
    out("not-an-entity", catch(FeatureLineDatabase.make_line_data_for, "xx"),
        catch(FeatureLineDatabase.make, 42))


def section_collectors():
    out("== Collectors")
    for klass in (FeatureScenarioLocationCollector,
                  FeatureScenarioLocationCollector1,
                  FeatureScenarioLocationCollector2):
        out("-- class", klass.__name__)
        for name in ("basic.feature", "outline.feature", "rule.feature",
                     "noscenario.feature"):
            text = FEATURES[name]
            nlines = len(text.splitlines())
            line_sets = [[x] for x in range(0, nlines + 3)]
            line_sets += [[5, 13], [5, None], [None], [], [1, 2, 3], [9, 9]]
            for lines in line_sets:
                feature = parse_feature(text, filename=name)
                collector = klass(feature)
                for line in lines:
                    result = catch(collector.add_location,
                                   FileLocation(name, line))
                    if result is not None:
                        out("   add_location", result)
                built = catch(collector.build_feature)
                out("  ", name, lines, collector.filename,
                    collector.use_all_scenarios,
                    sorted(collector.scenario_lines),
                    sorted(describe(x) for x in collector.selected_scenarios),
                    "=>", built if isinstance(built, str)
                    else scenario_states(built))
        collector = klass()
        out("  no-feature", catch(collector.build_feature),
            catch(collector.discover_selected_scenarios))
        collector = klass(location=FileLocation("x.feature", 3))
        out("  by-location", collector.filename, collector.scenario_lines,
            collector.use_all_scenarios, catch(collector.build_feature),
            catch(collector.add_location, FileLocation("y.feature", 3)))
        collector.clear()
        out("  cleared", collector.filename, collector.scenario_lines,
            collector.use_all_scenarios, collector.feature)
        feature = parse_feature(FEATURES["basic.feature"],
                                filename="basic.feature")
        collector = klass(feature, FileLocation("basic.feature", 6))
        out("  strict", catch(
            lambda: sorted(describe(x) for x in
                           collector.discover_selected_scenarios(strict=True))))


def section_parse_features(workdir):
    out("== parse_features")
    def show(locations, **kwargs):
        features = catch(parse_features, locations, **kwargs)
        if isinstance(features, list):
            features = [scenario_states(x) for x in features]
        out("  ", [str(x) if isinstance(x, FileLocation) else x
                   for x in locations], "=>", features)

    for name in ("basic.feature", "outline.feature", "rule.feature",
                 "sub/deep.feature", "noscenario.feature", "empty.feature"):
        nlines = len(FEATURES[name].splitlines())
        show([name])
        for line in range(0, nlines + 3):
            show([FileLocation(name, line)])
            show(["%s:%d" % (name, line)])  # -- plain string => no line split
    lines = [0, 1, 5, 9, 12, 17, 30]
    for pair in itertools.combinations_with_replacement(lines, 2):
        show([FileLocation("basic.feature", x) for x in pair])
    for triple in itertools.combinations(lines, 3):
        show([FileLocation("rule.feature", x) for x in triple])
    for triple in [(8, 13, 24), (12, 12, 12), (13, 17, 5), (11, 16, None)]:
        show([FileLocation("outline.feature", x) for x in triple])
    # -- several files, consecutive / non-consecutive groups
    FL = FileLocation
    show([FL("basic.feature", 5), FL("rule.feature", 10),
          FL("basic.feature", 12)])
    show([FL("basic.feature", 5), FL("basic.feature", 12),
          FL("rule.feature", 10), FL("rule.feature", 25),
          FL("sub/deep.feature", 4)])
    show([FL("empty.feature", 1), FL("basic.feature", 5)])
    show([FL("basic.feature", 5), FL("empty.feature", 1),
          FL("basic.feature", 12)])
    show([FL("basic.feature", 5), FL("empty.feature"), FL("empty.feature", 1)])
    show(["basic.feature", FL("basic.feature", 5)])
    show([FL("basic.feature", 5), "basic.feature"])
    show(["./basic.feature", "sub/../basic.feature", FL("basic.feature", 5)])
    show([FL("./basic.feature", 5), FL("basic.feature", 12)])
    show([os.path.join(workdir, "basic.feature"), FL("basic.feature", 5)])
    show([FL("basic.feature", 5), 42, FL("rule.feature", 5)])
    show([FL("basic.feature", 5), None])
    show([FL("missing.feature", 5)])
    show([FL("basic.feature", 5), FL("missing.feature", 5)])
    show([])
    show(iter([FL("basic.feature", 5), FL("basic.feature", 9)]))
    show((FL("rule.feature", 8), FL("rule.feature", 21)))
    show([FL("basic.feature", 5)], language="en")
    show([u"basic.feature", b"basic.feature"])

    # -- laziness of input consumption / interleaving with parsing
    log = []
    def locations():
        for loc in [FL("basic.feature", 5), FL("rule.feature", 5), 3.5,
                    FL("sub/deep.feature", 2)]:
            log.append("yield %s" % (loc,))
            yield loc
    orig_parse_file = runner_util.gherkin.parse_file
    def logging_parse_file(filename, language=None):
        log.append("parse_file %s %s" % (os.path.relpath(filename), language))
        return orig_parse_file(filename, language=language)
    runner_util.gherkin.parse_file = logging_parse_file
    try:
        out("  lazy:", catch(parse_features, locations(), language="en"))
        out("  lazy-log:", log)
        del log[:]
        result = parse_features(["basic.feature", FL("basic.feature", 9),
                                 "empty.feature", "empty.feature",
                                 "rule.feature"])
        out("  log2:", log, [scenario_states(x) for x in result])
    finally:
        runner_util.gherkin.parse_file = orig_parse_file


def section_location_parsers(workdir):
    out("== FileLocationParser")
    texts = ["a.feature", "a.feature:10", " a.feature:10 ", "a.feature:0",
             "a.feature:", "a.feature:1x", ":12", "a:b:12", "a.feature :12",
             "a.feature: 12", "  spaced name.feature:007  ", "", "   ",
             "C:\\x\\a.feature:3", "a.feature:12:13", "a.feature:-1",
             u"\xe4.feature:5", "a.feature:12\n", "x\ny:3", "a.feature:\u0663"]
    for text in texts:
        loc = catch(FileLocationParser.parse, text)
        out("  %r -> %r" % (text, loc),
            getattr(loc, "filename", None), getattr(loc, "line", None))
    out("  none ->", catch(FileLocationParser.parse, None))

    out("== FeatureListParser")
    listing = u"""
# -- comment
basic.feature
  basic.feature:12

   # indented comment
rule.feature:10
sub/deep.feature:2
sub/../basic.feature:5
./outline.feature
%(abs)s/rule.feature:21
*.feature
sub/*.feature:3
nomatch*.feature
s?b/[d]eep.feature
#basic.feature:1
missing.feature:9
""" % {"abs": workdir}
    def rel(locations):
        if not isinstance(locations, list):
            return locations
        return ["%s|%s" % (x.filename.replace(workdir, "<W>"), x.line)
                for x in locations]
    for here in (None, "", ".", "sub", workdir, os.path.join(workdir, "sub")):
        out("  here=%r" % (here and here.replace(workdir, "<W>")),
            rel(catch(FeatureListParser.parse, listing, here)))
    out("  default-here", rel(catch(FeatureListParser.parse, listing)))
    out("  empty", rel(catch(FeatureListParser.parse, u"")),
        rel(catch(FeatureListParser.parse, u"\n\n#x\n")),
        rel(catch(FeatureListParser.parse, u"a.feature:3\r\nb.feature\rc:4")))
    out("  none", catch(FeatureListParser.parse, None))

    with open("all.txt", "w") as f:
        f.write(listing)
    with open("sub/some.txt", "w") as f:
        f.write(u"deep.feature:2\n# x\n\n../basic.feature:5\n*.feature\n")
    for listfile in ("all.txt", "@all.txt", "@@all.txt", "sub/some.txt",
                     "@sub/some.txt", os.path.join(workdir, "sub/some.txt"),
                     "missing.txt", "@missing.txt", "sub", ""):
        out("  parse_file %r" % listfile.replace(workdir, "<W>"),
            rel(catch(FeatureListParser.parse_file, listfile)))

    out("== collect_feature_locations")
    for paths in (["basic.feature"], ["basic.feature:5", "rule.feature:10"],
                  ["@all.txt"], ["@sub/some.txt", "basic.feature:9"],
                  ["sub"], ["."], ["missing.feature"], ["notes.txt"],
                  ["basic.feature:5", "@missing.txt"], []):
        for strict in (True, False):
            out("  ", paths, strict,
                rel(catch(collect_feature_locations, paths, strict=strict)))
    # -- end-to-end: listfile -> parse_features
    for paths in (["@sub/some.txt"], ["@all.txt"],
                  ["basic.feature:5", "basic.feature:12", "rule.feature:14"]):
        locations = catch(collect_feature_locations, paths, strict=False)
        if isinstance(locations, list):
            features = catch(parse_features, locations)
            if isinstance(features, list):
                features = [scenario_states(x) for x in features]
            out("  e2e", paths, "=>", features)


class FakeConfig(object):
    def __init__(self, name):
        self.name = name
        self.name_re = None
        if name:
            self.name_re = Configuration.build_name_re(name)


def section_name_select():
    out("== name selection (model)")
    name_sets = [None, [], ["A1"], ["A"], ["^A2$"], ["A1", "teardown"],
                 ["Bob.SO_1.1"], ["Alice$"], ["Charly|Bob.S3"], ["Rule_1"],
                 ["C[23]"], ["nomatch"], ["(special)"], [r"\(special\)"],
                 [u"Empty"], ["SO 2$", "C1"], [""], [b"A1"], ["D3", "D1"]]
    for names in name_sets:
        config = catch(FakeConfig, names)
        if isinstance(config, str):
            out("  names=%r" % (names,), config)
            continue
        out("  names=%r pattern=%r" % (
            names, config.name_re.pattern if config.name_re else None))
        for fname in ("basic.feature", "outline.feature", "rule.feature",
                      "sub/deep.feature"):
            feature = parse_feature(FEATURES[fname], filename=fname)
            parts = []
            for scenario in feature.walk_scenarios(with_outlines=True):
                answer = catch(scenario.should_run_with_name_select, config)
                if not isinstance(answer, (bool, str)) and answer is not None:
                    answer = "match%r" % (answer.span(),)
                parts.append("%s=%s/%s" % (scenario.name, answer,
                                           catch(scenario.should_run, config)
                                           if False else ""))
            out("    ", fname, parts)
    out("  build_name_re", [catch(lambda n=n: Configuration.build_name_re(n).pattern)
                            for n in ([], ["a"], ["a", "b|c"], ["("], [b"x", u"y"],
                                      None, "abc")])


def run_behave(workdir, args):
    env = dict(os.environ)
    env["PYTHONPATH"] = "/tmp/wtX/C10"
    env.pop("BEHAVE_ARGS", None)
    cmd = [sys.executable, "-m", "behave", "-f", "plain", "--no-timings",
           "--no-color"] + list(args)
    proc = subprocess.Popen(cmd, cwd=workdir, env=env, stdout=subprocess.PIPE,
                            stderr=subprocess.STDOUT)
    output = proc.communicate()[0].decode("utf-8", "replace")
    output = re.sub(r"Took \d+m[\d.]+s", "Took XmX.XXXs", output)
    output = re.sub(r"Took [\d.]+\s*(min|s|seconds)", "Took X s", output)
    output = output.replace(workdir, "<W>")
    out("$ behave %s  -> rc=%s" % (" ".join(args), proc.returncode))
    in_traceback = False
    for line in output.splitlines():
        # -- Tracebacks: keep only the header and the exception line
        #    (source line numbers are not observable behaviour).
        if line.startswith("Traceback (most recent call last)"):
            in_traceback = True
            out("   | " + line.rstrip())
            continue
        if in_traceback:
            if line.startswith(" ") or not line.strip():
                continue
            in_traceback = False
        out("   | " + line.rstrip())


def section_end_to_end(workdir):
    out("== end-to-end runs")
    runs = [
        ["basic.feature:5"], ["basic.feature:6"], ["basic.feature:1"],
        ["basic.feature:0"], ["basic.feature:99"], ["basic.feature:13"],
        ["basic.feature:5", "basic.feature:13"],
        ["outline.feature:12"], ["outline.feature:5"], ["outline.feature:17"],
        ["outline.feature:11", "outline.feature:20"],
        ["rule.feature:8"], ["rule.feature:10"], ["rule.feature:19"],
        ["rule.feature:24", "rule.feature:6", "sub/deep.feature:4"],
        ["rule.feature:30"],
        ["@all.txt", "--dry-run"], ["@sub/some.txt"],
        ["--name", "A1", "basic.feature"],
        ["--name", "A", "--name", "C1", "basic.feature", "rule.feature"],
        ["--name", "Bob.SO_1.2", "outline.feature"],
        ["--name", "Charly$", "--show-skipped", "outline.feature"],
        ["--name", "Rule_1", "rule.feature"],
        ["-n", "^D1$", "-n", r"\(special\)", "sub/deep.feature"],
        ["--name", "nomatch", "."],
        ["--name", "A2", "basic.feature:5"],
        ["--name", "A2", "basic.feature:13", "--show-skipped"],
        ["--name", "(", "basic.feature"],
        ["--tags", "@ex2", "outline.feature:5"],
    ]
    for args in runs:
        run_behave(workdir, args)


def main():
    workdir = tempfile.mkdtemp(prefix="c10equiv_")
    workdir = os.path.realpath(workdir)
    WORKDIR[0] = workdir
    cwd0 = os.getcwd()
    try:
        os.makedirs(os.path.join(workdir, "sub"))
        os.makedirs(os.path.join(workdir, "steps"))
        for name in sorted(FEATURES):
            with open(os.path.join(workdir, name), "wb") as f:
                f.write(FEATURES[name].encode("utf-8"))
        with open(os.path.join(workdir, "steps", "steps.py"), "wb") as f:
            f.write(STEPS.encode("utf-8"))
        with open(os.path.join(workdir, "notes.txt"), "w") as f:
            f.write("x\n")
        os.chdir(workdir)
        section_line_database(workdir)
        section_collectors()
        section_parse_features(workdir)
        section_location_parsers(workdir)
        section_name_select()
        section_end_to_end(workdir)
    finally:
        os.chdir(cwd0)
        shutil.rmtree(workdir, ignore_errors=True)


if __name__ == "__main__":
    main()
