# -*- coding: utf-8 -*-
"""
Equivalence harness for property C17 (rerun formatter + '@file' feed-back).
Prints a canonical transcript (no timings, no temp paths).

PART A: end-to-end via "python -m behave" subprocess (PYTHONPATH=worktree):
        run with "-f rerun -o rerun.txt", show rerun file, feed it back.
PART B: in-process: RerunFormatter driven with model objects
        (eof/close/report_scenario_failures incl. descriptions/timestamp).
PART C: in-process: FileLocationParser, FeatureListParser,
        collect_feature_locations, parse_features.
"""
from __future__ import absolute_import, print_function
import sys
WORKTREE = "/tmp/wtT/C17"
sys.path.insert(0, WORKTREE)

import io
import os
import re
import shutil
import subprocess
import tempfile

import behave
assert os.path.dirname(os.path.dirname(os.path.abspath(behave.__file__))) == WORKTREE

from behave.formatter.base import StreamOpener
from behave.formatter.rerun import RerunFormatter
from behave.model_core import Status, FileLocation
from behave import runner_util
from behave.runner_util import (
    FileLocationParser, FeatureListParser,
    collect_feature_locations, parse_features,
)

PYTHON = "/venv/bin/python"
TMP = os.path.realpath(tempfile.mkdtemp(prefix="c17equiv_"))


def canon(text):
    text = text.replace(TMP, "<TMP>")
    text = re.sub(r"Took \d+min \d+\.\d+s", "Took <T>", text)
    text = re.sub(r"Took \d+m\d+\.\d+s", "Took <T>", text)
    text = re.sub(r"\d+\.\d+s\b", "<T>s", text)
    text = re.sub(r'File "[^"]*", line \d+', 'File "<F>", line <N>', text)
    return text


def emit(title, text=""):
    print("==== %s" % title)
    if text:
        for line in canon(text).rstrip("\n").split("\n"):
            print("  | " + line.rstrip())


def write(relpath, contents):
    path = os.path.join(TMP, relpath)
    dirname = os.path.dirname(path)
    if not os.path.isdir(dirname):
        os.makedirs(dirname)
    with open(path, "w") as f:
        f.write(contents)
    return path


# ---------------------------------------------------------------------------
# PART A: END-TO-END
# ---------------------------------------------------------------------------
STEPS = '''
from behave import given, when, then, step

@step(u'a step passes')
def step_passes(ctx):
    pass

@step(u'a step fails')
def step_fails(ctx):
    assert False, "XFAIL-STEP"

@step(u'a step raises an error')
def step_errors(ctx):
    raise RuntimeError("OOPS")

@step(u'a pending step')
def step_pending(ctx):
    raise NotImplementedError("PENDING")

@step(u'the value "{value}" is checked')
def step_value(ctx, value):
    assert value != "bad", "BAD-VALUE"
'''

ENVIRONMENT = '''
def before_scenario(ctx, scenario):
    if "hook_error" in scenario.tags:
        raise RuntimeError("HOOK-OOPS")
'''

ALICE = '''Feature: Alice

  Scenario: A1 passes
    Given a step passes

  Scenario: A2 fails
    Given a step passes
    When a step fails
    Then a step passes

  Scenario: A3 passes
    Given a step passes

  Scenario: A4 errors
    Given a step raises an error

  Scenario: A5 undefined
    Given an unknown step

  @hook_error
  Scenario: A6 hook error
    Given a step passes

  @skip_me
  Scenario: A7 passes last
    Given a step passes
'''

BOB = '''Feature: Bob

  Scenario Outline: B1 outline <value>
    Given the value "<value>" is checked

    Examples:
      | value |
      | good  |
      | bad   |
      | fine  |
      | bad   |

  Rule: Bob rule

    Scenario: B2 in rule fails
      Given a step fails

    Scenario: B3 in rule passes
      Given a step passes
'''

CHARLY = '''Feature: Charly (all passing)

  Scenario: C1 passes
    Given a step passes

  Scenario: C2 passes
    Given a step passes
'''

DORA = '''Feature: Dora

  Scenario: D1 fails
    Given a step fails

  Scenario: D2 pending
    Given a pending step
'''


def behave_run(args, cwd=None):
    env = dict(os.environ)
    env["PYTHONPATH"] = WORKTREE
    env["PYTHONDONTWRITEBYTECODE"] = "1"
    env.pop("BEHAVE_ARGS", None)
    env["NO_COLOR"] = "1"
    cmd = [PYTHON, "-m", "behave", "--no-color", "--no-timings"] + list(args)
    proc = subprocess.Popen(cmd, cwd=cwd or TMP, env=env,
                            stdout=subprocess.PIPE, stderr=subprocess.STDOUT)
    out, _ = proc.communicate()
    if not isinstance(out, str):
        out = out.decode("utf-8", "replace")
    return proc.returncode, out


def show_file(relpath):
    path = os.path.join(TMP, relpath)
    if os.path.exists(path):
        with open(path) as f:
            emit("FILE %s (exists)" % relpath, f.read() or "<EMPTY>")
    else:
        emit("FILE %s (missing)" % relpath)


def part_a():
    write("features/steps/steps.py", STEPS)
    write("features/environment.py", ENVIRONMENT)
    write("features/alice.feature", ALICE)
    write("features/bob.feature", BOB)
    write("features/charly.feature", CHARLY)
    write("features/sub/dora.feature", DORA)

    # -- A1: Full run, mixed outcome => rerun file with failures in run order.
    rc, out = behave_run(["-f", "rerun", "-o", "rerun.txt",
                          "-f", "plain", "features/"])
    emit("A1 full run rc=%s" % rc, out)
    show_file("rerun.txt")

    # -- A2: Feed rerun file back (plain formatter shows what ran).
    shutil.copy(os.path.join(TMP, "rerun.txt"), os.path.join(TMP, "rerun1.txt"))
    rc, out = behave_run(["-f", "rerun", "-o", "rerun.txt",
                          "-f", "plain", "--no-skipped", "@rerun1.txt"])
    emit("A2 feed back rc=%s" % rc, out)
    show_file("rerun.txt")

    # -- A3: Feed back with skipped shown + summary only.
    rc, out = behave_run(["-f", "progress", "--show-skipped", "@rerun1.txt"])
    emit("A3 feed back progress rc=%s" % rc, out)

    # -- A4: All passing run removes stale rerun file.
    write("rerun.txt", "features/alice.feature:6\n")
    rc, out = behave_run(["-f", "rerun", "-o", "rerun.txt",
                          "-f", "progress", "features/charly.feature"])
    emit("A4 all passing rc=%s" % rc, out)
    show_file("rerun.txt")

    # -- A5: All passing run, no stale file => still none.
    rc, out = behave_run(["-f", "rerun", "-o", "rerun.txt",
                          "features/charly.feature"])
    emit("A5 all passing, no stale file rc=%s" % rc, out)
    show_file("rerun.txt")

    # -- A6: rerun to stdout (no outfile).
    rc, out = behave_run(["-f", "rerun", "features/sub/dora.feature",
                          "features/charly.feature"])
    emit("A6 rerun to stdout rc=%s" % rc, out)

    # -- A7: hand-written list file: comments, blank lines, wildcard,
    #        inexact line numbers, relative to the list file directory.
    write("lists/my.txt", "\n".join([
        "# -- comment line",
        "",
        "   ../features/alice.feature:12   ",
        "../features/alice.feature:5",
        "../features/sub/*.feature",
        "  # indented comment",
        "../features/bob.feature:20",
        "",
    ]))
    rc, out = behave_run(["-f", "rerun", "-o", "rerun7.txt", "-f", "plain",
                          "--no-skipped", "@lists/my.txt"])
    emit("A7 hand-written list rc=%s" % rc, out)
    show_file("rerun7.txt")

    # -- A8: list file into a subdirectory output (directory is created).
    rc, out = behave_run(["-f", "rerun", "-o", "out/dir/rerun8.txt",
                          "features/alice.feature:9", "features/bob.feature:3"])
    emit("A8 locations on cmdline rc=%s" % rc, out)
    show_file("out/dir/rerun8.txt")

    # -- A9: missing list file / bad filename.
    rc, out = behave_run(["@missing_list.txt"])
    emit("A9 missing list file rc=%s" % rc, out)
    rc, out = behave_run(["features/alice.txt"])
    emit("A9b invalid filename rc=%s" % rc, out)
    rc, out = behave_run(["features/nope.feature:3"])
    emit("A9c missing feature rc=%s" % rc, out)

    # -- A10: dry-run => nothing failed => stale file removed.
    write("rerun10.txt", "stale\n")
    rc, out = behave_run(["--dry-run", "-f", "rerun", "-o", "rerun10.txt",
                          "features/alice.feature"])
    emit("A10 dry-run rc=%s" % rc, out)
    show_file("rerun10.txt")


# ---------------------------------------------------------------------------
# PART B: RerunFormatter in-process
# ---------------------------------------------------------------------------
class FakeStatusHolder(object):
    def __init__(self, name, status, line=0, filename="features/fake.feature",
                 scenarios=None):
        self.name = name
        self.status = status
        self.line = line
        self.filename = filename
        self.location = FileLocation(filename, line)
        self.scenarios = scenarios or []
        self.walk_calls = 0

    def walk_scenarios(self, with_outlines=False):
        self.walk_calls += 1
        return iter(self.scenarios)     # -- Single-pass on purpose.


class LoggingStream(io.StringIO):
    def __init__(self):
        super(LoggingStream, self).__init__()
        self.writes = []

    def write(self, text):
        self.writes.append(text)
        if not isinstance(text, type(u"")):
            text = text.decode("utf-8")
        return super(LoggingStream, self).write(text)


class FakeConfig(object):
    pass


def make_formatter(cls=RerunFormatter, filename=None, with_stream=True):
    stream = LoggingStream() if with_stream else None
    opener = StreamOpener(filename=filename, stream=stream)
    if stream is not None:
        opener.stream = stream      # -- Avoid encoder wrapping differences.
    return cls(opener, FakeConfig()), stream


class VerboseRerunFormatter(RerunFormatter):
    show_failed_scenarios_descriptions = True


def part_b():
    os.chdir(TMP)
    every_status = list(Status)
    emit("B0 Status.has_failed table", "\n".join(
        "%s: has_failed=%s is_error=%s is_failure=%s" %
        (s.name, s.has_failed(), s.is_error(), s.is_failure())
        for s in every_status))

    def scenarios_for(prefix, filename, start=10):
        return [FakeStatusHolder("%s %s" % (prefix, s.name), s,
                                 line=start + 5 * i, filename=filename)
                for i, s in enumerate(every_status)]

    for cls in (RerunFormatter, VerboseRerunFormatter):
        formatter, stream = make_formatter(cls)
        log = []
        # -- eof() without feature.
        formatter.eof()
        log.append("after eof w/o feature: %d" % len(formatter.failed_scenarios))
        features = []
        for fstatus in every_status:
            filename = os.path.join(os.getcwd(), "features",
                                    "f_%s.feature" % fstatus.name)
            feature = FakeStatusHolder("F %s" % fstatus.name, fstatus, 1,
                                       filename=filename,
                                       scenarios=scenarios_for(fstatus.name, filename))
            features.append(feature)
            formatter.feature(feature)
            assert formatter.current_feature is feature
            before = len(formatter.failed_scenarios)
            formatter.eof()
            log.append("feature=%s walk_calls=%d collected=%d current=%r" % (
                fstatus.name, feature.walk_calls,
                len(formatter.failed_scenarios) - before,
                formatter.current_feature))
            # -- Second eof() must be a no-op.
            formatter.eof()
        log.append("failed_scenarios: %s" % ", ".join(
            s.name for s in formatter.failed_scenarios))
        emit("B1 %s eof log" % cls.__name__, "\n".join(log))
        same_list = formatter.failed_scenarios
        formatter.close()
        emit("B1 %s output" % cls.__name__, stream.getvalue())
        emit("B1 %s writes" % cls.__name__,
             "\n".join(repr(w) for w in stream.writes))
        emit("B1 %s post-close" % cls.__name__,
             "same_list=%s stream_is_none=%s" % (
                 same_list is formatter.failed_scenarios, formatter.stream))
        formatter.reset()
        emit("B1 %s reset" % cls.__name__, "%r %r" % (
            formatter.failed_scenarios, formatter.current_feature))

    # -- B2: timestamp banner (value masked).
    class StampedFormatter(RerunFormatter):
        show_timestamp = True
    formatter, stream = make_formatter(StampedFormatter)
    feature = FakeStatusHolder("F", Status.failed, 1, scenarios=[
        FakeStatusHolder("S1", Status.failed, 3),
        FakeStatusHolder("S2", Status.passed, 7),
        FakeStatusHolder("S3", Status.error, 9)])
    formatter.feature(feature)
    formatter.eof()
    formatter.close()
    text = re.sub(r"NOW: \d{4}-\d\d-\d\d \d\d:\d\d:\d\d", "NOW: <STAMP>",
                  stream.getvalue())
    emit("B2 timestamp output", text)
    emit("B2 n-writes", str(len(stream.writes)))

    # -- B3: files: write, then stale removal, then nothing to remove.
    path = os.path.join(TMP, "b3", "sub", "rerun_b3.txt")
    formatter, _ = make_formatter(filename=path, with_stream=False)
    feature = FakeStatusHolder("F", Status.error, 1, scenarios=[
        FakeStatusHolder("S1", Status.hook_error, 3),
        FakeStatusHolder("S2", Status.skipped, 7),
        FakeStatusHolder("S3", Status.undefined, 9)])
    formatter.feature(feature)
    formatter.eof()
    formatter.close()
    show_file("b3/sub/rerun_b3.txt")
    for round_ in (1, 2):
        formatter, _ = make_formatter(filename=path, with_stream=False)
        feature = FakeStatusHolder("F", Status.passed, 1, scenarios=[
            FakeStatusHolder("S1", Status.failed, 3)])   # -- Ignored: feature OK
        formatter.feature(feature)
        formatter.eof()
        formatter.close()
        emit("B3 round %d: walk_calls=%d collected=%d" % (
            round_, feature.walk_calls, len(formatter.failed_scenarios)))
        show_file("b3/sub/rerun_b3.txt")

    # -- B4: report_scenario_failures() with nothing collected => assertion.
    formatter, stream = make_formatter()
    formatter.stream = stream
    try:
        formatter.report_scenario_failures()
        emit("B4 no exception")
    except AssertionError as e:
        emit("B4 AssertionError", repr(str(e)))
    emit("B4 writes", repr(stream.writes))

    # -- B5: exception in has_failed() in the middle: partial collection kept.
    class BadStatus(object):
        def has_failed(self):
            raise ValueError("BAD-STATUS")
    formatter, stream = make_formatter()
    feature = FakeStatusHolder("F", Status.failed, 1, scenarios=[
        FakeStatusHolder("S1", Status.failed, 3),
        FakeStatusHolder("S2", BadStatus(), 7),
        FakeStatusHolder("S3", Status.failed, 9)])
    formatter.feature(feature)
    try:
        formatter.eof()
        emit("B5 no exception")
    except ValueError as e:
        emit("B5 ValueError", "%s collected=%s current_is_feature=%s" % (
            e, [s.name for s in formatter.failed_scenarios],
            formatter.current_feature is feature))


# ---------------------------------------------------------------------------
# PART C: runner_util in-process
# ---------------------------------------------------------------------------
def part_c():
    texts = [
        "features/alice.feature", "features/alice.feature:10",
        "  features/alice.feature:10  ", "features/alice.feature:0",
        "features/alice.feature:", "features/alice.feature:1x",
        "C:\\features\\alice.feature:12", "a:b:3", ":7", "", "   ",
        "features/ alice.feature :004", u"features/\xe4lice.feature:3",
        "features/alice.feature:-3", "x.feature:12:13",
    ]
    lines = []
    for text in texts:
        loc = FileLocationParser.parse(text)
        lines.append("%r -> filename=%r line=%r str=%r" % (
            text, loc.filename, loc.line, u"%s" % loc))
    emit("C1 FileLocationParser.parse", "\n".join(lines))

    # -- C2: FeatureListParser.parse
    here = os.path.join(TMP, "lists")
    glob_calls = []
    orig_iglob = runner_util.glob.iglob
    orig_has_magic = runner_util.glob.has_magic

    def logging_iglob(pattern, *args, **kwargs):
        glob_calls.append("iglob(%s)" % pattern)
        return iter(sorted(orig_iglob(pattern, *args, **kwargs)))

    def logging_has_magic(pattern):
        glob_calls.append("has_magic(%s)" % pattern)
        return orig_has_magic(pattern)

    runner_util.glob.iglob = logging_iglob
    runner_util.glob.has_magic = logging_has_magic
    try:
        cases = [
            ("empty", "", None),
            ("comments only", "# one\n\n   # two\n", here),
            ("plain, no here", "a.feature\nb/c.feature:12\n./d/../e.feature:3", None),
            ("relative + abs", "../features/alice.feature:7\n%s/features/bob.feature\n"
                               % TMP, here),
            ("wildcards", "../features/*.feature\n../features/**/d*.feature\n"
                          "../features/nomatch*.feature\n../features/[ab]*.feature:3\n", here),
            ("crlf + spaces", "  x.feature:1  \r\n\r\ny.feature\r\n", here),
        ]
        for title, text, here_ in cases:
            del glob_calls[:]
            locs = FeatureListParser.parse(text, here_)
            emit("C2 FeatureListParser.parse [%s]" % title, "\n".join(
                ["%r" % loc for loc in locs] + ["calls: %s" % glob_calls]))
    finally:
        runner_util.glob.iglob = orig_iglob
        runner_util.glob.has_magic = orig_has_magic

    # -- C3: FeatureListParser.parse_file
    for name in ("lists/my.txt", "@lists/my.txt", "lists/missing.txt", "rerun1.txt"):
        try:
            locs = FeatureListParser.parse_file(os.path.join(TMP, name)
                                                if not name.startswith("@")
                                                else "@" + os.path.join(TMP, name[1:]))
            emit("C3 parse_file(%s)" % name, "\n".join("%r" % loc for loc in locs))
        except Exception as e:  # pylint: disable=broad-except
            emit("C3 parse_file(%s) raises %s" % (name, e.__class__.__name__), str(e))

    # -- C4: collect_feature_locations
    write("tree/b/two.feature", CHARLY)
    write("tree/b/notes.txt", "x")
    write("tree/a/one.feature", CHARLY)
    write("tree/a/zz/deep.feature", CHARLY)
    write("tree/a/aa/other.feature.bak", "x")
    write("tree/top.feature", CHARLY)
    write("tree/empty/.keep", "")
    os.chdir(TMP)
    walk_log = []
    orig_walk = runner_util.os.walk

    def logging_walk(top, *args, **kwargs):
        walk_log.append("walk(%s, %s, %s)" % (top, args, sorted(kwargs.items())))
        for dirpath, dirnames, filenames in orig_walk(top, *args, **kwargs):
            dirnames.sort(reverse=True)         # -- Callee must sort in place.
            filenames = sorted(filenames, reverse=True)
            walk_log.append("visit(%s)" % dirpath)
            yield dirpath, dirnames, filenames

    runner_util.os.walk = logging_walk
    try:
        cases = [
            ("dir", ["tree"], True),
            ("dirs + file + list", ["tree/b", "features/alice.feature:3",
                                    "@lists/my.txt", "tree/a/"], True),
            ("empty dir", ["tree/empty"], True),
            ("no paths", [], True),
            ("missing strict", ["features/nope.feature"], True),
            ("missing lenient", ["features/nope.feature:4", "features/bob.feature"], False),
            ("invalid filename", ["features/charly.feature", "features/alice.txt:3"], True),
            ("missing list", ["@nolist.txt"], True),
            ("list in list dir", ["@rerun1.txt"], True),
        ]
        for title, paths, strict in cases:
            del walk_log[:]
            try:
                locs = collect_feature_locations(paths, strict=strict)
                emit("C4 collect_feature_locations [%s]" % title, "\n".join(
                    ["%r" % loc for loc in locs] + walk_log))
            except Exception as e:  # pylint: disable=broad-except
                emit("C4 collect_feature_locations [%s] raises %s" % (
                    title, e.__class__.__name__), "\n".join([str(e)] + walk_log))
    finally:
        runner_util.os.walk = orig_walk

    # -- C5: parse_features with rerun locations => skipped marking.
    locs = collect_feature_locations(["@rerun1.txt", "features/charly.feature"])
    features = parse_features(locs)
    lines = []
    for feature in features:
        lines.append("%s should_run=%s" % (feature.name, feature.should_run()))
        for scenario in feature.walk_scenarios():
            lines.append("  %s:%s %-24s status=%s should_run=%s" % (
                os.path.basename(scenario.filename), scenario.line,
                scenario.name, scenario.status.name, scenario.should_run()))
    emit("C5 parse_features(@rerun1.txt + charly)", "\n".join(lines))


def main():
    try:
        part_a()
        part_b()
        part_c()
    finally:
        os.chdir("/")
        shutil.rmtree(TMP, ignore_errors=True)
    print("==== DONE")


if __name__ == "__main__":
    main()
