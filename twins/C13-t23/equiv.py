# -*- coding: UTF-8 -*-
"""Equivalence transcript for C13-t23 (Context.execute_steps: failure message
of a failed sub-step, text/table restore)."""
from __future__ import print_function
import sys
import io
import os
import re
import shutil
import subprocess
import tempfile

WORKTREE = "/tmp/wtX/C13"
sys.path.insert(0, WORKTREE)

FEATURE = u'''
Feature: Nested steps

  Scenario: All sub-steps pass
    Given I call sub-steps that pass
      """
      outer text
      """
    Then the outer text is "outer text"

  Scenario: Sub-step with table and text, outer has table
    Given I call sub-steps with own table and text
      | name  | value |
      | alice | 1     |
      | bob   | 2     |
    Then the outer table has 2 rows

  Scenario: Sub-step fails by assertion
    Given I call sub-steps where the second one fails
      """
      keep me
      """
    Then this step is skipped

  Scenario: Sub-step fails by assertion, caller catches
    Given I call failing sub-steps and catch the problem
      """
      keep me too
      """
    Then the outer text is "keep me too"

  Scenario: Sub-step raises an error
    Given I call sub-steps where one raises an error
    Then this step is skipped

  Scenario: Sub-step raises an error with unicode, caller catches
    Given I call erroring sub-steps and catch the problem
    Then the outer text is None

  Scenario: Sub-step is undefined
    Given I call sub-steps where one is undefined
    Then this step is skipped

  Scenario: Sub-step is undefined, caller catches
    Given I call undefined sub-steps and catch the problem

  Scenario: Nested two levels, innermost fails
    Given I call sub-steps that call failing sub-steps
      | a |
      | 1 |
    Then this step is skipped

  Scenario: Nested two levels, innermost fails, outermost catches
    Given I call nested failing sub-steps and catch the problem
      | a |
      | 1 |
    Then the outer table has 1 rows

  Scenario: Empty steps text
    Given I call no sub-steps at all
    Then the outer text is None

  Scenario: Steps text is not unicode
    Given I call sub-steps with bytes

  Scenario: Steps text has a syntax problem
    Given I call sub-steps with bad syntax

  Scenario: Pending sub-step
    Given I call a pending sub-step and catch the problem
'''

STEPS = u'''# -*- coding: UTF-8 -*-
from __future__ import print_function
import re
from behave import given, when, then, step
from behave.api.pending_step import StepNotImplementedError


def show(context, label):
    text = getattr(context, "text", "<unset>")
    table = getattr(context, "table", "<unset>")
    rows = None
    if table is not None and hasattr(table, "rows"):
        rows = [list(row.cells) for row in table.rows]
    print("SHOW %s: text=%r table=%r" % (label, text, rows))


def show_problem(label, e):
    message = re.sub(r"line \\d+, in", "line <N>, in", u"%s" % e)
    print("PROBLEM %s: %s\\n%s\\nEND-OF-PROBLEM" % (label, e.__class__.__name__, message))


@step(u'a passing step')
def step_passes(context):
    show(context, "a passing step")


@step(u'a step with own data')
def step_with_data(context):
    show(context, "a step with own data")


@step(u'a failing step')
def step_fails(context):
    show(context, "a failing step")
    assert False, u"XFAIL-HERE: Ärgernis"


@step(u'an erroring step')
def step_errors(context):
    raise RuntimeError(u"OOPS-HERE: Ärger")


@step(u'a pending step')
def step_pending(context):
    raise StepNotImplementedError(u"a pending step")


@given(u'I call sub-steps that pass')
def step_call_pass(context):
    show(context, "before")
    result = context.execute_steps(u"""
        Given a passing step
        When a passing step
        Then a passing step
    """)
    print("RESULT %r" % result)
    show(context, "after")


@given(u'I call sub-steps with own table and text')
def step_call_with_data(context):
    show(context, "before")
    result = context.execute_steps(u"""
        Given a step with own data
          | x |
          | 9 |
        And a step with own data
          \\"\\"\\"
          inner text
          \\"\\"\\"
        And a passing step
    """)
    print("RESULT %r" % result)
    show(context, "after")


FAILING = u"""
    Given a passing step
    When a failing step
      | x |
      | 9 |
    Then a passing step
"""


@given(u'I call sub-steps where the second one fails')
def step_call_fail(context):
    context.execute_steps(FAILING)


@given(u'I call failing sub-steps and catch the problem')
def step_call_fail_catch(context):
    show(context, "before")
    try:
        context.execute_steps(FAILING)
    except AssertionError as e:
        show_problem("caught", e)
    show(context, "after")
    print("MODE %s" % context._mode.name)


@given(u'I call sub-steps where one raises an error')
def step_call_error(context):
    context.execute_steps(u"When an erroring step")


@given(u'I call erroring sub-steps and catch the problem')
def step_call_error_catch(context):
    try:
        context.execute_steps(u"""
            Given a passing step
            When an erroring step
        """)
    except AssertionError as e:
        show_problem("caught", e)
    show(context, "after")


@given(u'I call sub-steps where one is undefined')
def step_call_undefined(context):
    context.execute_steps(u"""
        Given a passing step
        And an unknown step
    """)


@given(u'I call undefined sub-steps and catch the problem')
def step_call_undefined_catch(context):
    try:
        context.execute_steps(u"""
            Given an unknown step
            And a passing step
        """)
    except AssertionError as e:
        show_problem("caught", e)
    show(context, "after")


@given(u'I call a pending sub-step and catch the problem')
def step_call_pending_catch(context):
    try:
        context.execute_steps(u"Given a pending step")
    except AssertionError as e:
        show_problem("caught", e)


@given(u'I call sub-steps that call failing sub-steps')
def step_call_nested(context):
    context.execute_steps(u"""
        Given a passing step
        And I call sub-steps where the second one fails
          \\"\\"\\"
          middle text
          \\"\\"\\"
    """)


@given(u'I call nested failing sub-steps and catch the problem')
def step_call_nested_catch(context):
    show(context, "before")
    try:
        context.execute_steps(u"""
            Given I call sub-steps where the second one fails
              \\"\\"\\"
              middle text
              \\"\\"\\"
        """)
    except AssertionError as e:
        show_problem("caught", e)
    show(context, "after")


@given(u'I call no sub-steps at all')
def step_call_none(context):
    print("RESULT %r" % context.execute_steps(u""))
    print("RESULT %r" % context.execute_steps(u"   \\n  # comment only\\n"))
    show(context, "after")


@given(u'I call sub-steps with bytes')
def step_call_bytes(context):
    try:
        context.execute_steps(b"Given a passing step")
    except AssertionError as e:
        show_problem("caught", e)


@given(u'I call sub-steps with bad syntax')
def step_call_bad_syntax(context):
    try:
        context.execute_steps(u"""
            Given a passing step
            Oops this is not a step
        """)
    except Exception as e:
        show_problem("caught", e)
    show(context, "after")


@then(u'the outer text is "{text}"')
def step_outer_text(context, text):
    show(context, "then")
    assert context.text is None


@then(u'the outer text is None')
def step_outer_text_none(context):
    show(context, "then")


@then(u'the outer table has {n:d} rows')
def step_outer_table(context, n):
    show(context, "then")


@then(u'this step is skipped')
def step_skipped(context):
    print("NOT-REACHED")
'''

ENVIRONMENT = u'''
from __future__ import print_function

def before_all(context):
    try:
        context.execute_steps(u"Given a passing step")
    except Exception as e:
        print("BEFORE_ALL %s: %s" % (e.__class__.__name__, e))

def before_scenario(context, scenario):
    if "Nested" in scenario.name:
        context.execute_steps(u"Given a passing step")

def after_scenario(context, scenario):
    print("AFTER_SCENARIO %s: status=%s text=%r table=%r" % (
        scenario.name, scenario.status.name, context.text, context.table))
'''


def normalize(output, workdir):
    output = output.replace(workdir, "<WORKDIR>")
    output = re.sub(r"Took \d+m[\d.]+s", "Took <T>", output)
    output = re.sub(r'"duration": [\d.e+-]+', '"duration": <T>', output)
    output = re.sub(r'line \d+, in', 'line <N>, in', output)
    output = re.sub(r'\\"[^"]*, line \d+', lambda m: re.sub(r"line \d+", "line <N>", m.group(0)), output)
    output = re.sub(r"0x[0-9a-fA-F]+", "0x<ADDR>", output)
    return output


def main():
    workdir = tempfile.mkdtemp(prefix="c13t23_")
    try:
        os.makedirs(os.path.join(workdir, "features", "steps"))
        for name, content in (("nested.feature", FEATURE),
                              ("steps/steps.py", STEPS),
                              ("environment.py", ENVIRONMENT)):
            with io.open(os.path.join(workdir, "features", name), "w",
                         encoding="utf-8") as f:
                f.write(content)
        env = dict(os.environ)
        env["PYTHONPATH"] = WORKTREE
        env["PYTHONDONTWRITEBYTECODE"] = "1"
        env["PYTHONIOENCODING"] = "utf-8"
        variants = [
            ["-f", "plain", "--no-capture"],
            ["-f", "plain", "--capture"],
            ["-f", "json.pretty", "--no-capture"],
            ["-f", "plain", "--no-capture", "--stop"],
            ["-f", "plain", "--no-capture", "--dry-run"],
        ]
        for options in variants:
            command = [sys.executable, "-m", "behave", "--no-timings",
                       "--no-color"] + options + ["features"]
            proc = subprocess.Popen(command, cwd=workdir, env=env,
                                    stdout=subprocess.PIPE,
                                    stderr=subprocess.STDOUT)
            output = proc.communicate()[0].decode("utf-8")
            print("== behave %s -> returncode=%s" % (" ".join(options),
                                                    proc.returncode))
            print(normalize(output, workdir))
    finally:
        shutil.rmtree(workdir, ignore_errors=True)


if __name__ == "__main__":
    main()
