# -*- coding: UTF-8 -*-
"""
Equivalence transcript for property C02 (step execution order, outcome to
status mapping, stop after first non-pass).

Runs generated features through behave's public model runner with generated
step functions and prints everything observable: step-function call log,
hook calls, formatter calls (match/result), step/scenario statuses,
error messages (tracebacks reduced to their non-frame lines), undefined steps.
"""
from __future__ import print_function
import sys
sys.path.insert(0, "/tmp/wtV/C02")

import itertools
import random
import re

from behave.configuration import Configuration
from behave.parser import parse_feature
from behave.runner import ModelRunner, Context
from behave.step_registry import StepRegistry
from behave.matchers import (ParseMatcher, RegexMatcher, CFParseMatcher,
                             Match, NoMatch, MatchWithError,
                             get_step_matcher_factory)
from behave.model import Scenario, Step
from behave.model_core import Status, Argument
from behave.api.pending_step import StepNotImplementedError, PendingStepError
from behave.api.async_step import async_run_until_complete
import behave.matchers as _matchers

OUT = []


def emit(text):
    OUT.append(text)


def squeeze(message):
    """Reduce an error message to line-number independent content."""
    if message is None:
        return None
    lines = []
    for line in message.splitlines():
        if line.startswith("  "):
            # -- TRACEBACK FRAME or SOURCE LINE: Position dependent, drop it.
            continue
        lines.append(line)
    text = "|".join(lines)
    text = re.sub(r"0x[0-9a-fA-F]+", "0x?", text)
    return text


# -----------------------------------------------------------------------------
# STEP LIBRARY
# -----------------------------------------------------------------------------
CALLS = []
LAST_MATCH = []


def parse_bad_number(text):
    raise ValueError("bad number: %s" % text)


parse_bad_number.pattern = r"\d+"


def parse_type_error(text):
    raise TypeError("type trouble: %s" % text)


parse_type_error.pattern = r"\w+"


def make_registry():
    registry = StepRegistry()
    factory = get_step_matcher_factory()
    factory.reset()
    factory.register_type(Bad=parse_bad_number, BadT=parse_type_error)

    def add(keyword, pattern, func, matcher=None):
        if matcher:
            factory.use_step_matcher(matcher)
        try:
            registry.add_step_definition(keyword, pattern, func)
        finally:
            if matcher:
                factory.use_default_step_matcher()

    def log(context, name, *args):
        scenario = getattr(context, "scenario", None)
        scenario_name = scenario.name if scenario else None
        CALLS.append((scenario_name, name) + args)
        emit("    CALL %s %r in %r text=%r table=%r" % (
            name, args, scenario_name, context.text,
            context.table and context.table.headings))

    def step_pass(context, n):
        log(context, "pass", n)

    def step_pass_out(context, n):
        log(context, "passout", n)
        print("stdout from passout %s" % n)

    def step_fail(context, n):
        log(context, "fail", n)
        print("stdout from fail %s" % n)
        assert False, "failed on purpose %s" % n

    def step_fail_nomsg(context, n):
        log(context, "failnomsg", n)
        assert n == "never"

    def step_error(context, n):
        log(context, "error", n)
        raise RuntimeError("boom %s" % n)

    def step_error_lookup(context, n):
        log(context, "lookup", n)
        return {}[n]

    def step_pending(context, n):
        log(context, "pending", n)
        raise StepNotImplementedError("todo %s" % n)

    def step_pending_noargs(context, n):
        log(context, "pending0", n)
        raise StepNotImplementedError()

    def step_pending_alt(context, n):
        log(context, "pendingalt", n)
        raise PendingStepError(u"later %s" % n)

    def step_notimpl(context, n):
        log(context, "notimpl", n)
        raise NotImplementedError("plain not implemented %s" % n)

    def step_skip(context, n):
        log(context, "skip", n)
        context.scenario.skip("skipped by step %s" % n)

    def step_skip_noreason(context, n):
        log(context, "skip0", n)
        context.scenario.skip()

    def step_kbd(context, n):
        log(context, "kbd", n)
        raise KeyboardInterrupt()

    def step_conv(context, n):
        log(context, "conv", n)

    def step_convt(context, n):
        log(context, "convt", n)

    def step_two(context, a, b):
        log(context, "two", a, b)

    def step_mixed(context, first, second=None, third="dflt"):
        log(context, "mixed", first, second, third)

    def step_rx_named(context, word, num):
        log(context, "rxnamed", word, num)

    def step_rx_unnamed(context, a, b):
        log(context, "rxunnamed", a, b)

    def step_rx_mixed(context, a, num=None):
        log(context, "rxmixed", a, num)

    def step_rx_optional(context, a, b):
        log(context, "rxopt", a, b)

    def step_rx_plain(context):
        log(context, "rxplain")

    def step_generic(context, n):
        log(context, "generic", n)

    def step_given_only(context, n):
        log(context, "givenonly", n)

    def step_then_only(context, n):
        log(context, "thenonly", n)
        assert int(n) < 100, "thenonly too big %s" % n

    def step_nested(context, n):
        log(context, "nested", n)
        context.execute_steps(u"Given pass %s1\nWhen pass %s2" % (n, n))

    def step_nested_fail(context, n):
        log(context, "nestedfail", n)
        context.execute_steps(u"Given pass %s1\nWhen fail %s2\nThen pass %s3"
                              % (n, n, n))

    @async_run_until_complete
    async def step_async_pass(context, n):
        log(context, "apass", n)

    @async_run_until_complete
    async def step_async_fail(context, n):
        log(context, "afail", n)
        assert False, "async failed %s" % n

    @async_run_until_complete
    async def step_async_error(context, n):
        log(context, "aerror", n)
        raise ValueError("async boom %s" % n)

    @async_run_until_complete
    async def step_async_pending(context, n):
        log(context, "apending", n)
        raise StepNotImplementedError("async todo %s" % n)

    add("step", u"pass {n}", step_pass)
    add("step", u"passout {n}", step_pass_out)
    add("step", u"fail {n}", step_fail)
    add("step", u"failnomsg {n}", step_fail_nomsg)
    add("step", u"error {n}", step_error)
    add("step", u"lookup {n}", step_error_lookup)
    add("step", u"pending {n}", step_pending)
    add("step", u"pending0 {n}", step_pending_noargs)
    add("step", u"pendingalt {n}", step_pending_alt)
    add("step", u"notimpl {n}", step_notimpl)
    add("step", u"skip {n}", step_skip)
    add("step", u"skip0 {n}", step_skip_noreason)
    add("step", u"kbd {n}", step_kbd)
    add("step", u"conv {n:Bad}", step_conv)
    add("step", u"convt {n:BadT}", step_convt)
    add("step", u"two {a:d} and {b:w}", step_two)
    add("step", u"mixed {} with {second} and {third:d}", step_mixed)
    add("step", u"nested {n}", step_nested)
    add("step", u"nestedfail {n}", step_nested_fail)
    add("step", u"apass {n}", step_async_pass)
    add("step", u"afail {n}", step_async_fail)
    add("step", u"aerror {n}", step_async_error)
    add("step", u"apending {n}", step_async_pending)
    add("given", u"givenonly {n}", step_given_only)
    add("then", u"thenonly {n}", step_then_only)
    add("when", u"generic {n} for when", step_generic)
    add("step", r"rxnamed (?P<word>\w+) (?P<num>\d+)", step_rx_named, "re")
    add("step", r"rxunnamed (\w+) (\d+)", step_rx_unnamed, "re")
    add("step", r"rxmixed (\w+)(?: (?P<num>\d+))?", step_rx_mixed, "re")
    add("step", r"rxopt (a)?(b)?-end", step_rx_optional, "re")
    add("then", r"rxplain", step_rx_plain, "re")
    return registry


# -----------------------------------------------------------------------------
# RECORDING FORMATTER / HOOKS
# -----------------------------------------------------------------------------
class Recorder(object):
    name = "recorder"

    def __init__(self, label="F"):
        self.label = label

    def uri(self, uri):
        emit("  %s.uri %s" % (self.label, uri))

    def feature(self, feature):
        emit("  %s.feature %s" % (self.label, feature.name))

    def rule(self, rule):
        emit("  %s.rule %s" % (self.label, rule.name))

    def background(self, background):
        emit("  %s.background %s steps=%r" % (
            self.label, background.name,
            [s.name for s in background.steps]))

    def scenario(self, scenario):
        emit("  %s.scenario %s" % (self.label, scenario.name))

    def step(self, step):
        emit("  %s.step %s %s [%s]" % (self.label, step.keyword, step.name,
                                         step.status.name))

    def match(self, match):
        args = None
        if match.arguments is not None:
            args = [(a.start, a.end, a.original, a.value, a.name)
                    for a in match.arguments]
        func_name = match.func.__name__ if match.func else None
        shared = bool(LAST_MATCH and LAST_MATCH[0] is match)
        LAST_MATCH[:] = [match]
        emit("  %s.match %s func=%s args=%r error=%r location=%s shared=%s" % (
            self.label, match.__class__.__name__, func_name, args,
            squeeze(str(getattr(match, "stored_error", None))),
            match.location and match.location.basename(), shared))

    def result(self, step):
        emit("  %s.result %s -> %s hook_failed=%s err=%r exc=%s captured=%r" % (
            self.label, step.name, step.status.name, step.hook_failed,
            squeeze(step.error_message),
            step.exception.__class__.__name__,
            squeeze(step.captured.make_report())))

    def eof(self):
        emit("  %s.eof" % self.label)

    def close(self):
        emit("  %s.close" % self.label)


def make_hooks(mode):
    def record(name):
        def hook(context, *args):
            what = [getattr(a, "name", a) for a in args]
            emit("    HOOK %s %r" % (name, what))
            if mode == "before_step_fails" and name == "before_step":
                if "hookfail" in args[0].name or args[0].name.endswith("2"):
                    raise RuntimeError("before_step hook oops")
            if mode == "after_step_fails" and name == "after_step":
                if args[0].name.endswith("2"):
                    raise RuntimeError("after_step hook oops")
            if mode == "before_scenario_skips" and name == "before_scenario":
                args[0].skip("skipped in hook")
            if mode == "before_scenario_marks" and name == "before_scenario":
                args[0].mark_skipped()
            if mode == "before_scenario_fails" and name == "before_scenario":
                raise RuntimeError("before_scenario hook oops")
        return hook
    if mode is None:
        return {}
    names = ["before_all", "after_all", "before_feature", "after_feature",
             "before_rule", "after_rule",
             "before_scenario", "after_scenario", "before_tag", "after_tag",
             "before_step", "after_step"]
    return dict((name, record(name)) for name in names)


# -----------------------------------------------------------------------------
# RUNNING
# -----------------------------------------------------------------------------
def make_config(dry_run=False, show_skipped=True, tags=None, stop=False,
                capture=True):
    args = []
    if tags:
        args.append("--tags=%s" % tags)
    if not capture:
        args.extend(["--no-capture", "--no-capture-stderr", "--no-logcapture"])
    config = Configuration(command_args=args, load_config=False)
    config.dry_run = dry_run
    config.show_skipped = show_skipped
    config.stop = stop
    config.reporters = []
    config.format = []
    config.summary = False
    return config


def step_report(step):
    return "%s %s:%s" % (step.keyword, step.name, step.status.name)


def report_scenario(scenario, indent="  "):
    emit("%sSCENARIO %r status=%s should_skip=%s skip_reason=%r "
         "hook_failed=%s was_dry_run=%s duration_is_number=%s" % (
             indent, scenario.name, scenario.status.name,
             scenario.should_skip, scenario.skip_reason, scenario.hook_failed,
             scenario.was_dry_run,
             isinstance(scenario.duration, (int, float))))
    emit("%s  background_steps: %r" % (
        indent, [step_report(s) for s in scenario.background_steps]))
    emit("%s  steps: %r" % (indent, [step_report(s) for s in scenario.steps]))
    emit("%s  all_steps: %r" % (
        indent, [step_report(s) for s in scenario.all_steps]))
    for step in scenario.all_steps:
        if step.error_message or step.exception:
            emit("%s  ! %s err=%r exc=%s tb=%s" % (
                indent, step.name, squeeze(step.error_message),
                step.exception.__class__.__name__,
                step.exc_traceback is not None))


def report_feature(feature):
    emit("  FEATURE %r status=%s" % (feature.name, feature.status.name))
    if feature.background:
        emit("    feature.background steps: %r all_steps: %r inherited: %r" % (
            [step_report(s) for s in feature.background.steps],
            [step_report(s) for s in feature.background.all_steps],
            [step_report(s) for s in feature.background.inherited_steps]))
    for rule in feature.rules:
        emit("    RULE %r status=%s" % (rule.name, rule.status.name))
        if rule.background:
            emit("    rule.background steps: %r all_steps: %r inherited: %r" % (
                [step_report(s) for s in rule.background.steps],
                [step_report(s) for s in rule.background.all_steps],
                [step_report(s) for s in rule.background.inherited_steps]))
    for scenario in feature.walk_scenarios(with_outlines=False):
        report_scenario(scenario, indent="    ")


def run_feature_text(title, text, hooks_mode=None, formatters=1, repeat=1,
                     wip_continue=False, **config_kwargs):
    emit("=" * 70)
    emit("RUN %s hooks=%s config=%r" % (title, hooks_mode,
                                        sorted(config_kwargs.items())))
    registry = make_registry()
    feature = parse_feature(text, filename="generated.feature")
    if wip_continue:
        for scenario in feature.walk_scenarios(with_outlines=True):
            scenario.continue_after_failed_step = True
    config = make_config(**config_kwargs)
    for round_no in range(repeat):
        del CALLS[:]
        runner = ModelRunner(config, [feature], step_registry=registry)
        runner.hooks = make_hooks(hooks_mode)
        runner.formatters = [Recorder("F%d" % (i + 1))
                             for i in range(formatters)]
        try:
            failed = runner.run()
            emit("  RESULT round=%d failed=%s aborted=%s hook_failures=%s" % (
                round_no, failed, runner.aborted, runner.hook_failures))
        except BaseException as e:     # pylint: disable=broad-except
            emit("  RAISED round=%d %s: %s" % (round_no, e.__class__.__name__,
                                             squeeze(str(e))))
        emit("  UNDEFINED %r" % [s.name for s in runner.undefined_steps])
        emit("  CALLS %r" % CALLS)
        report_feature(feature)
        if round_no + 1 < repeat:
            feature.reset()


# -----------------------------------------------------------------------------
# FEATURE GENERATION
# -----------------------------------------------------------------------------
OUTCOMES = ["pass", "fail", "error", "pending", "undefined", "skip", "kbd",
            "conv"]
MORE_OUTCOMES = OUTCOMES + ["failnomsg", "pending0", "pendingalt", "notimpl",
                            "skip0", "convt", "lookup", "apass", "afail",
                            "aerror", "apending", "passout", "nested",
                            "nestedfail"]
KEYWORDS = ["Given", "When", "Then", "And", "But"]


def step_line(outcome, ident, position):
    keyword = KEYWORDS[position % len(KEYWORDS)] if position else "Given"
    if outcome in ("conv",):
        return "    %s conv 12%s" % (keyword, position)
    return "    %s %s %s" % (keyword, outcome, ident)


def make_feature(name, scenarios, feature_background=None,
                 rule_background=None, use_rule=False, tags=""):
    """scenarios: list of (tags, name, [outcomes]) or
    ("outline", tags, name, [outcomes], rows)."""
    lines = []
    if tags:
        lines.append(tags)
    lines.append("Feature: %s" % name)
    if feature_background is not None:
        lines.append("  Background: FB")
        for i, outcome in enumerate(feature_background):
            lines.append(step_line(outcome, "fb%d" % i, i))
    if use_rule:
        lines.append("  Rule: R1")
        if rule_background is not None:
            lines.append("  Background: RB")
            for i, outcome in enumerate(rule_background):
                lines.append(step_line(outcome, "rb%d" % i, i))
    for number, spec in enumerate(scenarios):
        if spec[0] == "outline":
            _, stags, sname, outcomes, rows = spec
            if stags:
                lines.append("  " + stags)
            lines.append("  Scenario Outline: %s" % sname)
            for i, outcome in enumerate(outcomes):
                lines.append(step_line(outcome, "s%d_%d_<x>" % (number, i), i))
            lines.append("    Examples: E")
            lines.append("      | x |")
            for row in rows:
                lines.append("      | %s |" % row)
        else:
            stags, sname, outcomes = spec
            if stags:
                lines.append("  " + stags)
            lines.append("  Scenario: %s" % sname)
            for i, outcome in enumerate(outcomes):
                lines.append(step_line(outcome, "s%d_%d" % (number, i), i))
    return "\n".join(lines) + "\n"


def common_runs():
    # -- 1. EXHAUSTIVE: All outcome sequences up to length 2 (plain scenario),
    #    normal run, one formatter, hooks recorded.
    for length in (0, 1, 2):
        for seq in itertools.product(OUTCOMES, repeat=length):
            text = make_feature("exh", [("", "S_" + "_".join(seq), list(seq)),
                                        ("", "Next", ["pass"])])
            run_feature_text("exh%d %s" % (length, "-".join(seq)), text,
                             hooks_mode="record")

    # -- 2. Length 3 with first non-pass at each position, with @wip,
    #    dry-run and continue_after_failed_step variations.
    for outcome in MORE_OUTCOMES:
        for position in range(3):
            seq = ["pass"] * 3
            seq[position] = outcome
            seq.append("undefined")
            seq.append("fail")
            for tags in ("", "@wip"):
                text = make_feature("pos", [(tags, "P", seq),
                                            ("", "After", ["pass", "fail"])])
                run_feature_text("pos %s@%d tags=%s" % (outcome, position, tags),
                                 text)
            text = make_feature("pos", [("", "P", seq)])
            run_feature_text("pos-dry %s@%d" % (outcome, position), text,
                             dry_run=True, hooks_mode="record")
            run_feature_text("pos-cont %s@%d" % (outcome, position), text,
                             wip_continue=True)

    # -- 3. Background inheritance: 0..2 levels, outline rows, two formatters.
    for fb in (None, [], ["pass"], ["pass", "fail"], ["undefined", "pass"]):
        for rb in (None, ["pass"], ["pending", "pass"], ["skip"]):
            for use_rule in (False, True):
                if not use_rule and rb is not None:
                    continue
                scenarios = [
                    ("", "A", ["pass", "pass"]),
                    ("@wip", "B", ["pending", "pass"]),
                    ("outline", "", "O", ["pass", "error", "pass"],
                     ["1", "2"]),
                    ("", "C", []),
                ]
                text = make_feature("bg", scenarios, feature_background=fb,
                                    rule_background=rb, use_rule=use_rule)
                run_feature_text("bg fb=%r rb=%r rule=%s" % (fb, rb, use_rule),
                                 text, formatters=2, hooks_mode="record")
                run_feature_text("bg-dry fb=%r rb=%r rule=%s" % (fb, rb, use_rule),
                                 text, dry_run=True)

    # -- 4. Repeated runs of the same scenario objects.
    text = make_feature("again", [("", "R1", ["pass", "fail", "pass"]),
                                  ("@wip", "R2", ["pending", "skip", "pass"]),
                                  ("", "R3", ["conv", "pass"]),
                                  ("outline", "", "RO", ["pass", "undefined"],
                                   ["a"])],
                        feature_background=["pass"])
    run_feature_text("repeat", text, repeat=3, hooks_mode="record")
    run_feature_text("repeat-dry", text, repeat=2, dry_run=True)

    # -- 5. Hook failures and scenario exclusion.
    text = make_feature("hooks", [("@t1 @t2", "H1", ["pass", "pass hookfail",
                                                    "pass", "undefined"]),
                                  ("", "H2", ["pass", "fail 2", "pass"]),
                                  ("@skipme", "H3", ["pass", "undefined"])],
                        feature_background=["pass"])
    for mode in ("before_step_fails", "after_step_fails",
                 "before_scenario_skips", "before_scenario_marks",
                 "before_scenario_fails"):
        run_feature_text("hooks %s" % mode, text, hooks_mode=mode)
    run_feature_text("tags-exclude", text, tags="not @skipme",
                     hooks_mode="record")
    run_feature_text("tags-exclude-noshow", text, tags="not @skipme",
                     show_skipped=False)
    run_feature_text("no-capture", text, capture=False)
    run_feature_text("stop", text, stop=True)

    # -- 6. Matching variety: regex/parse matchers, step types, text/tables.
    text = u'''
Feature: matching
  Scenario: M1
    Given givenonly 1
    When generic 2 for when
    Then thenonly 3
    And thenonly 500
    But pass after
  Scenario: M2
    Given rxnamed alpha 42
    When rxunnamed beta 7
    Then rxmixed gamma 9
    And rxmixed delta
    And rxopt a-end
    And rxopt b-end
    And rxopt -end
    And rxplain
    And two 12 and word
    And mixed one with two and 3
  Scenario: M3
    When givenonly 1
    Then pass x
  Scenario: M4
    Given rxplain
  Scenario: M5
    Given pass with text
      """
      some text
      """
    When pass with table
      | a | b |
      | 1 | 2 |
    Then pass plain
    And convt word
    And pass never
  Scenario: M6
    Given two x and y
    Then pass z
'''
    run_feature_text("matching", text, hooks_mode="record")
    run_feature_text("matching-dry", text, dry_run=True)

    # -- 7. RANDOM: Longer outcome sequences.
    rng = random.Random(20240202)
    for number in range(60):
        length = rng.randint(3, 8)
        weights = ["pass"] * 6 + MORE_OUTCOMES
        seq = [rng.choice(weights) for _ in range(length)]
        fb = rng.choice([None, ["pass"], ["pass", "pass"], ["fail"],
                         ["undefined"]])
        rb = rng.choice([None, ["pass"], ["error"], ["apass", "pass"]])
        use_rule = rng.choice([False, True])
        tags = rng.choice(["", "@wip", "@other"])
        outline = rng.choice([False, True])
        if outline:
            spec = ("outline", tags, "RND%d" % number, seq, ["r1", "r2"])
        else:
            spec = (tags, "RND%d" % number, seq)
        text = make_feature("random", [spec, ("", "Tail", ["pass"])],
                            feature_background=fb,
                            rule_background=rb if use_rule else None,
                            use_rule=use_rule)
        run_feature_text("random %d %s" % (number, "-".join(seq)), text,
                         dry_run=rng.random() < 0.2,
                         wip_continue=rng.random() < 0.25,
                         hooks_mode=rng.choice([None, "record"]),
                         formatters=rng.choice([1, 2]))


def main(extra=None):
    common_runs()
    if extra:
        extra()
    sys.stdout.write("\n".join(OUT) + "\n")



# -----------------------------------------------------------------------------
# TWIN-SPECIFIC RUNS: Step.run() outcome to status mapping
# -----------------------------------------------------------------------------
class OddAssertion(AssertionError):
    def __str__(self):
        return "odd<%s>" % ",".join(str(a) for a in self.args)


class OddPending(PendingStepError):
    pass


def extra_runs():
    registry = make_registry()

    def raiser(exc_factory):
        def step_impl(context):
            CALLS.append("raiser")
            print("output before raise")
            result = exc_factory()
            if result is not None:
                raise result
        return step_impl

    cases = [
        ("returns", lambda: None),
        ("assert-msg", lambda: AssertionError("with message")),
        ("assert-empty", lambda: AssertionError()),
        ("assert-two-args", lambda: AssertionError("first", 2)),
        ("assert-unicode", lambda: AssertionError(u"Gr\xfc\xdfe ✓")),
        ("assert-none-arg", lambda: AssertionError(None)),
        ("assert-empty-text", lambda: AssertionError("")),
        ("assert-odd", lambda: OddAssertion("x", "y")),
        ("assert-odd-empty", lambda: OddAssertion()),
        ("pending-msg", lambda: StepNotImplementedError("with message")),
        ("pending-empty", lambda: StepNotImplementedError()),
        ("pending-alt", lambda: PendingStepError(u"sp\xe4ter")),
        ("pending-alt-empty", lambda: PendingStepError()),
        ("pending-odd", lambda: OddPending("a", "b")),
        ("not-implemented", lambda: NotImplementedError("plain")),
        ("runtime", lambda: RuntimeError("boom")),
        ("runtime-empty", lambda: RuntimeError()),
        ("value-unicode", lambda: ValueError(u"\xe4\xf6\xfc")),
        ("keyboard", lambda: KeyboardInterrupt()),
        ("keyboard-msg", lambda: KeyboardInterrupt("ctrl-c")),
        ("stop-iteration", lambda: StopIteration("stop")),
        ("system-exit", lambda: SystemExit(3)),
        ("generator-exit", lambda: GeneratorExit()),
    ]
    for name, factory in cases:
        registry.add_step_definition("step", u"raise %s" % name,
                                     raiser(factory))

    text_lines = ["Feature: direct steps", "  @wip", "  Scenario: W"]
    text_lines += ["    Given raise %s" % name for name, _ in cases]
    text_lines += ["    Given no such step", "    Given conv 12",
                   "    Given skip now", "    Given pass 2"]
    text_lines += ["  Scenario: N"]
    text_lines += ["    Given raise %s" % name for name, _ in cases]
    text_lines += ["    Given no such step", "    Given conv 12",
                   "    Given skip now", "    Given pass 2"]
    text = "\n".join(text_lines) + "\n"

    for dry_run in (False, True):
        for hooks_mode in (None, "record", "before_step_fails",
                           "after_step_fails"):
            for quiet, capture in ((False, True), (True, True),
                                   (False, False), (True, False)):
                emit("=" * 70)
                emit("STEP.RUN dry_run=%s hooks=%s quiet=%s capture=%s" % (
                    dry_run, hooks_mode, quiet, capture))
                feature = parse_feature(text, filename="steps.feature")
                config = make_config(dry_run=dry_run)
                runner = ModelRunner(config, [feature], step_registry=registry)
                runner.formatters = [Recorder("F1"), Recorder("F2")]
                runner.hooks = make_hooks(hooks_mode)
                for with_scenario in (True, False):
                    for scenario in feature.scenarios:
                        runner.context = Context(runner)
                        if with_scenario:
                            runner.context.scenario = scenario
                        for step in scenario.steps:
                            del CALLS[:]
                            for round_no in range(2):
                                runner.setup_capture()
                                try:
                                    result = step.run(runner, quiet=quiet,
                                                      capture=capture)
                                    emit("  Step.run %r in %s/%s -> %r" % (
                                        step.name, scenario.name,
                                        with_scenario, result))
                                except BaseException as e:  # noqa
                                    emit("  Step.run %r in %s/%s RAISED %s: %s" % (
                                        step.name, scenario.name,
                                        with_scenario,
                                        e.__class__.__name__, e))
                                emit("    status=%s hook_failed=%s err=%r "
                                     "exc=%s tb=%s captured=%r calls=%d "
                                     "duration_ok=%s aborted=%s" % (
                                         step.status.name, step.hook_failed,
                                         squeeze(step.error_message),
                                         step.exception.__class__.__name__,
                                         step.exc_traceback is not None,
                                         squeeze(step.captured.make_report()),
                                         len(CALLS),
                                         isinstance(step.duration, float)
                                         and step.duration >= 0,
                                         runner.aborted))
                                runner.teardown_capture()
                            if runner.aborted:
                                runner.context = Context(runner)
                                if with_scenario:
                                    runner.context.scenario = scenario
                        emit("  UNDEFINED %d" % len(runner.undefined_steps))

    # -- THROUGH THE RUNNER: same outcomes, with/without @wip.
    for dry_run in (False, True):
        emit("=" * 70)
        emit("STEP OUTCOMES via runner dry_run=%s" % dry_run)
        for name, _ in cases:
            for tags in ("", "@wip"):
                lines = ["Feature: outcome"]
                if tags:
                    lines.append("  " + tags)
                lines += ["  Scenario: S %s" % name, "    Given pass 1",
                          "    When raise %s" % name, "    Then pass 3",
                          "    And nothing here"]
                feature = parse_feature("\n".join(lines) + "\n",
                                        filename="outcome.feature")
                config = make_config(dry_run=dry_run)
                runner = ModelRunner(config, [feature], step_registry=registry)
                runner.formatters = [Recorder("F1")]
                del CALLS[:]
                try:
                    failed = runner.run()
                    emit("  RESULT %s %s failed=%s aborted=%s" % (
                        name, tags, failed, runner.aborted))
                except BaseException as e:      # noqa
                    emit("  RAISED %s %s %s: %s" % (name, tags,
                                                    e.__class__.__name__, e))
                emit("  CALLS %r" % CALLS)
                report_feature(feature)


if __name__ == "__main__":
    main(extra_runs)
