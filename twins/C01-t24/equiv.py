# -*- coding: utf-8 -*-
"""Equivalence transcript for property C01 (run verdict).

Sends REAL parsed features through the REAL ModelRunner (no mocks), with a
recording formatter, a recording reporter and recording hooks, and prints a
canonical transcript. A few cases go through `python -m behave` as well.
"""
from __future__ import print_function
import sys
sys.path.insert(0, "/tmp/wtX/C01")

import io
import itertools
import os
import re
import shutil
import subprocess
import tempfile

from behave.configuration import Configuration
from behave.exception import StepNotImplementedError
from behave.model import Scenario
from behave.parser import parse_feature
from behave.runner import ModelRunner, Context
from behave.step_registry import StepRegistry

FOCUS = "C01-t24: ModelRunner.run_hook"
LOG = []


def log(text):
    LOG.append(text)


# ---------------------------------------------------------------------------
# STEPS
# ---------------------------------------------------------------------------
def step_pass(context):
    log("      step-impl: pass")


def step_print(context):
    print("printed by step")
    log("      step-impl: print")


def step_assert(context):
    assert False, "boom"


def step_assert_nomsg(context):
    assert False


def step_error(context):
    raise RuntimeError("kaputt")


def step_pending(context):
    raise StepNotImplementedError("todo")


def step_pending_nomsg(context):
    raise StepNotImplementedError()


def step_skip(context):
    context.scenario.skip("skipped by step")


def step_interrupt(context):
    raise KeyboardInterrupt()


def step_bad_cleanup(context):
    def bad_cleanup():
        raise ValueError("cleanup failed")
    context.add_cleanup(bad_cleanup)


def step_good_cleanup(context):
    def good_cleanup():
        log("      cleanup called")
    context.add_cleanup(good_cleanup)


def step_nested_fail(context):
    context.execute_steps(u"Given a passing step\nWhen an asserting step")


def step_nested_pass(context):
    context.execute_steps(u"Given a passing step\nWhen a printing step")


def step_with_param(context, value):
    log("      step-impl: value=%s" % value)
    assert value != "bad", "bad value"


STEPS = [
    ("a passing step", step_pass),
    ("a printing step", step_print),
    ("an asserting step", step_assert),
    ("an asserting step without message", step_assert_nomsg),
    ("an erroring step", step_error),
    ("a pending step", step_pending),
    ("a pending step without message", step_pending_nomsg),
    ("a step that skips the scenario", step_skip),
    ("a step that interrupts", step_interrupt),
    ("a step with a bad cleanup", step_bad_cleanup),
    ("a step with a good cleanup", step_good_cleanup),
    ("a nested failing step", step_nested_fail),
    ("a nested passing step", step_nested_pass),
    ("a value {value}", step_with_param),
]


def make_registry():
    registry = StepRegistry()
    for pattern, func in STEPS:
        registry.add_step_definition("step", pattern, func)
    return registry


# ---------------------------------------------------------------------------
# FORMATTER / REPORTER / HOOKS
# ---------------------------------------------------------------------------
class RecFormatter(object):
    """Full formatter protocol (incl. rule_finished)."""
    name = "rec"

    def __init__(self, label):
        self.label = label

    def _log(self, text):
        log("    fmt[%s].%s" % (self.label, text))

    def uri(self, uri):
        self._log("uri(%s)" % uri)

    def feature(self, feature):
        self._log("feature(%s)" % feature.name)

    def rule(self, rule):
        self._log("rule(%s)" % rule.name)

    def rule_finished(self):
        self._log("rule_finished()")

    def background(self, background):
        self._log("background(%s)" % background.name)

    def scenario(self, scenario):
        self._log("scenario(%s)" % scenario.name)

    def step(self, step):
        self._log("step(%s)" % step.name)

    def match(self, match):
        self._log("match(%s)" % match.__class__.__name__)

    def result(self, step):
        self._log("result(%s: %s)" % (step.name, step.status.name))

    def eof(self):
        self._log("eof()")

    def close(self):
        self._log("close()")


class MinimalFormatter(object):
    """Formatter without feature()/rule()/rule_finished()/eof() callbacks."""
    def __init__(self, label):
        self.label = label

    def _log(self, text):
        log("    fmt[%s].%s" % (self.label, text))

    def uri(self, uri):
        self._log("uri")

    def background(self, background):
        self._log("background")

    def scenario(self, scenario):
        self._log("scenario(%s)" % scenario.name)

    def step(self, step):
        pass

    def match(self, match):
        pass

    def result(self, step):
        self._log("result(%s)" % step.status.name)

    def close(self):
        self._log("close")


class RecReporter(object):
    def __init__(self, raise_interrupt_on=None):
        self.raise_interrupt_on = raise_interrupt_on

    def feature(self, feature):
        log("    reporter.feature(%s: %s)" % (feature.name, feature.status.name))

    def end(self):
        log("    reporter.end()")


HOOK_NAMES = ["before_all", "after_all", "before_feature", "after_feature",
              "before_rule", "after_rule", "before_scenario", "after_scenario",
              "before_step", "after_step", "before_tag", "after_tag"]


def make_hooks(raising=None, extra=None):
    """raising: dict hook-name -> predicate(args) -> exception or None."""
    raising = raising or {}
    extra = extra or {}

    def make_hook(name):
        def hook(context, *args):
            what = ""
            if args:
                what = getattr(args[0], "name", args[0])
            log("    hook %s(%s)" % (name, what))
            action = extra.get(name)
            if action:
                action(context, *args)
            predicate = raising.get(name)
            if predicate:
                exc = predicate(what)
                if exc is not None:
                    raise exc
        return hook
    return dict((name, make_hook(name)) for name in HOOK_NAMES)


# ---------------------------------------------------------------------------
# RUN ONE CASE
# ---------------------------------------------------------------------------
def sanitize(text):
    text = re.sub(r"line \d+", "line N", text)
    text = re.sub(r"0x[0-9a-fA-F]+", "0xX", text)
    text = re.sub(r"\d+\.\d+s", "T.TTTs", text)
    text = re.sub(r"\bin \d+m\d+\.\d+s", "in TIME", text)
    return text


def describe_model(features):
    for feature in features:
        log("  feature %s: %s hook_failed=%s" %
            (feature.name, feature.status.name, feature.hook_failed))
        if feature.error_message:
            log("    error_message: %r" % sanitize(feature.error_message))
        for item in feature.walk_scenarios(with_outlines=True, with_rules=True):
            status = item.status.name
            log("    %s %s: %s hook_failed=%s" %
                (item.__class__.__name__, item.name, status,
                 getattr(item, "hook_failed", None)))
            if getattr(item, "error_message", None):
                log("      error_message: %r" % sanitize(item.error_message))
            if item.__class__ is Scenario:
                for step in item.all_steps:
                    log("      step %s: %s hook_failed=%s exc=%s" %
                        (step.name, step.status.name, step.hook_failed,
                         step.exception.__class__.__name__))
                    if step.error_message:
                        log("        error_message: %r" %
                            sanitize(step.error_message))


def run_case(title, feature_texts, args=None, raising=None, extra=None,
             use_hooks=True, preset_undefined=0, formatters="both",
             fail_on_cleanup_errors=None, run_twice=False,
             features_as_generator=False):
    del LOG[:]
    print("=" * 70)
    print("CASE: %s  args=%r" % (title, args or []))
    config = Configuration(command_args=list(args or []), load_config=False)
    config.reporters = [RecReporter()]
    features = []
    for index, text in enumerate(feature_texts):
        features.append(parse_feature(text, filename="f%d.feature" % index))
    runner = ModelRunner(config, features, step_registry=make_registry())
    if use_hooks:
        runner.hooks = make_hooks(raising, extra)
    if formatters == "both":
        runner.formatters = [RecFormatter("A"), MinimalFormatter("B")]
    elif formatters == "rec":
        runner.formatters = [RecFormatter("A")]
    else:
        runner.formatters = []
    for _ in range(preset_undefined):
        runner.undefined_steps.append(object())

    rounds = 2 if run_twice else 1
    for round_no in range(rounds):
        captured_stdout = io.StringIO()
        real_stdout = sys.stdout
        sys.stdout = captured_stdout
        outcome = None
        try:
            try:
                if round_no == 0:
                    runner.context = Context(runner)
                    if fail_on_cleanup_errors is not None:
                        runner.context.fail_on_cleanup_errors = fail_on_cleanup_errors
                    if features_as_generator:
                        def feature_source():
                            for feature in features:
                                log("    pull feature %s" % feature.name)
                                yield feature
                            log("    feature source exhausted")
                        runner.features = []
                        outcome = "returned %r" % (
                            runner.run_model(feature_source()),)
                    else:
                        outcome = "returned %r" % (runner.run_model(),)
                else:
                    outcome = "returned %r" % (runner.run(),)
            except BaseException as e:     # pylint: disable=broad-except
                outcome = "raised %s: %s" % (e.__class__.__name__, e)
        finally:
            sys.stdout = real_stdout
        print("RESULT[%d]: %s" % (round_no, outcome))
        print("  aborted=%r hook_failures=%r undefined=%r" % (
            runner.aborted, runner.hook_failures,
            [getattr(s, "name", "<preset>") for s in runner.undefined_steps]))
        root = runner.context._root
        print("  root.failed=%r root.cleanup_errors=%r stack-depth=%d" % (
            root.get("failed"), root.get("cleanup_errors"),
            len(runner.context._stack)))
        print("  runner.feature=%s" % getattr(runner.feature, "name", None))
        log("MODEL-AFTER-RUN:")
        describe_model(features)
        print("CALLS:")
        for line in LOG:
            print(line)
        del LOG[:]
        print("STDOUT:")
        for line in sanitize(captured_stdout.getvalue()).splitlines():
            print("  | " + line)


# ---------------------------------------------------------------------------
# FEATURE TEXTS
# ---------------------------------------------------------------------------
OUTCOME_STEPS = [
    "a passing step",
    "a printing step",
    "an asserting step",
    "an asserting step without message",
    "an erroring step",
    "a pending step",
    "a pending step without message",
    "an unknown step",
    "a step that skips the scenario",
    "a step that interrupts",
    "a step with a bad cleanup",
    "a step with a good cleanup",
    "a nested failing step",
    "a nested passing step",
]


def simple_feature(name, steps, tags="", scenario_tags=""):
    lines = []
    if tags:
        lines.append(tags)
    lines.append("Feature: %s" % name)
    if scenario_tags:
        lines.append("  " + scenario_tags)
    lines.append("  Scenario: %s.S1" % name)
    for keyword, step in zip(itertools.cycle(["Given", "When", "Then"]), steps):
        lines.append("    %s %s" % (keyword, step))
    lines.append("  Scenario: %s.S2" % name)
    lines.append("    Given a passing step")
    return u"\n".join(lines) + u"\n"


COMPLEX = u"""
@ftag
Feature: Complex
  Background: FB
    Given a passing step

  @s1
  Scenario: C.S1
    When a printing step

  @s2 @wip
  Scenario: C.S2 wip pending
    When a pending step
    Then a passing step

  @outline
  Scenario Outline: C.O1 <v>
    When a value <v>

    @ex1
    Examples: E1
      | v    |
      | one  |
      | bad  |
      | two  |

    @ex2
    Examples: E2
      | v     |
      | three |

  @rtag
  Rule: R1
    Background: RB
      Given a step with a good cleanup

    @r1s1
    Scenario: R1.S1
      When an asserting step
      Then a passing step

    @r1s2
    Scenario: R1.S2
      When a passing step

  Rule: R2 empty

  Rule: R3
    @r3s1
    Scenario: R3.S1
      When an unknown step
      Then another unknown step
      And a passing step

    Scenario: R3.S2 no steps
"""

PASSING = u"""
Feature: AllPass
  Scenario: P.S1
    Given a passing step
    When a nested passing step
  Scenario Outline: P.O <v>
    Given a value <v>
    Examples:
      | v |
      | 1 |
      | 2 |
  Rule: PR
    Scenario: P.R.S1
      Given a passing step
"""

EMPTY = u"""
Feature: Empty
"""

INTERRUPT = u"""
Feature: Interrupt
  Scenario: I.S1
    Given a passing step
  Scenario Outline: I.O <v>
    Given a value <v>
    When <s>
    Examples:
      | v | s                      |
      | 1 | a passing step         |
      | 2 | a step that interrupts |
      | 3 | a passing step         |
  Scenario: I.S3
    Given a passing step
"""


def raise_on(names, exc_class=RuntimeError):
    def predicate(what):
        if names is True or what in names:
            return exc_class("hook problem at %s" % what)
        return None
    return predicate


# ---------------------------------------------------------------------------
# SUBPROCESS CASES: python -m behave
# ---------------------------------------------------------------------------
ENV_PY = u'''
import os
def before_all(context):
    if os.environ.get("RAISE_BEFORE_ALL"):
        raise RuntimeError("before_all broken")
def after_scenario(context, scenario):
    if "bad_after" in scenario.tags:
        raise ValueError("after_scenario broken")
def after_all(context):
    if os.environ.get("RAISE_AFTER_ALL"):
        raise RuntimeError("after_all broken")
'''

STEPS_PY = u'''
from behave import step
@step(u"a passing step")
def step_pass(context):
    pass
@step(u"an asserting step")
def step_fail(context):
    assert False, "boom"
@step(u"an erroring step")
def step_error(context):
    raise RuntimeError("kaputt")
@step(u"a pending step")
def step_pending(context):
    raise NotImplementedError("not a behave pending")
@step(u"a step that interrupts")
def step_interrupt(context):
    raise KeyboardInterrupt()
@step(u"a step with a bad cleanup")
def step_bad_cleanup(context):
    def bad():
        raise ValueError("cleanup failed")
    context.add_cleanup(bad)
'''

SUB_FEATURES = {
    "pass.feature": u"""
Feature: Pass
  Scenario: S1
    Given a passing step
  @skipme
  Scenario: S2
    Given an asserting step
""",
    "fail.feature": u"""
Feature: Fail
  Scenario: F1
    Given an asserting step
  Scenario: F2
    Given a passing step
""",
    "undefined.feature": u"""
Feature: Undefined
  Scenario: U1
    Given an unknown step
""",
    "hook.feature": u"""
Feature: Hook
  @bad_after
  Scenario: H1
    Given a passing step
""",
    "interrupt.feature": u"""
Feature: Interrupt
  Scenario: I1
    Given a step that interrupts
  Scenario: I2
    Given a passing step
""",
    "cleanup.feature": u"""
Feature: Cleanup
  Scenario: C1
    Given a step with a bad cleanup
""",
    "broken.feature": u"""
Feature: Broken
  Scenario: B1
    Given a passing step
  Scenario Outline: B2
    Given a passing step
    Examples:
      | a |
      | 1 | 2 |
""",
}

SUB_CASES = [
    (["pass.feature", "--tags=not @skipme"], {}),
    (["pass.feature"], {}),
    (["fail.feature"], {}),
    (["fail.feature", "pass.feature", "--stop", "--tags=not @skipme"], {}),
    (["undefined.feature"], {}),
    (["undefined.feature", "--dry-run"], {}),
    (["hook.feature"], {}),
    (["interrupt.feature", "pass.feature"], {}),
    (["cleanup.feature"], {}),
    (["pass.feature", "--tags=not @skipme"], {"RAISE_BEFORE_ALL": "1"}),
    (["pass.feature", "--tags=not @skipme"], {"RAISE_AFTER_ALL": "1"}),
    (["missing.feature"], {}),
    (["broken.feature"], {}),
    (["pass.feature", "--tags=@a and and"], {}),
    (["--version"], {}),
    (["pass.feature", "-f", "plain", "-o", "x.txt", "-o", "y.txt",
      "-o", "z.txt"], {}),
]


def run_subprocess_cases():
    workdir = tempfile.mkdtemp(prefix="c01_equiv_")
    try:
        features_dir = os.path.join(workdir, "features")
        os.makedirs(os.path.join(features_dir, "steps"))
        with io.open(os.path.join(features_dir, "environment.py"), "w",
                     encoding="utf-8") as f:
            f.write(ENV_PY)
        with io.open(os.path.join(features_dir, "steps", "steps.py"), "w",
                     encoding="utf-8") as f:
            f.write(STEPS_PY)
        for name, text in sorted(SUB_FEATURES.items()):
            with io.open(os.path.join(features_dir, name), "w",
                         encoding="utf-8") as f:
                f.write(text)
        for args, extra_env in SUB_CASES:
            env = dict(os.environ)
            env["PYTHONPATH"] = "/tmp/wtX/C01"
            env["PYTHONDONTWRITEBYTECODE"] = "1"
            env.update(extra_env)
            cmd_args = []
            for arg in args:
                if arg.endswith(".feature"):
                    arg = "features/" + arg
                cmd_args.append(arg)
            cmd = [sys.executable, "-m", "behave", "--no-color",
                   "-f", "plain", "--no-timings"] + cmd_args
            if "--version" in args:
                cmd = [sys.executable, "-m", "behave"] + cmd_args
            proc = subprocess.Popen(cmd, cwd=workdir, env=env,
                                    stdout=subprocess.PIPE,
                                    stderr=subprocess.STDOUT)
            output = proc.communicate()[0].decode("utf-8", "replace")
            print("=" * 70)
            print("SUBPROCESS: behave %s env=%r" % (" ".join(args),
                                                    sorted(extra_env)))
            print("EXIT-CODE: %d" % proc.returncode)
            output = output.replace(workdir, "<WORKDIR>")
            for line in sanitize(output).splitlines():
                print("  | " + line.rstrip())
    finally:
        shutil.rmtree(workdir, ignore_errors=True)


# ---------------------------------------------------------------------------
# MAIN
# ---------------------------------------------------------------------------
def twin_specific_cases():
    # -- FOCUS C01-t24: ModelRunner.run_hook() / ModelRunner.aborted, direct.
    for verbose, dry_run in itertools.product((False, True), (False, True)):
        del LOG[:]
        print("=" * 70)
        print("DIRECT run_hook: verbose=%s dry_run=%s" % (verbose, dry_run))
        feature = parse_feature(COMPLEX, filename="direct.feature")
        config = Configuration(command_args=[], load_config=False)
        config.reporters = []
        config.verbose = verbose
        config.dry_run = dry_run
        runner = ModelRunner(config, [feature], step_registry=make_registry())
        print("  aborted without context: %r" % (runner.aborted,))
        print("  abort() without context: %r" % (runner.abort("why"),))
        hooks = make_hooks({
            "before_all": raise_on(True), "after_all": raise_on(True),
            "before_feature": raise_on(True, ValueError),
            "after_feature": raise_on(True, AssertionError),
            "before_rule": raise_on(True, KeyError),
            "before_scenario": raise_on(True),
            "after_scenario": raise_on(True, ZeroDivisionError),
            "before_step": raise_on(True), "after_step": raise_on(True),
            "before_tag": raise_on(True), "after_tag": raise_on(True),
        })
        del hooks["after_rule"]
        hooks["my_all_hook"] = hooks["before_all"]
        hooks["tagged"] = hooks["before_tag"]
        runner.hooks = hooks
        runner.context = context = Context(runner)
        print("  aborted with fresh context: %r" % (runner.aborted,))
        scenario = feature.scenarios[0]
        rule = list(feature.iter_rules())[0]
        step = scenario.steps[0]
        calls = [
            ("unknown_hook", ()), ("after_rule", (rule,)),
            ("before_feature", (feature,)), ("before_feature", (feature,)),
            ("after_feature", (feature,)),
            ("before_tag", ("t0",)),
            ("SET-FEATURE", ()), ("before_tag", ("t1",)), ("after_tag", ("t2",)),
            ("SET-RULE", ()), ("before_tag", ("t3",)), ("before_rule", (rule,)),
            ("SET-SCENARIO", ()), ("before_tag", ("t4",)), ("tagged", ("t5",)),
            ("before_scenario", (scenario,)), ("after_scenario", (scenario,)),
            ("before_step", (step,)), ("after_step", (step,)),
            ("my_all_hook", ()), ("UNABORT", ()), ("after_all", ()),
            ("UNABORT", ()), ("before_all", ()),
        ]
        captured_stdout = io.StringIO()
        real_stdout = sys.stdout
        sys.stdout = captured_stdout
        try:
            for name, args in calls:
                if name == "SET-FEATURE":
                    context._push("feature")
                    context.feature = feature
                    continue
                elif name == "SET-RULE":
                    context._push("rule")
                    context.rule = rule
                    continue
                elif name == "SET-SCENARIO":
                    context._push("scenario")
                    context.scenario = scenario
                    continue
                elif name == "UNABORT":
                    runner.aborted = False
                    continue
                try:
                    result = "returned %r" % (
                        runner.run_hook(name, context, *args),)
                except BaseException as e:  # pylint: disable=broad-except
                    result = "raised %s: %s" % (e.__class__.__name__, e)
                log("  run_hook(%s) -> %s; hook_failures=%r aborted=%r" % (
                    name, result, runner.hook_failures, runner.aborted))
                for entity in (feature, rule, scenario, step):
                    log("     %s: hook_failed=%s exc=%s tb=%s error_message=%r" % (
                        entity.__class__.__name__, entity.hook_failed,
                        entity.exception.__class__.__name__,
                        entity.exc_traceback.__class__.__name__,
                        entity.error_message and sanitize(entity.error_message)))
        finally:
            sys.stdout = real_stdout
        for line in LOG:
            print(line)
        del LOG[:]
        print("STDOUT:")
        for line in sanitize(captured_stdout.getvalue()).splitlines():
            print("  | " + line)

    # -- THROUGH THE RUNNER: every hook raising everywhere, verbose or not.
    for hook_name in HOOK_NAMES:
        for exc_class in (RuntimeError, AssertionError, KeyboardInterrupt):
            for mode in ([], ["--verbose"], ["--dry-run"], ["--stop"]):
                run_case("hook %s raises %s everywhere" %
                         (hook_name, exc_class.__name__), [COMPLEX, PASSING],
                         mode, raising={hook_name: raise_on(True, exc_class)},
                         formatters="rec")


def main():
    # -- PART 1: one outcome step at first / last position x run modes.
    modes = [[], ["--stop"], ["--dry-run"], ["--tags=not @wip"]]
    for step_text in OUTCOME_STEPS:
        for position, mode in itertools.product(("first", "last"), modes):
            steps = ["a passing step", "a printing step"]
            if position == "first":
                steps.insert(0, step_text)
            else:
                steps.append(step_text)
            texts = [simple_feature("X", steps),
                     simple_feature("Y", ["a passing step"])]
            run_case("outcome %r %s" % (step_text, position), texts, mode,
                     formatters="rec")
    # -- @wip scenario with pending steps.
    for step_text in ("a pending step", "a pending step without message",
                      "an unknown step"):
        for mode in ([], ["--dry-run"], ["--tags=@wip"], ["--wip"]):
            texts = [simple_feature("W", ["a passing step", step_text,
                                          "a passing step"],
                                    scenario_tags="@wip")]
            run_case("wip %r" % step_text, texts, mode, formatters="rec")

    # -- PART 2: structured feature trees x modes.
    tree_modes = [
        [], ["--stop"], ["--dry-run"], ["--show-skipped"], ["--no-skipped"],
        ["--tags=@r1s2"], ["--tags=@ex2"], ["--tags=@rtag"],
        ["--tags=not @ftag"], ["--tags=@nothing"], ["--tags=@s1 or @r3s1"],
        ["--name=R1"], ["--name=C.O1 t"], ["--name=nomatch"],
        ["--junit", "--junit-directory=/tmp/wtX/C01/_twins/_junit_unused"],
        ["--verbose"],
    ]
    for mode in tree_modes:
        if "--junit" in mode:
            continue    # -- reporters are replaced anyway; avoid file output.
        run_case("tree", [PASSING, COMPLEX, EMPTY, PASSING], mode)
    run_case("all passing", [PASSING, EMPTY], [])
    run_case("all passing", [PASSING, PASSING], ["--stop"])
    run_case("no features", [], [])
    run_case("only empty", [EMPTY], [])
    run_case("interrupt in outline", [PASSING, INTERRUPT, PASSING], [])
    run_case("interrupt in outline", [INTERRUPT, PASSING], ["--stop"])
    run_case("preset undefined steps", [PASSING], [], preset_undefined=2)
    run_case("preset undefined steps + new", [COMPLEX], [], preset_undefined=1)
    run_case("run twice", [PASSING, COMPLEX], [], run_twice=True)
    run_case("no hooks no formatters", [COMPLEX, PASSING], [], use_hooks=False,
             formatters="none")

    # -- PART 3: one raising hook.
    hook_cases = [
        ("before_all", True), ("after_all", True),
        ("before_feature", ["Complex"]), ("after_feature", ["Complex"]),
        ("before_feature", ["AllPass"]), ("after_feature", ["Empty"]),
        ("before_rule", ["R1"]), ("after_rule", ["R1"]),
        ("before_rule", ["R2 empty"]), ("after_rule", ["R3"]),
        ("before_scenario", ["C.S1"]), ("after_scenario", ["C.S1"]),
        ("before_scenario", ["R1.S2"]), ("after_scenario", ["R1.S1"]),
        ("before_scenario", ["C.O1 two -- @1.3 E1"]),
        ("after_scenario", ["C.O1 one -- @1.1 E1"]),
        ("before_step", ["a printing step"]), ("after_step", ["a printing step"]),
        ("before_step", ["an asserting step"]), ("after_step", ["an unknown step"]),
        ("before_tag", ["ftag"]), ("after_tag", ["ftag"]),
        ("before_tag", ["rtag"]), ("after_tag", ["rtag"]),
        ("before_tag", ["s1"]), ("after_tag", ["s1"]),
        ("before_tag", ["outline"]), ("after_tag", ["ex2"]),
    ]
    for hook_name, where in hook_cases:
        for mode in ([], ["--stop"], ["--dry-run"], ["--verbose"]):
            run_case("hook %s raises at %r" % (hook_name, where),
                     [PASSING, COMPLEX, PASSING], mode,
                     raising={hook_name: raise_on(where)})
    run_case("hook before_scenario raises AssertionError", [PASSING], [],
             raising={"before_scenario": raise_on(["P.S1"], AssertionError)})
    run_case("hook before_scenario raises KeyboardInterrupt",
             [PASSING, PASSING], [],
             raising={"before_scenario": raise_on(["P.S1"], KeyboardInterrupt)})
    run_case("hook after_feature raises KeyboardInterrupt",
             [PASSING, COMPLEX], [],
             raising={"after_feature": raise_on(["AllPass"], KeyboardInterrupt)})
    run_case("hook before_all raises KeyboardInterrupt", [PASSING], [],
             raising={"before_all": raise_on(True, KeyboardInterrupt)})
    run_case("two hooks raise on same scenario", [COMPLEX], [],
             raising={"before_scenario": raise_on(["C.S1"]),
                      "after_scenario": raise_on(["C.S1"])})
    run_case("hook raises after failed step", [COMPLEX], [],
             raising={"after_scenario": raise_on(["R1.S1"]),
                      "after_step": raise_on(["an asserting step"])})

    # -- PART 4: hooks that skip / abort / add cleanups.
    def skip_it(context, entity):
        entity.skip("skipped in hook")

    def mark_skipped(context, entity):
        entity.mark_skipped()

    def abort_it(context, *args):
        context.abort()

    def add_bad_cleanup(context, *args):
        def bad_cleanup():
            raise ValueError("hook cleanup failed")
        context.add_cleanup(bad_cleanup)

    def set_continue(context, scenario):
        scenario.continue_after_failed_step = True

    for hook_name in ("before_feature", "before_rule", "before_scenario"):
        run_case("%s skips entity" % hook_name, [COMPLEX, PASSING], [],
                 extra={hook_name: skip_it})
        run_case("%s mark_skipped entity" % hook_name, [COMPLEX, PASSING], [],
                 extra={hook_name: mark_skipped})
    for hook_name in ("before_all", "before_feature", "before_scenario",
                      "after_scenario", "after_step", "after_feature",
                      "after_all"):
        run_case("%s aborts" % hook_name, [PASSING, COMPLEX], [],
                 extra={hook_name: abort_it})
        for flag in (None, False):
            run_case("%s adds bad cleanup fail_on_cleanup_errors=%s" %
                     (hook_name, flag), [PASSING, PASSING], [],
                     extra={hook_name: add_bad_cleanup},
                     fail_on_cleanup_errors=flag)
    run_case("continue_after_failed_step", [COMPLEX], [],
             extra={"before_scenario": set_continue})
    run_case("continue_after_failed_step --stop", [COMPLEX, PASSING], ["--stop"],
             extra={"before_scenario": set_continue})

    twin_specific_cases()

    # -- PART 5: process exit codes.
    run_subprocess_cases()


if __name__ == "__main__":
    main()
