# -*- coding: UTF-8 -*-
"""
Equivalence transcript for property C12 (hooks: nesting, pairing, containment).

Runs ``python -m behave`` (PYTHONPATH=/tmp/wtW/C12) on a generated project
whose environment.py logs every hook call and can raise in the k-th call.
Prints: exit code, normalised behave output, hook log, per-element statuses.
"""
from __future__ import print_function
import io
import json
import os
import re
import shutil
import subprocess
import sys
from concurrent.futures import ThreadPoolExecutor

WORKTREE = "/tmp/wtW/C12"
sys.path.insert(0, WORKTREE)
HERE = os.path.dirname(os.path.abspath(__file__))
WORK = os.path.join(HERE, "_work")
PYTHON = "/venv/bin/python"

ENVIRONMENT_PY = r'''
# -*- coding: UTF-8 -*-
from __future__ import print_function
import io
import json
import os

LOG = os.environ["HOOKLOG"]
INJECT = json.loads(os.environ.get("INJECT", "{}"))
COUNTER = [0]


class CustomError(Exception):
    def __str__(self):
        return "custom<%s>" % (self.args,)


KINDS = {
    "Exception": lambda k: Exception("injected at %d" % k),
    "AssertionError": lambda k: AssertionError("injected assert at %d" % k),
    "EmptyAssertionError": lambda k: AssertionError(),
    "EmptyException": lambda k: Exception(),
    "Unicode": lambda k: ValueError(u"injected \xe4\xf6\xfc at %d" % k),
    "Custom": lambda k: CustomError("a", k),
    "KeyboardInterrupt": lambda k: KeyboardInterrupt("injected kbd at %d" % k),
    "SystemExit": lambda k: SystemExit(7),
}


def _log(name, element=None, tag=None):
    COUNTER[0] += 1
    k = COUNTER[0]
    if element is None:
        what = "-"
    else:
        status = getattr(element, "status", None)
        what = "%s:%s[%s]" % (getattr(element, "type", type(element).__name__),
                              element.name, getattr(status, "name", status))
    with open(LOG, "a") as f:
        f.write("%03d %s %s tag=%s\n" % (k, name, what, tag))
    kind = INJECT.get(str(k))
    if kind:
        raise KINDS[kind](k)


def _current(context):
    for attr in ("scenario", "rule", "feature"):
        element = getattr(context, attr, None)
        if element is not None:
            return element
    return None


def before_all(context):
    _log("before_all")

def after_all(context):
    _log("after_all")

def before_feature(context, feature):
    _log("before_feature", feature)
    if "hook_skips_feature" in feature.tags:
        feature.skip("skipped by before_feature")

def after_feature(context, feature):
    _log("after_feature", feature)

def before_rule(context, rule):
    _log("before_rule", rule)
    if "hook_skips_rule" in rule.tags:
        rule.skip("skipped by before_rule")

def after_rule(context, rule):
    _log("after_rule", rule)

def before_scenario(context, scenario):
    _log("before_scenario", scenario)
    if "hook_skips_scenario" in scenario.tags:
        scenario.skip("skipped by before_scenario")
    if "hook_adds_cleanup" in scenario.tags:
        def bad_cleanup():
            raise RuntimeError("cleanup failed")
        context.add_cleanup(bad_cleanup)

def after_scenario(context, scenario):
    _log("after_scenario", scenario)

def before_step(context, step):
    _log("before_step", step)

def after_step(context, step):
    _log("after_step", step)

def before_tag(context, tag):
    _log("before_tag", _current(context), tag)

def after_tag(context, tag):
    _log("after_tag", _current(context), tag)
'''

STEPS_PY = r'''
# -*- coding: UTF-8 -*-
from __future__ import print_function
import os
from behave import given, when, then, step
from behave.api.pending_step import StepNotImplementedError


@step(u'a passing step')
def step_passes(context):
    print("stdout from passing step")

@step(u'another passing step {number:d}')
def step_passes2(context, number):
    pass

@step(u'a failing step')
def step_fails(context):
    print("stdout from failing step")
    assert False, "boom"

@step(u'a bare assertion step')
def step_bare_assert(context):
    raise AssertionError()

@step(u'an erroring step')
def step_errors(context):
    raise RuntimeError("kaputt")

@step(u'a pending step')
def step_pending(context):
    raise StepNotImplementedError(u"not yet")

@step(u'a bare pending step')
def step_pending_bare(context):
    raise StepNotImplementedError()

@step(u'a step that skips the scenario')
def step_skips(context):
    context.scenario.skip("skipped by step")

@step(u'a step that is interrupted')
def step_interrupted(context):
    if os.environ.get("STEP_INTERRUPT") == "yes":
        raise KeyboardInterrupt()

@step(u'a step with text')
def step_text(context):
    assert context.text is not None
    print("TEXT=%r TABLE=%r" % (context.text, context.table))

@step(u'a step with table')
def step_table(context):
    assert context.table is not None
    print("TEXT=%r ROWS=%d" % (context.text, len(context.table.rows)))

@step(u'nested steps are executed')
def step_nested(context):
    context.execute_steps(u"""
        Given a passing step
        When another passing step 7
    """)

@step(u'nested steps fail')
def step_nested_fail(context):
    context.execute_steps(u"""
        Given a passing step
        When a failing step
    """)
'''

FEATURE_ALPHA = u'''
@fa1 @fa2
Feature: Alpha
  Background:
    Given a passing step

  @s1 @s2
  Scenario: A1 passes
    When another passing step 1
    Then a passing step

  Scenario: A2 fails
    When a failing step
    Then a passing step

  @wip
  Scenario: A3 pending in wip
    When a pending step
    Then a passing step

  @excluded
  Scenario: A4 excluded by tag
    When a passing step

  @o1
  Scenario Outline: A5 outline <n>
    When another passing step <n>
    Then <what>

    @ex1
    Examples: first
      | n | what            |
      | 1 | a passing step  |
      | 2 | a failing step  |

  @r1 @r2
  Rule: AR one
    @rs1
    Scenario: AR1 passes
      When a passing step

    Scenario: AR2 undefined
      When an unknown step
      Then a passing step

  Rule: AR two
    Scenario: AR3 errors
      When an erroring step
'''

FEATURE_BETA = u'''
Feature: Beta
  Scenario: B1 text and table
    Given a step with text
      """
      hello
      """
    And a step with table
      | a | b |
      | 1 | 2 |
    And a passing step

  @hook_skips_scenario
  Scenario: B2 skipped by hook
    Given a passing step

  Scenario: B3 skipped by step
    Given a step that skips the scenario
    Then a failing step

  Scenario: B4 bare errors
    Given a bare assertion step

  Scenario: B5 bare pending
    Given a bare pending step
    Then a pending step

  @hook_adds_cleanup
  Scenario: B6 cleanup fails
    Given a passing step

  Scenario: B7 nested
    Given nested steps are executed
    When nested steps fail
    Then a passing step

  Scenario: B8 interrupted maybe
    Given a step that is interrupted
    Then a passing step

  Scenario: B9 no steps
'''

FEATURE_GAMMA = u'''
@hook_skips_feature
Feature: Gamma skipped by hook
  Scenario: G1
    Given a passing step
'''

FEATURE_DELTA = u'''
@fd
Feature: Delta without scenarios
'''

FEATURE_EPSILON = u'''
@fe
Feature: Epsilon
  @hook_skips_rule @re
  Rule: ER skipped by hook
    Scenario: ER1
      Given a passing step

  @re2
  Rule: ER two
    Background:
      Given another passing step 3

    @es
    Scenario: ER2 passes
      Given a passing step
      And a passing step
'''

FILES = {
    "features/environment.py": ENVIRONMENT_PY,
    "features/steps/steps.py": STEPS_PY,
    "features/alpha.feature": FEATURE_ALPHA,
    "features/beta.feature": FEATURE_BETA,
    "features/gamma.feature": FEATURE_GAMMA,
    "features/delta.feature": FEATURE_DELTA,
    "features/epsilon.feature": FEATURE_EPSILON,
}


def setup_project():
    if os.path.isdir(WORK):
        shutil.rmtree(WORK)
    for relpath, text in FILES.items():
        path = os.path.join(WORK, relpath)
        if not os.path.isdir(os.path.dirname(path)):
            os.makedirs(os.path.dirname(path))
        with open(path, "wb") as f:
            f.write(text.lstrip().encode("utf-8"))


def normalize(text):
    text = re.sub(r"\bline \d+", "line N", text)
    text = re.sub(r"Took \d+m[\d.]+s", "Took T", text)
    text = re.sub(r"\s+\^+\n", "\n", text)      # py3.11+ caret lines
    text = re.sub(r"0x[0-9a-fA-F]+", "0xX", text)
    text = re.sub(r'"duration": [-+.eE\d]+', '"duration": D', text)
    return text


def statuses_from_json(path):
    lines = []
    if not os.path.exists(path):
        return ["<no json report>"]
    with open(path) as f:
        raw = f.read()
    try:
        data = json.loads(raw)
    except ValueError as e:
        return ["<broken json report: %s>" % type(e).__name__,
                normalize(raw)[-300:]]

    def walk(element, indent):
        label = "%s%s %s: %s" % ("  " * indent, element.get("type"),
                                 element.get("name"), element.get("status"))
        lines.append(label)
        for step in element.get("steps", []):
            result = step.get("result", {})
            msg = result.get("error_message")
            if isinstance(msg, list):
                msg = "\n".join(msg)
            lines.append("%s  step %s %s: %s%s" % (
                "  " * indent, step.get("keyword"), step.get("name"),
                result.get("status"),
                (" | " + normalize(msg).replace("\n", "\\n")) if msg else ""))
        for child in element.get("elements", []):
            walk(child, indent + 1)

    for feature in data:
        walk(feature, 0)
    return lines


def run_case(index, title, args, inject=None, extra_env=None):
    log = os.path.join(WORK, "hook_%04d.log" % index)
    report = os.path.join(WORK, "report_%04d.json" % index)
    env = dict(os.environ)
    env.update({
        "PYTHONPATH": WORKTREE,
        "PYTHONDONTWRITEBYTECODE": "1",
        "PYTHONHASHSEED": "0",
        "HOOKLOG": log,
        "INJECT": json.dumps(inject or {}),
        "NO_COLOR": "1",
    })
    env.pop("STEP_INTERRUPT", None)
    env.update(extra_env or {})
    cmd = [PYTHON, "-m", "behave", "--no-color", "-T",
           "-f", "json", "-o", report, "-f", "plain"] + list(args)
    proc = subprocess.Popen(cmd, cwd=WORK, env=env, stdout=subprocess.PIPE,
                            stderr=subprocess.STDOUT)
    output = proc.communicate()[0].decode("utf-8", "replace")
    hook_log = ""
    if os.path.exists(log):
        with open(log) as f:
            hook_log = f.read()
    out = []
    out.append("=" * 78)
    out.append("CASE %04d: %s" % (index, title))
    out.append("ARGS: %s INJECT: %s ENV: %s" % (
        " ".join(args), json.dumps(inject or {}, sort_keys=True),
        json.dumps(extra_env or {}, sort_keys=True)))
    out.append("EXIT: %s" % proc.returncode)
    out.append("--- OUTPUT")
    out.append(normalize(output).rstrip())
    out.append("--- HOOK LOG")
    out.append(hook_log.rstrip())
    out.append("--- STATUSES")
    out.extend(statuses_from_json(report))
    return "\n".join(out), hook_log



# -----------------------------------------------------------------------------
# IN-PROCESS SECTION: ModelRunner.run_model() with scripted feature objects
# -----------------------------------------------------------------------------
def inprocess_run_model():
    import itertools
    from behave.configuration import Configuration
    from behave.runner import ModelRunner
    lines = []

    class Recorder(object):
        def __init__(self, label, log):
            self.label = label
            self.log = log
        def uri(self, name):
            self.log.append("%s.uri(%s)" % (self.label, name))
        def feature(self, feature):
            self.log.append("%s.feature(%s)" % (self.label, feature.name))
        def close(self):
            self.log.append("%s.close()" % self.label)
        def end(self):
            self.log.append("%s.end()" % self.label)

    class FakeFeature(object):
        def __init__(self, name, behaviour, log):
            self.name = name
            self.filename = name + ".feature"
            self.behaviour = behaviour
            self.log = log
        def run(self, runner):
            self.log.append("%s.run() [runner.feature=%s aborted=%s]" % (
                self.name, runner.feature.name, runner.aborted))
            what = self.behaviour
            if what == "kbd":
                raise KeyboardInterrupt()
            if what == "exit":
                raise SystemExit(3)
            if what == "error":
                raise RuntimeError("feature.run exploded")
            if what == "abort":
                runner.abort(reason="feature aborts")
                return True
            if what == "abort-pass":
                runner.abort(reason="feature aborts but passes")
                return False
            if what == "undefined":
                runner.undefined_steps.append(object())
                return False
            if what == "hookfail":
                runner.hook_failures += 1
                return False
            if what == "fail-str":
                return "yes"
            if what == "pass-empty":
                return []
            return what == "fail"

    behaviours = ["pass", "fail", "kbd", "abort", "abort-pass", "undefined",
                  "hookfail", "fail-str", "pass-empty", "error", "exit"]
    scripts = [[]]
    scripts += [[b] for b in behaviours]
    scripts += [list(p) for p in itertools.product(
        ["pass", "fail", "kbd", "abort", "abort-pass"], repeat=2)]
    scripts += [list(p) for p in itertools.product(["pass", "fail", "kbd"], repeat=3)]
    scripts += [["pass", "error", "pass"], ["fail", "exit", "pass"],
                ["pass-empty", "fail-str", "pass"], ["undefined", "pass"],
                ["hookfail", "pass", "pass"]]

    variants = []
    for stop in (False, True):
        for hooks_kind in ("none", "before_all_fails", "after_all_fails",
                           "before_all_aborts"):
            for as_generator in (False, True):
                variants.append((stop, hooks_kind, as_generator))

    for script in scripts:
        for stop, hooks_kind, as_generator in variants:
            log = []
            config = Configuration("", load_config=False)
            config.stop = stop
            config.reporters = [Recorder("reporter1", log), Recorder("reporter2", log)]
            runner = ModelRunner(config)
            runner.formatters = [Recorder("fmt1", log), Recorder("fmt2", log)]
            if hooks_kind == "before_all_fails":
                def before_all(ctx):
                    log.append("hook before_all")
                    raise ValueError("before_all broke")
                runner.hooks["before_all"] = before_all
            elif hooks_kind == "before_all_aborts":
                def before_all(ctx):
                    log.append("hook before_all")
                    ctx.abort(reason="by hook")
                runner.hooks["before_all"] = before_all
            elif hooks_kind == "after_all_fails":
                def after_all(ctx):
                    log.append("hook after_all")
                    raise AssertionError("after_all broke")
                runner.hooks["after_all"] = after_all
            features = [FakeFeature("F%d_%s" % (i, b), b, log)
                        for i, b in enumerate(script)]
            if as_generator:
                def generate(items):
                    for item in items:
                        log.append("NEXT %s" % item.name)
                        yield item
                    log.append("NEXT <exhausted>")
                model = generate(features)
            else:
                model = features
            saved_stdout = sys.stdout
            sys.stdout = captured = io.StringIO() if sys.version_info[0] >= 3 else __import__("StringIO").StringIO()
            try:
                try:
                    outcome = "returned %r" % (runner.run_model(model),)
                except BaseException as e:      # noqa
                    outcome = "raised %s: %s" % (type(e).__name__, e)
            finally:
                sys.stdout = saved_stdout
            lines.append("-" * 60)
            lines.append("run_model script=%s stop=%s hooks=%s generator=%s" % (
                ",".join(script) or "<none>", stop, hooks_kind, as_generator))
            lines.append("  outcome: %s" % outcome)
            lines.append("  aborted=%s hook_failures=%s feature=%s" % (
                runner.aborted, runner.hook_failures,
                getattr(runner.feature, "name", runner.feature)))
            lines.append("  stdout: %r" % normalize(captured.getvalue()))
            for entry in log:
                lines.append("  | " + entry)
    return lines

def main():
    setup_project()
    cases = []

    def add(title, args, inject=None, extra_env=None):
        cases.append((len(cases), title, args, inject, extra_env))

    default_tags = ["--tags=not @excluded"]
    # -- FAULT-FREE RUNS with variations.
    add("fault-free", default_tags)
    text, hook_log = run_case(9999, "probe", default_tags)
    n_hooks = len(hook_log.splitlines())

    add("fault-free no tag selection", [])
    add("fault-free verbose", default_tags + ["--verbose"])
    add("fault-free dry-run", default_tags + ["--dry-run"])
    add("fault-free stop", default_tags + ["--stop"])
    add("fault-free no-skipped", default_tags + ["--no-skipped"])
    add("fault-free only @s1", ["--tags=@s1"])
    add("fault-free only @r1 or @es", ["--tags=@r1 or @es"])
    add("fault-free only @fd", ["--tags=@fd"])
    add("fault-free wip", ["--wip"])
    add("fault-free by name", default_tags + ["--name=A1", "--name=ER2"])
    add("fault-free junit", default_tags + ["--junit",
        "--junit-directory=" + os.path.join(WORK, "junit")])
    add("fault-free no-capture", default_tags + ["--no-capture"])
    add("step KeyboardInterrupt", default_tags, None, {"STEP_INTERRUPT": "yes"})
    add("one feature file", default_tags + ["features/epsilon.feature"])
    add("two feature files reversed", default_tags +
        ["features/epsilon.feature", "features/alpha.feature"])

    # -- EVERY hook invocation as injection point: Exception, AssertionError.
    for k in range(1, n_hooks + 1):
        add("inject Exception at %d" % k, default_tags, {str(k): "Exception"})
        add("inject AssertionError at %d" % k, default_tags,
            {str(k): "AssertionError"})

    # -- OTHER exception kinds, verbose, stop, dry-run at sampled points.
    sample = list(range(1, n_hooks + 1, 7)) + [2, 3, 4, 5, 6, n_hooks - 1, n_hooks]
    sample = sorted(set(k for k in sample if 1 <= k <= n_hooks))
    for k in sample:
        add("inject Exception at %d with --stop" % k, default_tags + ["--stop"],
            {str(k): "Exception"})
        add("inject AssertionError at %d verbose" % k, default_tags + ["--verbose"],
            {str(k): "AssertionError"})
    for k in sample[::2]:
        add("inject EmptyException at %d" % k, default_tags, {str(k): "EmptyException"})
        add("inject EmptyAssertionError at %d verbose" % k,
            default_tags + ["-v"], {str(k): "EmptyAssertionError"})
        add("inject Unicode at %d" % k, default_tags, {str(k): "Unicode"})
        add("inject Custom at %d" % k, default_tags, {str(k): "Custom"})
        add("inject Exception at %d dry-run" % k, default_tags + ["--dry-run"],
            {str(k): "Exception"})
        add("inject Exception at %d, only @s1" % k, ["--tags=@s1"],
            {str(k): "Exception"})
    for k in sample[::3]:
        add("inject KeyboardInterrupt at %d" % k, default_tags,
            {str(k): "KeyboardInterrupt"})
    for k in (1, 2, 5, n_hooks):
        add("inject SystemExit at %d" % k, default_tags, {str(k): "SystemExit"})

    # -- PAIRS of injection points.
    pairs = []
    for i, k1 in enumerate(sample):
        for k2 in sample[i + 1::4]:
            pairs.append((k1, k2))
    for k in range(2, n_hooks, 5):
        pairs.append((k, k + 1))
    for k1, k2 in pairs:
        add("inject pair %d,%d" % (k1, k2), default_tags,
            {str(k1): "Exception", str(k2): "AssertionError"})
    add("inject pair 1,%d" % n_hooks, default_tags,
        {"1": "Exception", str(n_hooks): "Exception"})
    add("inject triple", default_tags + ["--stop"],
        {"3": "AssertionError", "4": "Exception", "9": "Exception"})

    with ThreadPoolExecutor(max_workers=12) as pool:
        results = list(pool.map(lambda c: run_case(*c)[0], cases))
    print("IN-PROCESS: ModelRunner.run_model()")
    for line in inprocess_run_model():
        print(line)
    print("NUMBER OF HOOK CALLS IN FAULT-FREE RUN: %d" % n_hooks)
    print("NUMBER OF CASES: %d" % len(cases))
    for text in results:
        print(text)
    shutil.rmtree(WORK)


if __name__ == "__main__":
    main()
