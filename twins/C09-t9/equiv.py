# -*- coding: UTF-8 -*-
"""
Equivalence transcript for property C09 (tag selection with inheritance).

Runs a set of feature trees (tags on feature / rule / scenario / outline /
examples block / parametrised outline tags) in-process through
behave's ModelRunner with many tag expressions (both dialects), with
show_skipped on/off and dry-run on/off, and prints:

  * the call log of hooks and step functions (in order),
  * the formatter callback log (in order),
  * the effective tags and the final status of every feature, rule,
    scenario outline, scenario and step,
  * should_skip / skip_reason flags of every element,
  * extra unit-level probes of the anchored functions.
"""

from __future__ import absolute_import, print_function
import sys
sys.path.insert(0, "/tmp/wtV/C09")

import io
import logging
import os
import contextlib
import tempfile

os.chdir(tempfile.mkdtemp(prefix="c09_equiv_"))

from behave.configuration import Configuration
from behave.formatter.base import Formatter
from behave.model import (Feature, Rule, Scenario, ScenarioOutline, Examples,
                          ScenarioOutlineBuilder, Row, Table, Tag, Step)
from behave.parser import parse_feature
from behave.runner import ModelRunner
from behave.step_registry import StepRegistry
from behave.tag_expression import make_tag_expression


OUT = []


def emit(text=u""):
    OUT.append(text)


# ---------------------------------------------------------------------------
# FEATURES
# ---------------------------------------------------------------------------
FEATURE_1 = u'''
@f1
Feature: One
  Background:
    Given a background step

  @a
  Scenario: S1 a
    Given a passing step
    When another passing step

  @b
  Scenario: S2 b
    Given a passing step

  Scenario: S3 plain
    Given a passing step

  @o @param_<x> @other_<unknown>
  Scenario Outline: SO1 <x>
    Given a step with <x>
    Then a passing step

    @e1
    Examples: First
      | x  |
      | x1 |
      | x2 |

    @e2 @a
    Examples: Second
      | x  |
      | x3 |

  @r1
  Rule: R1
    Background:
      Given a rule background step

    @a
    Scenario: R1S1 a
      Given a passing step

    Scenario: R1S2 plain
      Given a passing step

    @ro
    Scenario Outline: R1SO <y>
      Given a step with <y>

      Examples:
        | y  |
        | y1 |

      @e3
      Examples: Tagged
        | y  |
        | y2 |

  Rule: R2 untagged
    @c
    Scenario: R2S1 c
      Given a passing step
'''

FEATURE_2 = u'''
Feature: Two

  @wip
  Scenario: T1 wip
    Given a passing step

  @fail
  Scenario: T2 fail
    Given a failing step
    Then a passing step

  @r2 @a
  Rule: Q1
    @c
    Scenario: Q1S1 c
      Given a passing step
      And an undefined step here

    Scenario: Q1S2 plain
      When another passing step

  @r3
  Rule: Q2 empty
'''

FEATURE_3 = u'''
@f3 @a
Feature: Three empty
'''

FEATURE_4 = u'''
@f4
Feature: Four
  @only.<name> @kind:<kind>
  Scenario Outline: FO <name>
    Given a step with <name>

    Examples: Alpha
      | name  | kind |
      | alice | big  |
      | bob   | tiny |

    @skipme
    Examples: Beta
      | name  | kind |
      | carol | big  |

  Scenario Outline: FO2 no examples rows <z>
    Given a step with <z>

    @e9
    Examples: Empty
      | z |

  Scenario: F4S no steps
'''

FEATURES = [
    ("one.feature", FEATURE_1),
    ("two.feature", FEATURE_2),
    ("three.feature", FEATURE_3),
    ("four.feature", FEATURE_4),
]


# ---------------------------------------------------------------------------
# STEPS, HOOKS, FORMATTER
# ---------------------------------------------------------------------------
class Recorder(object):
    def __init__(self):
        self.calls = []

    def log(self, text):
        self.calls.append(text)


class RecorderLogHandler(logging.Handler):
    """Records log records of the "behave" logger (SKIP warnings)."""
    recorder = None

    def emit(self, record):
        if self.recorder is not None:
            self.recorder.log(u"log:%s %s" % (record.levelname,
                                              record.getMessage()))


LOG_HANDLER = RecorderLogHandler()
logging.getLogger("behave").addHandler(LOG_HANDLER)
logging.getLogger("behave").propagate = False


def make_step_registry(rec):
    registry = StepRegistry()

    def step_background(context):
        rec.log(u"step:background tags=%s" % sorted(context.tags))

    def step_rule_background(context):
        rec.log(u"step:rule-background")

    def step_passing(context):
        rec.log(u"step:passing scenario=%s" % context.scenario.name)

    def step_another(context):
        rec.log(u"step:another scenario=%s" % context.scenario.name)

    def step_with(context, value):
        rec.log(u"step:with %s tags=%s" % (value, sorted(context.tags)))

    def step_failing(context):
        rec.log(u"step:failing")
        assert False, "XFAIL"

    registry.add_step_definition("given", u"a background step", step_background)
    registry.add_step_definition("given", u"a rule background step", step_rule_background)
    registry.add_step_definition("step", u"a passing step", step_passing)
    registry.add_step_definition("step", u"another passing step", step_another)
    registry.add_step_definition("step", u"a step with {value}", step_with)
    registry.add_step_definition("step", u"a failing step", step_failing)
    return registry


def make_hooks(rec, variant):
    def named(prefix):
        def hook(context, entity):
            rec.log(u"hook:%s %s" % (prefix, getattr(entity, "name", entity)))
        return hook

    def hook_all(prefix):
        def hook(context):
            rec.log(u"hook:%s" % prefix)
        return hook

    hooks = {
        "before_all": hook_all("before_all"),
        "after_all": hook_all("after_all"),
    }
    for kind in ("feature", "rule", "scenario", "step", "tag"):
        hooks["before_%s" % kind] = named("before_%s" % kind)
        hooks["after_%s" % kind] = named("after_%s" % kind)

    if variant == "skip_in_hooks":
        # -- HOOKS: Exclude elements by name via skip()/mark_skipped().
        def before_scenario(context, scenario):
            rec.log(u"hook:before_scenario %s" % scenario.name)
            if "S2" in scenario.name:
                scenario.skip(u"S2 excluded by hook")
            elif "x2" in scenario.name:
                scenario.mark_skipped()

        def before_rule(context, rule):
            rec.log(u"hook:before_rule %s" % rule.name)
            if rule.name == "R1":
                rule.skip(u"rule excluded by hook")

        def before_feature(context, feature):
            rec.log(u"hook:before_feature %s" % feature.name)
            if feature.name == "Four":
                feature.mark_skipped()

        hooks["before_scenario"] = before_scenario
        hooks["before_rule"] = before_rule
        hooks["before_feature"] = before_feature
    return hooks


class RecordingFormatter(Formatter):
    name = "recording"

    def __init__(self, rec):
        self.rec = rec

    def uri(self, uri):
        self.rec.log(u"fmt:uri %s" % uri)

    def feature(self, feature):
        self.rec.log(u"fmt:feature %s" % feature.name)

    def rule(self, rule):
        self.rec.log(u"fmt:rule %s" % rule.name)

    def background(self, background):
        self.rec.log(u"fmt:background %s" % background.name)

    def scenario(self, scenario):
        self.rec.log(u"fmt:scenario %s" % scenario.name)

    def step(self, step):
        self.rec.log(u"fmt:step %s" % step.name)

    def match(self, match):
        self.rec.log(u"fmt:match %s" % match.__class__.__name__)

    def result(self, step):
        self.rec.log(u"fmt:result %s %s" % (step.name, step.status.name))

    def eof(self):
        self.rec.log(u"fmt:eof")

    def rule_finished(self):
        self.rec.log(u"fmt:rule_finished")

    def close(self):
        self.rec.log(u"fmt:close")


# ---------------------------------------------------------------------------
# MODEL DUMP
# ---------------------------------------------------------------------------
def describe_entity(entity, indent):
    prefix = u"  " * indent
    parts = [u"%s%s %r" % (prefix, entity.__class__.__name__, entity.name)]
    parts.append(u"tags=%s" % [u"%s" % t for t in entity.tags])
    if hasattr(entity, "effective_tags"):
        etags = entity.effective_tags
        parts.append(u"etags(%s)=%s" % (type(etags).__name__, sorted(etags)))
    if hasattr(entity, "status"):
        parts.append(u"status=%s" % entity.status.name)
    if hasattr(entity, "should_skip"):
        parts.append(u"skip=%r/%r" % (entity.should_skip, entity.skip_reason))
    if hasattr(entity, "hook_failed"):
        parts.append(u"hook_failed=%r" % entity.hook_failed)
    if isinstance(entity, Scenario) and not isinstance(entity, ScenarioOutline):
        parts.append(u"dry=%r" % entity.was_dry_run)
        parts.append(u"parent=%s" % entity.parent.__class__.__name__)
        parts.append(u"line=%s" % entity.line)
    return u" ".join(parts)


def dump_scenario(scenario, indent):
    emit(describe_entity(scenario, indent))
    for step in scenario.all_steps:
        emit(u"%s%s %s -> %s" % (u"  " * (indent + 1), step.keyword,
                                 step.name, step.status.name))


def dump_container(container, indent=0):
    emit(describe_entity(container, indent))
    for run_item in container.run_items:
        if isinstance(run_item, Rule):
            dump_container(run_item, indent + 1)
        elif isinstance(run_item, ScenarioOutline):
            emit(describe_entity(run_item, indent + 1))
            for example in run_item.examples:
                emit(u"%sExamples %r tags=%s index=%r" % (
                    u"  " * (indent + 2), example.name,
                    [u"%s" % t for t in example.tags], example.index))
            for scenario in run_item._scenarios:
                dump_scenario(scenario, indent + 2)
        else:
            dump_scenario(run_item, indent + 1)


# ---------------------------------------------------------------------------
# RUN ONE CONFIGURATION
# ---------------------------------------------------------------------------
def run_case(title, args, hook_variant="plain", feature_names=None,
             dump_model=True):
    emit(u"=" * 70)
    emit(u"CASE: %s args=%r hooks=%s" % (title, args, hook_variant))
    rec = Recorder()
    LOG_HANDLER.recorder = rec
    captured_stdout = io.StringIO()
    try:
        with contextlib.redirect_stdout(captured_stdout):
            config = Configuration(command_args=list(args), load_config=False)
            config.reporters = []
            features = []
            for filename, text in FEATURES:
                if feature_names and filename not in feature_names:
                    continue
                features.append(parse_feature(text, filename=filename))
            runner = ModelRunner(config, features,
                                 step_registry=make_step_registry(rec))
            runner.hooks = make_hooks(rec, hook_variant)
            runner.formatters = [RecordingFormatter(rec)]
            failed = runner.run()
    except BaseException as e:  # pylint: disable=broad-except
        emit(u"EXCEPTION: %s: %s" % (e.__class__.__name__, e))
        for line in rec.calls:
            emit(u"  | " + line)
        return
    emit(u"tag_expression=%s  failed=%r  undefined=%s" % (
        config.tag_expression, failed,
        [s.name for s in runner.undefined_steps]))
    emit(u"-- calls:")
    for line in rec.calls:
        emit(u"  | " + line)
    text = captured_stdout.getvalue()
    if text.strip():
        emit(u"-- stdout:")
        for line in text.splitlines():
            emit(u"  > " + line)
    if dump_model:
        emit(u"-- model:")
        for feature in features:
            dump_container(feature)


TAG_ARGS = [
    ("no-tags", []),
    ("a", ["--tags=@a"]),
    ("not a", ["--tags=not @a"]),
    ("f1", ["--tags=@f1"]),
    ("not f1", ["--tags=not @f1"]),
    ("r1", ["--tags=@r1"]),
    ("not r1", ["--tags=not @r1"]),
    ("e1", ["--tags=@e1"]),
    ("not e1", ["--tags=not @e1"]),
    ("o and not e2", ["--tags=@o and not @e2"]),
    ("param_x1", ["--tags=@param_x1"]),
    ("param_*", ["--tags=@param_*"]),
    ("not param_*", ["--tags=not @param_*"]),
    ("other_*", ["--tags=@other_*"]),
    ("a or c", ["--tags=@a or @c"]),
    ("c and not a", ["--tags=@c and not @a"]),
    ("e3 or ro", ["--tags=@e3 or @ro"]),
    ("r3", ["--tags=@r3"]),
    ("f3", ["--tags=@f3"]),
    ("fail", ["--tags=@fail"]),
    ("only.*", ["--tags=@only.*"]),
    ("only.alice or kind:tiny", ["--tags=@only.alice or @kind:tiny"]),
    ("f4 and not skipme", ["--tags=@f4 and not @skipme"]),
    ("e9", ["--tags=@e9"]),
    ("nomatch", ["--tags=@nothing_has_this"]),
    # -- TAG-EXPRESSION V1 DIALECT:
    ("v1: -a", ["--tags=-@a"]),
    ("v1: ~a", ["--tags=~@a"]),
    ("v1: a,c", ["--tags=@a,@c"]),
    ("v1: a AND -e2", ["--tags=@a", "--tags=-@e2"]),
    ("v1: r1,r2 AND ~c", ["--tags=r1,r2", "--tags=~c"]),
    ("v1: -f1 AND -wip", ["--tags=-f1", "--tags=-wip"]),
    # -- MIXED: two --tags options in v2 are AND-ed.
    ("v2: f1 AND (b or e1)", ["--tags=@f1", "--tags=@b or @e1"]),
]

MODES = [
    ("run", []),
    ("run+show-skipped", ["--show-skipped"]),
    ("run+no-skipped", ["--no-skipped"]),
    ("dry", ["--dry-run"]),
    ("dry+no-skipped", ["--dry-run", "--no-skipped"]),
]


def probe_units():
    """Direct probes of the anchored functions."""
    emit(u"=" * 70)
    emit(u"UNIT PROBES")
    feature = parse_feature(FEATURE_1, filename="one.feature")
    feature4 = parse_feature(FEATURE_4, filename="four.feature")
    expressions = [u"@a", u"not @a", u"@e1", u"not @e1", u"@r1 and @e3",
                   u"@param_x3", u"@param_*", u"not @f1", u"@only.bob",
                   u"@kind:big and not @skipme", u"@e9", u"not @e9"]
    for text in expressions:
        tag_expression = make_tag_expression(text)
        emit(u"-- expression: %s" % text)
        for the_feature in (feature, feature4):
            emit(u"  feature %s: %r" % (
                the_feature.name, the_feature.should_run_with_tags(tag_expression)))
            for item in the_feature.walk_scenarios(with_outlines=True,
                                                   with_rules=True):
                emit(u"    %s %r: with_tags=%r" % (
                    item.__class__.__name__, item.name,
                    item.should_run_with_tags(tag_expression)))

    # -- EFFECTIVE TAGS: result is a fresh set each time (mutation-safe).
    scenario = feature.scenarios[0]
    tags1 = scenario.effective_tags
    tags1.add(u"zzz")
    emit(u"fresh-set: %r %r" % (sorted(scenario.effective_tags),
                                scenario.effective_tags is tags1))
    outline = [x for x in feature.run_items if isinstance(x, ScenarioOutline)][0]
    tags2 = outline.effective_tags
    tags2.add(u"zzz")
    emit(u"fresh-set(outline): %r" % sorted(outline.effective_tags))
    emit(u"own tags untouched: %r %r" % (scenario.tags, outline.tags))

    # -- DETACHED ELEMENTS: parent=None
    lonely = Scenario(u"x.feature", 1, u"Scenario", u"Lonely", tags=[u"t1", u"t1", u"t2"])
    emit(u"lonely: %r" % sorted(lonely.effective_tags))
    lonely_outline = ScenarioOutline(u"x.feature", 1, u"Scenario Outline",
                                     u"LO", tags=[u"t<a>", u"t3", u"<", u">"])
    emit(u"lonely outline: %r" % sorted(lonely_outline.effective_tags))
    no_tags = Scenario(u"x.feature", 1, u"Scenario", u"NoTags")
    emit(u"no tags: %r %r" % (no_tags.effective_tags, no_tags.tags))
    # -- TAGS AS TUPLE / GENERATOR-LIKE
    tuple_tags = Scenario(u"x.feature", 1, u"Scenario", u"TupleTags", tags=(u"q", u"p"))
    tuple_tags.parent = lonely
    emit(u"tuple tags: %r" % sorted(tuple_tags.effective_tags))

    # -- should_run(): flags and config variants
    class FakeExpr(object):
        def __init__(self, answer):
            self.answer = answer
            self.seen = []

        def check(self, tags):
            self.seen.append(sorted(tags))
            return self.answer

    class FakeConfig(object):
        def __init__(self, answer, name=None):
            import re
            self.tag_expression = FakeExpr(answer)
            self.name = name
            self.name_re = name and re.compile(u"|".join(name))

    for answer in (True, False, 1, 0, None, u"yes"):
        for name in (None, [u"S1"], [u"nomatch"]):
            for skipped in (False, True):
                the_feature = parse_feature(FEATURE_1, filename="one.feature")
                the_scenario = the_feature.scenarios[0]
                the_outline = [x for x in the_feature.run_items
                               if isinstance(x, ScenarioOutline)][0]
                if skipped:
                    the_scenario.should_skip = True
                    the_feature.should_skip = True
                    the_outline.should_skip = True
                config = FakeConfig(answer, name)
                r1 = the_scenario.should_run(config)
                r2 = the_feature.should_run(config)
                r3 = the_outline.should_run(config)
                emit(u"should_run answer=%r name=%r skipped=%r -> scenario=%s feature=%r outline=%s checks=%d" % (
                    answer, name, skipped,
                    r1 if not hasattr(r1, "group") else "MATCH:%s" % r1.group(0),
                    r2,
                    r3 if not hasattr(r3, "group") else "MATCH:%s" % r3.group(0),
                    len(config.tag_expression.seen)))
                emit(u"   no-config: %r %r %r" % (the_scenario.should_run(),
                                                  the_feature.should_run(),
                                                  the_outline.should_run(None)))

    # -- ScenarioOutlineBuilder.make_row_tags()
    builder = ScenarioOutlineBuilder
    table = Table([u"x", u"y"], rows=[[u"1", u"a b"], [u"<y>", u"<x>"]])
    for row in table.rows:
        for outline_tags in ([], None, (), [u"plain"], [u"t_<x>", u"<y>", u"<z>", u"k"],
                             (u"p.<row.id>", u"<x><y>"), [Tag(u"tag<x>", 3)]):
            for params in (None, {}, {"row.id": u"1.1", "z": u"Z"}):
                try:
                    result = builder.make_row_tags(outline_tags, row, params)
                    emit(u"make_row_tags(%r, %r, %r) -> %s %r" % (
                        outline_tags, row.cells, params,
                        type(result).__name__, result))
                except Exception as e:  # pylint: disable=broad-except
                    emit(u"make_row_tags(%r, %r, %r) raised %s: %s" % (
                        outline_tags, row.cells, params, e.__class__.__name__, e))

    # -- make_scenario_for(): row tags = rendered outline tags + examples tags
    the_feature = parse_feature(FEATURE_4, filename="four.feature")
    the_outline = the_feature.run_items[0]
    for scenario in the_outline.scenarios:
        emit(u"row scenario %r tags=%r(%s) parent=%r feature=%r bg=%r row=%r steps=%r" % (
            scenario.name, scenario.tags, type(scenario.tags).__name__,
            scenario.parent.name, scenario.feature.name, scenario.background,
            scenario._row.cells, [s.name for s in scenario.steps]))
    for example in the_outline.examples:
        emit(u"examples %r tags=%r" % (example.name, example.tags))
    # -- ROW-TAGS LIST IS INDEPENDENT OF examples.tags
    first = the_outline.scenarios[-1]
    first.tags.append(u"extra")
    emit(u"after append: examples tags=%r outline tags=%r" % (
        the_outline.examples[-1].tags, the_outline.tags))


def main():
    for mode_name, mode_args in MODES:
        for title, tag_args in TAG_ARGS:
            run_case(u"%s [%s]" % (title, mode_name), tag_args + mode_args)
    # -- HOOKS THAT EXCLUDE ELEMENTS
    for title, tag_args in TAG_ARGS[:6]:
        run_case(u"%s [skip_in_hooks]" % title, tag_args,
                 hook_variant="skip_in_hooks")
        run_case(u"%s [skip_in_hooks,show-skipped]" % title,
                 tag_args + ["--show-skipped"], hook_variant="skip_in_hooks")
    # -- NAME SELECT + TAGS, STOP
    run_case(u"name select", ["--name=S1", "--tags=@a"])
    run_case(u"name select outline", ["--name=x2", "--tags=not @b"])
    run_case(u"stop", ["--stop", "--tags=not @wip"])
    probe_units()

    text = u"\n".join(OUT) + u"\n"
    if sys.version_info[0] < 3:
        text = text.encode("utf-8")
    sys.stdout.write(text)


if __name__ == "__main__":
    main()
