# -*- coding: UTF-8 -*-
"""Equivalence transcript for parser refactorings (property C05).

Feeds a deterministic corpus of valid documents, single-line mutations,
catalogued fault injections and pseudo-random line soups through every
parser entry point and prints what was observed: a dump of the returned
model or the exception type, message, line, line_text and filename.
"""
from __future__ import print_function
import sys
sys.path.insert(0, "/tmp/wtW/C05")

import io
import logging
import random

from behave import parser as P
from behave import i18n
from behave import model

FOCUS = "background"

# -- CAPTURE: "Malformed table row" warnings are part of observable behaviour.
LOG_STREAM = io.StringIO()
_handler = logging.StreamHandler(LOG_STREAM)
_handler.setFormatter(logging.Formatter("%(levelname)s:%(name)s:%(message)s"))
_logger = logging.getLogger("behave")
_logger.addHandler(_handler)
_logger.setLevel(logging.DEBUG)
_logger.propagate = False


def take_log():
    value = LOG_STREAM.getvalue()
    LOG_STREAM.seek(0)
    LOG_STREAM.truncate(0)
    return value


# ---------------------------------------------------------------------------
# MODEL DUMP
# ---------------------------------------------------------------------------
def dump_tags(tags):
    return [(u"%s" % t, getattr(t, "line", None)) for t in tags]


def dump_table(table):
    if table is None:
        return None
    return (list(table.headings), table.line,
            [(list(row.cells), row.line) for row in table.rows])


def dump_step(step):
    text = step.text
    if text is not None:
        text = (u"%s" % text, text.content_type, text.line)
    return ("step", step.keyword, step.step_type, step.name, step.line,
            step.filename, text, dump_table(step.table))


def dump_background(bg):
    if bg is None:
        return None
    inherited = bg.inherited_background
    return ("background", bg.keyword, bg.name, bg.line, list(bg.description),
            [dump_step(s) for s in bg.steps],
            None if inherited is None else (inherited.name, inherited.line))


def dump_examples(ex):
    return ("examples", ex.keyword, ex.name, ex.line, dump_tags(ex.tags),
            dump_table(ex.table))


def dump_scenario(sc):
    if sc is None:
        return None
    out = [type(sc).__name__, sc.keyword, sc.name, sc.line, sc.filename,
           dump_tags(sc.tags), list(sc.description),
           [dump_step(s) for s in sc.steps],
           None if sc.background is None else sc.background.line]
    if isinstance(sc, model.ScenarioOutline):
        out.append([dump_examples(e) for e in sc.examples])
    return tuple(out)


def dump_rule(rule):
    if rule is None:
        return None
    if not isinstance(rule, model.Rule):
        return ("NOT-A-RULE", dump_any(rule))
    return ("rule", rule.keyword, rule.name, rule.line, dump_tags(rule.tags),
            list(rule.description), dump_background(rule.background),
            [dump_scenario(s) for s in rule.scenarios])


def dump_feature(feature):
    if feature is None:
        return None
    p = feature.parser
    return ("feature", feature.keyword, feature.name, feature.line,
            feature.filename, feature.language, dump_tags(feature.tags),
            list(feature.description), dump_background(feature.background),
            [dump_scenario(s) for s in feature.scenarios],
            [dump_rule(r) for r in feature.rules],
            ("parser", p.state.name, p.line, p.language, p.variant,
             dump_tags(p.tags), p.last_step_type, list(p.lines),
             p.table is None, p.examples is None))


def dump_any(obj):
    if obj is None:
        return None
    if isinstance(obj, model.Feature):
        return dump_feature(obj)
    if isinstance(obj, model.Rule):
        return dump_rule(obj)
    if isinstance(obj, model.Scenario):
        return dump_scenario(obj)
    if isinstance(obj, model.Background):
        return dump_background(obj)
    if isinstance(obj, model.Step):
        return dump_step(obj)
    if isinstance(obj, list):
        return [dump_any(x) for x in obj]
    if isinstance(obj, model.Tag):
        return (u"%s" % obj, obj.line)
    return repr(obj)


# ---------------------------------------------------------------------------
# OBSERVATION
# ---------------------------------------------------------------------------
ENTRY_POINTS = [
    ("feature", lambda t, lang, fn: P.parse_feature(t, lang, fn)),
    ("rule", lambda t, lang, fn: P.parse_rule(t, lang, fn)),
    ("scenario", lambda t, lang, fn: P.parse_scenario(t, lang, fn)),
    ("steps", lambda t, lang, fn: P.parse_steps(t, lang, fn)),
    ("step", lambda t, lang, fn: P.parse_step(t, lang, fn)),
    ("tags", lambda t, lang, fn: P.parse_tags(t)),
]

COUNTER = [0]


def observe(label, text, language=None, filename=None, entries=None):
    for name, func in ENTRY_POINTS:
        if entries is not None and name not in entries:
            continue
        COUNTER[0] += 1
        try:
            result = func(text, language, filename)
            outcome = ("OK", dump_any(result))
        except P.ParserError as e:
            outcome = ("ParserError", e.args, e.line, e.line_text, e.filename,
                       u"%s" % e)
        except Exception as e:  # pylint: disable=broad-except
            outcome = ("INTERNAL", type(e).__name__, u"%s" % (e,))
        log = take_log()
        print(u"%s | %s | lang=%s | %r" % (label, name, language, outcome))
        if log:
            print(u"    LOG: %r" % log)


# ---------------------------------------------------------------------------
# CORPUS
# ---------------------------------------------------------------------------
VALID_DOCS = {}
VALID_DOCS["plain"] = u"""\
@f1 @f2
Feature: Alpha
  Feature description line 1
  Feature description line 2

  Background: Common
    Given a background step
    And another background step

  @s1
  Scenario: One
    Scenario description
    Given a step
      | a | b |
      | 1 | 2 |
      | 3 | 4 |
    When something happens:
      \"\"\"
      doc line 1
        doc line 2
      \"\"\"
    Then a result
    But not that
    * generic step

  @o1 @o2  # comment after tags
  Scenario Outline: Two <x>
    Given a <x>
    When b <y>
    Then c

    @e1
    Examples: First
      | x | y |
      | 1 | 2 |

    Examples: Second
      | x | y |
      | 5 | 6 |
      | 7 | 8 |
"""
VALID_DOCS["rules"] = u"""\
# language: en
Feature: With rules
  Background:
    Given feature background

  Scenario: Before rules
    And inherits type from background

  @r1
  Rule: First rule
    Rule description

    Background: Rule background
      When rule background step

    Example: In rule
      But continues

    Scenario Template: Tpl <n>
      Given <n>
      Examples:
        | n |
        | 1 |

  Rule: Second rule
    Scenario: Plain
      * star first
      Given x
      * star second
"""
VALID_DOCS["german"] = u"""\
# language: de
@de
Funktionalit\u00e4t: Deutsch
  Beschreibung

  Grundlage:
    Angenommen ein Schritt

  Szenario: Eins
    Wenn etwas passiert
    Dann ein Ergebnis
    Und noch eins
    Aber nicht das

  Szenariogrundriss: Zwei <a>
    Gegeben sei <a>
    Beispiele:
      | a |
      | 1 |
"""
VALID_DOCS["french"] = u"""\
# language: fr
Fonctionnalit\u00e9: Fran\u00e7ais
  Contexte:
    Soit un pas
  Sc\u00e9nario: Un
    Quand je fais
    Alors je vois
    Et encore
"""
VALID_DOCS["tables"] = u"""\
Feature: Tables
  Scenario: Escapes
    Given a table
      | a\\|b | c |
      | 1    |   |
      || x |
    Given single quotes
      '''
      text | with pipe
      # not a comment
      @not-a-tag
      '''
    When table at end
      | h1 |
      | v1 |"""
VALID_DOCS["minimal"] = u"Feature: Only title\n"
VALID_DOCS["background_empty"] = u"""\
Feature: F
  Background:
  Rule: R1
    Background: B
      Given in rule
    Scenario: S
      And after background
  Rule: R2
    Scenario: S2
      And no background at all
"""

FAULT_LINES = [
    u"Feature: Second feature",
    u"Rule: Misplaced rule",
    u"Background: Misplaced background",
    u"@tagged",
    u"@tagged\nBackground: Tagged background",
    u"Examples: Orphan",
    u"  And orphan and",
    u"  But orphan but",
    u"  | too | many | cells | here |",
    u"  | one |",
    u"  |",
    u"  | unterminated",
    u"@good bad-token",
    u"@good # comment @ignored",
    u"@a @b@c @",
    u"some free text",
    u'  """',
    u"  '''",
    u"# language: xx-unknown",
    u"# language: de",
    u"Scenario: Extra scenario",
    u"Scenario Outline: Extra outline",
    u"  * star step",
    u"GIVEN uppercase step",
    u"given lowercase step",
    u"Funktionalit\u00e4t: Deutsch",
    u"Szenario: Deutsch",
]

SOUP_POOL = [
    u"Feature: F", u"Rule: R", u"Background: B", u"Scenario: S",
    u"Scenario Outline: SO", u"Scenario Template: ST", u"Example: E",
    u"Examples: EX", u"Scenarios: SX",
    u"  Given g", u"  When w", u"  Then t", u"  And a", u"  But b", u"  * s",
    u"  given lower", u"  AND UPPER", u"Givenmissing space",
    u"@t1", u"@t1 @t2 # c", u"@t1 oops", u"  @indented",
    u"  | a | b |", u"  | 1 | 2 |", u"  | 1 |", u"  | x \\| y | z |", u"|", u"||",
    u"  | no end",
    u'  """', u"  '''", u'"""', u"      text in doc", u"x", u"",
    u"   ", u"# comment", u"  # language: de", u"# language: fr",
    u"# language: zz", u"#language:en-pirate",
    u"Funktionalit\u00e4t: DE", u"Szenario: DE", u"  Angenommen de",
    u"  Und de", u"Grundlage: DE", u"Beispiele: DE", u"Regel: DE",
    u"Fonctionnalit\u00e9: FR", u"  Soit fr", u"  Et fr",
    u"free text line", u"Feature without colon", u"Feature:", u":",
]


def mutations(text):
    lines = text.splitlines()
    n = len(lines)
    for i in range(n):
        yield "del%d" % i, lines[:i] + lines[i + 1:]
        yield "dup%d" % i, lines[:i + 1] + lines[i:]
        if i + 1 < n:
            yield "swap%d" % i, lines[:i] + [lines[i + 1], lines[i]] + lines[i + 2:]
        yield "trunc%d" % i, lines[:i]


def main():
    # -- 1. VALID DOCUMENTS through all entry points, w/ and w/o filename.
    for name in sorted(VALID_DOCS):
        text = VALID_DOCS[name]
        observe("valid:%s" % name, text, None, None)
        observe("valid+fn:%s" % name, text, None, u"some/%s.feature" % name,
                entries=("feature", "steps"))
        observe("valid+de:%s" % name, text, "de", None,
                entries=("feature", "scenario", "steps"))

    # -- 2. FAULT INJECTION at every position.
    for name in ("plain", "rules", "german", "background_empty"):
        lines = VALID_DOCS[name].splitlines()
        for pos in range(len(lines) + 1):
            for k, fault in enumerate(FAULT_LINES):
                mutated = lines[:pos] + fault.splitlines() + lines[pos:]
                observe("fault:%s:%d:%d" % (name, pos, k), u"\n".join(mutated),
                        None, u"f.feature", entries=("feature",))

    # -- 3. SINGLE-LINE MUTATIONS of valid documents.
    for name in sorted(VALID_DOCS):
        for label, lines in mutations(VALID_DOCS[name]):
            observe("mut:%s:%s" % (name, label), u"\n".join(lines), None, None,
                    entries=("feature",))

    # -- 4. SUB-DOCUMENTS for the rule/scenario/steps/tags entry points.
    fragments = [
        u"Rule: R\n  Background:\n    Given b\n  Scenario: S\n    And a\n",
        u"Rule: R\n  description\n  @t\n  Scenario: S\n    Given a\n    | x |\n    | 1 |\n",
        u"@t\nRule: R\n",
        u"description only\n",
        u"Background: B\n  Given x\n",
        u"Background: B\n  Given x\nBackground: B2\n  Given y\n",
        u"Scenario: S\n  Given a\n  When b\n",
        u"@x @y\nScenario Outline: SO\n  Given <a>\n  Examples:\n    | a |\n    | 1 |\n",
        u"Scenario: S\n  And orphan\n",
        u"Examples: E\n  | a |\n",
        u"Given a\nWhen b\nThen c\nAnd d\nBut e\n* f\n",
        u"Given a\n",
        u"And orphan\n",
        u"* star only\n",
        u"| table | first |\n",
        u'"""\ntext\n"""\n',
        u'Given a\n  """\n  text\n bad indent\n  """\n',
        u'Given a\n  """\n  unterminated\n',
        u"Given a\n  | a | b |\n  | 1 |\n",
        u"Given a\n  | a | b |\n  | 1 | 2 |\nWhen b:\n  | c |\n",
        u"Given a\nFeature: F\n",
        u"Given a\nnonsense\n",
        u"Given a\n@tag\n",
        u"Given a\n@tag\nnonsense\n",
        u"Given a\nScenario: Next\n  Given b\n",
        u"@a @b\n@c # comment\n",
        u"@a b\n",
        u"@a\n\n@b #x y z\n",
        u"# only comment\n",
        u"#c @a\n",
        u"@\n",
        u"@a@b\n",
        u"  @lead   @trail  \n",
        u"\n\n",
        u"",
        u"   ",
    ]
    for k, text in enumerate(fragments):
        observe("frag:%d" % k, text, None, None)
        observe("frag+fn:%d" % k, text, None, u"x.feature",
                entries=("rule", "scenario", "steps", "tags"))
        observe("frag+fr:%d" % k, text, "fr", None,
                entries=("rule", "scenario", "steps"))

    # -- 5. EVERY LANGUAGE: first/last alias of each keyword.
    for lang in sorted(i18n.languages):
        kw = i18n.languages[lang]
        for idx in (0, -1):
            doc = [u"# language: %s" % lang,
                   u"%s: F" % kw["feature"][idx],
                   u"  %s: B" % kw["background"][idx],
                   u"    %sg" % kw["given"][idx],
                   u"  %s: R" % kw["rule"][idx],
                   u"  %s: S" % kw["scenario"][idx],
                   u"    %sa" % kw["and"][idx],
                   u"    %sw" % kw["when"][idx],
                   u"    %st" % kw["then"][idx],
                   u"    %sb" % kw["but"][idx],
                   u"  %s: SO" % kw["scenario_outline"][idx],
                   u"    %sg <x>" % kw["given"][idx],
                   u"    %s: E" % kw["examples"][idx],
                   u"      | x |",
                   u"      | 1 |"]
            observe("lang:%s:%d" % (lang, idx), u"\n".join(doc), None, None,
                    entries=("feature",))
            steps = [u"%sa" % kw["and"][idx], u"%sg" % kw["given"][idx],
                     u"%sb" % kw["but"][idx].lower(),
                     u"%sw" % kw["when"][idx].upper()]
            observe("langsteps:%s:%d" % (lang, idx), u"\n".join(steps[1:]), lang,
                    None, entries=("steps",))
            observe("langorphan:%s:%d" % (lang, idx), steps[0], lang, None,
                    entries=("steps", "scenario"))
    observe("lang:unknown", u"Feature: F\n", "no-such-language", None)

    # -- 6. RANDOM LINE SOUPS (deterministic seed).
    rng = random.Random(20260927)
    for k in range(1500):
        n = rng.randint(1, 12)
        text = u"\n".join(rng.choice(SOUP_POOL) for _ in range(n))
        lang = rng.choice([None, None, None, "de", "fr"])
        fn = rng.choice([None, u"soup.feature"])
        observe("soup:%d" % k, text, lang, fn)

    focus_section()
    print("TOTAL OBSERVATIONS: %d" % COUNTER[0])


# ---------------------------------------------------------------------------
# FOCUS SECTION (specific to the refactored function)
# ---------------------------------------------------------------------------
def focus_section():
    print("FOCUS: %s" % FOCUS)
    if FOCUS == "taggable":
        # -- DIRECT: subaction_detect_taggable_statement() in each state.
        lines = [u"@t1 @t2", u"Rule: R", u"Scenario: S", u"Example: E",
                 u"Scenario Outline: SO", u"Scenario Template: ST",
                 u"Examples: EX", u"Scenarios: SX", u"Feature: F",
                 u"Background: B", u"Given x", u"text", u"", u"@t bad",
                 u"Rule", u"Rule:", u"Scenario:x", u"Regel: DE"]
        for variant in ("feature", "rule", "scenario", "steps"):
            for prefix in (u"", u"Feature: F\n", u"Feature: F\nScenario Outline: O\n"):
                for line in lines:
                    p = P.Parser(variant=variant)
                    p.reset()
                    try:
                        for pline in prefix.splitlines():
                            p.line += 1
                            p.action(pline)
                        p.line += 1
                        result = p.subaction_detect_taggable_statement(line)
                        outcome = ("OK", result)
                    except P.ParserError as e:
                        outcome = ("ParserError", e.args, e.line, e.line_text)
                    print("taggable | %s | %r | %r | %r | %s | %r | %r | %s" % (
                        variant, prefix, line, outcome, p.state.name,
                        dump_tags(p.tags), dump_any(p.statement), p.language))
        # -- Parser without language: match_keyword() sets default lazily.
        for line in lines:
            p = P.Parser()
            before = (p.language, p.keywords is None)
            try:
                outcome = ("OK", p.subaction_detect_taggable_statement(line))
            except P.ParserError as e:
                outcome = ("ParserError", e.args, e.line, e.line_text)
            print("taggable-nolang | %r | %r | %r | %r | %s" % (
                line, before, outcome, (p.language, p.keywords is None),
                p.state.name))
    elif FOCUS == "tags":
        cases = [u"", u" ", u"@a", u"@a @b", u"@a\t@b", u"@a\n@b", u"@a #c @d",
                 u"#c", u"# c d e", u"@a b", u"b @a", u"@a # b\n@c", u"@", u"@@",
                 u"@a@b", u"@a #", u"@a#b", u"@a\n\nnot-a-tag", u"@a # c\nbad",
                 u"@\u00e4\u00f6 @\u4e2d\u6587", u"@a.b:c=d", u"@a  \r\n @b",
                 u"@a # x\n# y\n@b", u"x", u"#x y", u"@a @a @a"]
        for case in cases:
            for filename in (None, u"t.feature"):
                for start_line in (0, 7):
                    p = P.Parser(variant="tags")
                    p.filename = filename
                    p.line = start_line
                    try:
                        tags = p.parse_tags(case)
                        outcome = ("OK", dump_any(tags), type(tags).__name__,
                                   [type(t).__name__ for t in tags])
                    except P.ParserError as e:
                        outcome = ("ParserError", e.args, e.line, e.line_text,
                                   e.filename, u"%s" % e)
                    print("tags | %r | %r | %d | %r" % (
                        case, filename, start_line, outcome))
            try:
                outcome = ("OK", dump_any(P.parse_tags(case)))
            except P.ParserError as e:
                outcome = ("ParserError", e.args, e.line, e.filename)
            print("parse_tags | %r | %r" % (case, outcome))
    elif FOCUS == "background":
        docs = [
            u"Background: B\n",
            u"@t\nBackground: B\n",
            u"Feature: F\nBackground: B\n",
            u"Feature: F\n@t\nBackground: B\n",
            u"Feature: F\n@t1 @t2\nBackground: B\n  Given x\n",
            u"Feature: F\nBackground: B1\nBackground: B2\n",
            u"Feature: F\nBackground: B1\n  Given x\nBackground: B2\n",
            u"Feature: F\nBackground: B1\n  desc\nBackground: B2\n  Given y\nBackground: B3\n",
            u"Feature: F\nBackground: B1\n  Given x\nRule: R\nBackground: RB\n  Given y\n",
            u"Feature: F\nBackground: B1\n  Given x\nRule: R\nBackground: RB\n  Given y\nBackground: RB2\n",
            u"Feature: F\nBackground: B1\n  Given x\nRule: R\n  Scenario: S\n  Given z\nBackground: Late\n",
            u"Feature: F\nRule: R\nBackground: RB\nBackground: RB2\n  Given y\nBackground: RB3\n",
            u"Feature: F\nBackground: B1\n  Given x\nRule: R\nBackground: RB\nRule: R2\nBackground: RB2\n  When q\n  Scenario: S\n    And r\n",
            u"Feature: F\nScenario: S\n  Given x\nBackground: Late\n",
            u"Feature: F\n@t\nScenario: S\n  Given x\n@u\nBackground: Late\n",
            u"Background:\n  Given x\n",
            u"Rule: R\nBackground: B\n",
        ]
        for k, text in enumerate(docs):
            for lang in (None, "en"):
                observe("bg:%d" % k, text, lang, u"bg.feature",
                        entries=("feature", "rule", "scenario", "steps"))
        # -- DIRECT: _build_background_statement() on hand-made parser states.
        for tags in ([], [u"a"], [u"a", u"b"]):
            for container in ("none", "feature", "feature+bg", "feature+bgsteps",
                              "rule", "rule+defaultbg", "rule+bgsteps"):
                p = P.Parser()
                p.reset(u"d.feature")
                p.line = 5
                p.tags = [model.Tag(t, 4) for t in tags]
                feature = model.Feature(u"d.feature", 1, u"Feature", u"F")
                target = None
                if container.startswith("feature"):
                    target = feature
                elif container.startswith("rule"):
                    target = model.Rule(u"d.feature", 2, u"Rule", u"R")
                    if container == "rule+defaultbg":
                        fbg = model.Background(u"d.feature", 2, u"Background", u"FB")
                        fbg.steps.append(model.Step(u"d.feature", 3, u"Given", "given", u"q"))
                        feature.add_background(fbg)
                    feature.add_rule(target)
                if container.endswith("+bg") or container.endswith("+bgsteps"):
                    bg = model.Background(u"d.feature", 2, u"Background", u"Old")
                    if container.endswith("+bgsteps"):
                        bg.steps.append(model.Step(u"d.feature", 3, u"Given", "given", u"x"))
                    target.add_background(bg)
                p.feature = feature
                p.scenario_container = target
                try:
                    p._build_background_statement(u"Background", u"Background:  New  ")
                    outcome = ("OK", dump_any(p.statement),
                               None if target is None else dump_background(target.background),
                               None if target is None else target.background is p.statement,
                               p.statement.parent is target)
                except P.ParserError as e:
                    outcome = ("ParserError", e.args, e.line, e.line_text,
                               e.filename, u"%s" % e)
                print("build_bg | %r | %s | %r | tags=%r" % (
                    tags, container, outcome, dump_tags(p.tags)))
    elif FOCUS == "step":
        lines = [u"Given a", u"given a", u"GIVEN a", u"Givena", u"Given", u"Given ",
                 u"When w", u"Then t", u"And a", u"and a", u"But b", u"BUT b",
                 u"* s", u"*s", u"*", u"* ", u"x", u"", u"Giv", u"Andy was here",
                 u"Then: colon", u"When x:", u"Angenommen de", u"Und de", u"Soit fr",
                 u"Et fr", u"\u5047\u5982x", u"\u90a3\u4e48y", u"\u800c\u4e14z",
                 u"\u0130 dotted", u"Scenario: S", u"| a |", u"@tag"]
        for lang in ("en", "de", "fr", "zh-CN", "ja", "tr", "en-pirate", "en-lol"):
            for last in (None, "given", "when", "then"):
                for container in ("none", "bgsteps", "bgempty", "inherited"):
                    for line in lines:
                        p = P.Parser(lang)
                        p.reset(u"s.feature")
                        p.line = 3
                        p.last_step_type = last
                        if container != "none":
                            feature = model.Feature(u"s.feature", 1, u"Feature", u"F")
                            bg = model.Background(u"s.feature", 2, u"Background", u"")
                            if container == "bgsteps":
                                bg.steps.append(model.Step(u"s.feature", 2, u"When", "when", u"q"))
                            feature.add_background(bg)
                            p.scenario_container = feature
                            if container == "inherited":
                                bg.steps.append(model.Step(u"s.feature", 2, u"Then", "then", u"q"))
                                rule = model.Rule(u"s.feature", 3, u"Rule", u"R")
                                feature.add_rule(rule)
                                p.scenario_container = rule
                        try:
                            step = p.parse_step(line)
                            outcome = ("OK", dump_any(step))
                        except P.ParserError as e:
                            outcome = ("ParserError", e.args, e.line, e.line_text,
                                       e.filename, u"%s" % e)
                        except Exception as e:  # pylint: disable=broad-except
                            outcome = ("INTERNAL", type(e).__name__, u"%s" % (e,))
                        print("parse_step | %s | %s | %s | %r | %r | last=%r" % (
                            lang, last, container, line, outcome, p.last_step_type))
        # -- Parser without keywords (never reset): same failure mode.
        p = P.Parser()
        try:
            outcome = ("OK", dump_any(p.parse_step(u"Given a")))
        except Exception as e:  # pylint: disable=broad-except
            outcome = ("EXC", type(e).__name__, u"%s" % (e,))
        print("parse_step-nokeywords | %r" % (outcome,))


if __name__ == "__main__":
    main()
