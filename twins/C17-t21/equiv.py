# -*- coding: utf-8 -*-
# Shared part of the equiv.py scripts (copied verbatim into each of them).
from __future__ import print_function
import io, os, re, shutil, subprocess, sys, tempfile
WORKTREE = "/tmp/wtX/C17"
sys.path.insert(0, WORKTREE)

ALPHA = u'''\
Feature: Alpha

  Scenario: A1 passes
    Given a step passes

  Scenario: A2 fails
    Given a step passes
    When a step fails
    Then a step passes

  Scenario: A3 errors
    Given a step raises an error

  Scenario: A4 undefined
    Given a step that does not exist

  @skip
  Scenario: A5 skipped
    Given a step fails

  Scenario Outline: A6 outline <outcome>
    Given a step <outcome>

    Examples: first
      | outcome |
      | passes  |
      | fails   |

    Examples: second
      | outcome         |
      | raises an error |
      | passes          |

  Scenario: A7 passes again
    Given a step passes
'''

BETA = u'''\
Feature: Beta (all good)

  Scenario: B1 passes
    Given a step passes

  Scenario: B2 passes
    Given a step passes
'''

GAMMA = u'''\
Feature: Gamma with rules

  Scenario: G1 errors first
    Given a step raises an error

  Rule: R1
    Scenario: G2 passes
      Given a step passes

    @hook_error
    Scenario: G3 hook error
      Given a step passes

    Scenario Outline: G4 <outcome>
      Given a step <outcome>

      Examples:
        | outcome |
        | fails   |
        | passes  |

  Rule: R2
    Scenario: G5 fails
      Given a step fails

    @skip
    Scenario: G6 skipped
      Given a step passes
'''

DELTA = u'''\
Feature: Delta skipped only
  @skip
  Scenario: D1 skipped
    Given a step fails
'''

STEPS = u'''\
from behave import given, when, then, step

@step(u'a step passes')
def step_passes(ctx):
    pass

@step(u'a step fails')
def step_fails(ctx):
    assert False, "XFAIL-STEP"

@step(u'a step raises an error')
def step_errors(ctx):
    raise RuntimeError("XERROR-STEP")
'''

ENVIRONMENT = u'''\
def before_scenario(ctx, scenario):
    if "skip" in scenario.tags:
        scenario.skip("SKIPPED-BY-HOOK")
    if "hook_error" in scenario.tags:
        raise RuntimeError("XHOOK-ERROR")
'''

def write_file(path, text):
    dirname = os.path.dirname(path)
    if dirname and not os.path.isdir(dirname):
        os.makedirs(dirname)
    with io.open(path, "w", encoding="utf-8") as f:
        f.write(text)

def make_project(workdir):
    write_file(os.path.join(workdir, "features/alpha.feature"), ALPHA)
    write_file(os.path.join(workdir, "features/beta.feature"), BETA)
    write_file(os.path.join(workdir, "features/sub/gamma.feature"), GAMMA)
    write_file(os.path.join(workdir, "features/sub/delta.feature"), DELTA)
    write_file(os.path.join(workdir, "features/steps/steps.py"), STEPS)
    write_file(os.path.join(workdir, "features/environment.py"), ENVIRONMENT)
    write_file(os.path.join(workdir, "behave.ini"),
               u"[behave]\nshow_timings = false\ncolor = false\nshow_skipped = true\n")

def normalize(text, workdir):
    text = text.replace(os.path.realpath(workdir), "<WORKDIR>")
    text = text.replace(workdir, "<WORKDIR>")
    text = re.sub(r"\b\d+m?\d*\.\d+s\b", "<T>s", text)
    text = re.sub(r'File "[^"]*", line \d+', 'File "<F>", line <N>', text)
    return text

def run_behave(args, workdir):
    env = dict(os.environ)
    env["PYTHONPATH"] = WORKTREE
    env["PYTHONDONTWRITEBYTECODE"] = "1"
    env.pop("COLUMNS", None)
    proc = subprocess.Popen([sys.executable, "-m", "behave"] + list(args),
                            cwd=workdir, env=env, stdout=subprocess.PIPE,
                            stderr=subprocess.STDOUT)
    output = proc.communicate()[0].decode("utf-8", "replace")
    print("$ behave %s" % " ".join(args))
    print("exit-code: %d" % proc.returncode)
    print(normalize(output, workdir))
    print("$ --end")

def show_file(path, workdir):
    relname = os.path.relpath(path, workdir)
    if not os.path.exists(path):
        print("FILE %s: <missing>" % relname)
        return
    if os.path.isdir(path):
        print("FILE %s: <directory>" % relname)
        return
    with io.open(path, encoding="utf-8") as f:
        print("FILE %s:" % relname)
        for line in f.read().splitlines(True):
            print("  | %r" % normalize(line, workdir))

def describe_exception(e):
    return "%s: %s" % (e.__class__.__name__, e)

def show_selection(paths, workdir, strict=True):
    """Closed loop: paths -> collect_feature_locations -> parse_features."""
    from behave.runner_util import collect_feature_locations, parse_features
    print("SELECT %r strict=%r" % (paths, strict))
    try:
        locations = collect_feature_locations(paths, strict=strict)
    except Exception as e:  # noqa
        print("  collect raised %s" % normalize(describe_exception(e), workdir))
        return
    for location in locations:
        print("  location: %s" % normalize(repr(location), workdir))
    try:
        features = parse_features(locations)
    except Exception as e:  # noqa
        print("  parse raised %s" % normalize(describe_exception(e), workdir))
        return
    for feature in features:
        print("  feature: %s should_run=%s" % (normalize(str(feature.location), workdir),
                                              feature.should_run()))
        for scenario in feature.walk_scenarios():
            print("    %-32s %-10s should_run=%s" % (
                normalize(str(scenario.location), workdir), scenario.status.name,
                scenario.should_run()))

def end_to_end(workdir):
    rerun = os.path.join(workdir, "rerun.txt")
    print("=== E2E 1: first run over all features")
    run_behave(["-f", "rerun", "-o", "rerun.txt", "-f", "plain", "features"], workdir)
    show_file(rerun, workdir)
    print("=== E2E 2: selection from rerun file (in-process)")
    show_selection(["@rerun.txt"], workdir)
    print("=== E2E 3: second run from rerun file, writes rerun2.txt")
    run_behave(["-f", "rerun", "-o", "rerun2.txt", "-f", "plain", "@rerun.txt"], workdir)
    show_file(os.path.join(workdir, "rerun2.txt"), workdir)
    print("=== E2E 4: all-passing run removes the stale rerun file")
    shutil.copy(rerun, os.path.join(workdir, "stale.txt"))
    run_behave(["-f", "rerun", "-o", "stale.txt", "-f", "plain", "features/beta.feature"], workdir)
    show_file(os.path.join(workdir, "stale.txt"), workdir)
    print("=== E2E 5: all-passing run without previous file")
    run_behave(["-f", "rerun", "-o", "none.txt", "features/beta.feature",
                "features/sub/delta.feature"], workdir)
    show_file(os.path.join(workdir, "none.txt"), workdir)
    print("=== E2E 6: only feature with error first, in subdir outfile")
    run_behave(["-f", "rerun", "-o", "out/dir/rerun3.txt", "features/sub/gamma.feature"], workdir)
    show_file(os.path.join(workdir, "out/dir/rerun3.txt"), workdir)
    show_selection(["@out/dir/rerun3.txt"], workdir)
    print("=== E2E 7: rerun formatter with descriptions on stdout")
    run_behave(["-f", "rerun", "-D", "x=1", "features/alpha.feature:7", "features/sub/gamma.feature:3"], workdir)

def main(specific):
    workdir = tempfile.mkdtemp(prefix="c17twin_")
    olddir = os.getcwd()
    try:
        make_project(workdir)
        os.chdir(workdir)
        specific(workdir)
        end_to_end(workdir)
    finally:
        os.chdir(olddir)
        shutil.rmtree(workdir, ignore_errors=True)

# ---------------------------------------------------------------------------
# SPECIFIC PART: RerunFormatter driven in-process with model doubles.
# ---------------------------------------------------------------------------
class RecordingStream(object):
    """Text stream double that records each write call."""
    def __init__(self, log, name):
        self.log = log
        self.name = name
        self.closed = False
    def write(self, text):
        self.log.append("%s.write(%r)" % (self.name, text))
    def flush(self):
        self.log.append("%s.flush()" % self.name)
    def close(self):
        self.closed = True
        self.log.append("%s.close()" % self.name)

class FakeScenario(object):
    def __init__(self, filename, line, name, status):
        from behave.model_core import FileLocation
        self.location = FileLocation(filename, line)
        self.filename = filename
        self.line = line
        self.name = name
        self.status = status

class FakeFeature(object):
    def __init__(self, filename, status, scenarios, log=None, explode_after=None):
        self.filename = filename
        self.status = status
        self.scenarios = scenarios
        self.log = log
        self.explode_after = explode_after
    def walk_scenarios(self, with_outlines=False, with_rules=False):
        if self.log is not None:
            self.log.append("walk_scenarios(%s)" % self.filename)
        if self.explode_after is None:
            return list(self.scenarios)
        return self._exploding()
    def _exploding(self):
        for index, scenario in enumerate(self.scenarios):
            if index == self.explode_after:
                raise ValueError("walk exploded at %d" % index)
            yield scenario

class FalsyFeature(FakeFeature):
    def __bool__(self):
        return False
    __nonzero__ = __bool__

def make_formatter(cls, log, filename=None, with_stream=False):
    from behave.formatter.base import StreamOpener
    from behave.configuration import Configuration
    config = Configuration(command_args=[], load_config=False)
    stream = None
    if with_stream:
        stream = RecordingStream(log, "stream")
    opener = StreamOpener(filename=filename, stream=stream)
    if with_stream:
        # -- KEEP the recording double (no encoder wrapper in between).
        opener.stream = stream
    return cls(opener, config)

def describe_formatter(formatter):
    return "failed=%r current_feature=%r" % (
        [str(s.location) for s in formatter.failed_scenarios],
        getattr(formatter.current_feature, "filename", formatter.current_feature))

def specific(workdir):
    from behave.formatter import rerun as rerun_module
    from behave.formatter.rerun import RerunFormatter
    from behave.formatter._registry import select_formatter_class
    from behave.model_core import Status
    import datetime as _datetime

    print("=== T21.0: registry")
    print(select_formatter_class("rerun") is RerunFormatter,
          RerunFormatter.name, RerunFormatter.description)

    class FixedDatetime(_datetime.datetime):
        @classmethod
        def now(cls, tz=None):
            return cls(2020, 2, 3, 4, 5, 6, 789)
    rerun_module.datetime = FixedDatetime

    class VerboseRerunFormatter(RerunFormatter):
        show_timestamp = True
        show_failed_scenarios_descriptions = True

    all_statuses = list(Status)
    print("=== T21.1: eof() for each feature status x each scenario status")
    for feature_status in all_statuses:
        log = []
        formatter = make_formatter(RerunFormatter, log, with_stream=True)
        scenarios = [FakeScenario("f/%s.feature" % feature_status.name, 10 + i, "S %s" % st.name, st)
                     for i, st in enumerate(all_statuses)]
        feature = FakeFeature("f/%s.feature" % feature_status.name, feature_status, scenarios, log)
        formatter.feature(feature)
        formatter.eof()
        print("feature.status=%-18s -> %s log=%r" % (feature_status.name,
                                                      describe_formatter(formatter), log))

    print("=== T21.2: eof() without feature, twice, falsy feature, exploding walk")
    log = []
    formatter = make_formatter(RerunFormatter, log, with_stream=True)
    formatter.eof()
    print(describe_formatter(formatter))
    feature = FakeFeature("f/one.feature", Status.failed, [
        FakeScenario("f/one.feature", 3, "s3", Status.passed),
        FakeScenario("f/one.feature", 5, "s5", Status.failed),
        FakeScenario("f/one.feature", 9, "s9", Status.error)], log)
    formatter.feature(feature)
    print(describe_formatter(formatter))
    formatter.eof()
    formatter.eof()
    print(describe_formatter(formatter), log)
    falsy = FalsyFeature("f/falsy.feature", Status.failed, [
        FakeScenario("f/falsy.feature", 2, "s2", Status.failed)], log)
    formatter.feature(falsy)
    formatter.eof()
    print(describe_formatter(formatter), log)
    exploding = FakeFeature("f/boom.feature", Status.error, [
        FakeScenario("f/boom.feature", 2, "b2", Status.hook_error),
        FakeScenario("f/boom.feature", 4, "b4", Status.passed),
        FakeScenario("f/boom.feature", 6, "b6", Status.undefined),
        FakeScenario("f/boom.feature", 8, "b8", Status.failed)], log, explode_after=3)
    formatter.feature(exploding)
    try:
        formatter.eof()
        print("no exception")
    except Exception as e:  # noqa
        print("eof raised %s" % describe_exception(e))
    print(describe_formatter(formatter), log)
    formatter.reset()
    print("after reset:", describe_formatter(formatter))

    print("=== T21.3: close() with pre-opened recording stream")
    for cls in (RerunFormatter, VerboseRerunFormatter):
        for variant in ("none", "one", "many"):
            log = []
            formatter = make_formatter(cls, log, with_stream=True)
            features = []
            if variant in ("one", "many"):
                features.append(FakeFeature("a/one.feature", Status.failed, [
                    FakeScenario("a/one.feature", 5, u"Sc\xe9nario five", Status.failed)]))
            if variant == "many":
                features.append(FakeFeature("a/two.feature", Status.passed, [
                    FakeScenario("a/two.feature", 5, "ignored", Status.failed)]))
                features.append(FakeFeature(os.path.join(workdir, "a/three.feature"), Status.error, [
                    FakeScenario(os.path.join(workdir, "a/three.feature"), 7, "t7", Status.error),
                    FakeScenario(os.path.join(workdir, "a/three.feature"), 12, "t12", Status.skipped),
                    FakeScenario(os.path.join(workdir, "a/three.feature"), 1234567, "t-big", Status.pending)]))
                features.append(FakeFeature("a/one.feature", Status.hook_error, [
                    FakeScenario("a/one.feature", 50, "again", Status.cleanup_error)]))
            for feature in features:
                formatter.feature(feature)
                formatter.eof()
            try:
                formatter.close()
                outcome = "closed"
            except Exception as e:  # noqa
                outcome = "close raised %s" % describe_exception(e)
            print("%s/%s: %s" % (cls.__name__, variant, outcome))
            for entry in log:
                print("   ", normalize(entry, workdir))
            print("    formatter.stream is None:", formatter.stream is None)

    print("=== T21.4: close() with file names")
    def run_close(filename, failing, precreate):
        if precreate and filename:
            write_file(filename, u"OLD CONTENTS\n")
        log = []
        formatter = make_formatter(RerunFormatter, log, filename=filename)
        status = Status.failed if failing else Status.passed
        formatter.feature(FakeFeature("x/y.feature", status, [
            FakeScenario("x/y.feature", 3, "y3", status),
            FakeScenario("x/y.feature", 8, "y8", Status.passed)]))
        formatter.eof()
        try:
            formatter.close()
            outcome = "closed"
        except Exception as e:  # noqa
            outcome = "close raised %s" % normalize(describe_exception(e), workdir)
        print("close(filename=%r failing=%r precreate=%r): %s" % (filename, failing, precreate, outcome))
        if filename:
            show_file(os.path.join(workdir, filename), workdir)
    for failing in (True, False):
        for precreate in (True, False):
            run_close("t21/rerun_%s_%s.txt" % (failing, precreate), failing, precreate)
    run_close("", False, False)
    run_close(None, False, False)
    run_close(None, True, False)
    os.makedirs("t21/a_directory")
    run_close("t21/a_directory", False, False)
    print("directory still exists:", os.path.isdir("t21/a_directory"))

    print("=== T21.5: real model objects, feature with outline and rule")
    from behave.parser import parse_feature
    feature = parse_feature(GAMMA, filename="features/sub/gamma.feature")
    wanted = {3: Status.error, 7: Status.passed, 11: Status.hook_error, 19: Status.failed,
              20: Status.passed, 23: Status.failed, 27: Status.skipped}
    for scenario in feature.walk_scenarios():
        scenario.set_status(wanted[scenario.line])
    feature.set_status(Status.error)
    log = []
    formatter = make_formatter(VerboseRerunFormatter, log, with_stream=True)
    formatter.feature(feature)
    formatter.eof()
    formatter.close()
    for entry in log:
        print("   ", normalize(entry, workdir))


if __name__ == "__main__":
    main(specific)
