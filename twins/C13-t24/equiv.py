# -*- coding: UTF-8 -*-
"""Equivalence transcript for C13-t24 (context layer pop + cleanup errors in
ScenarioContainer.run / Scenario.run -> element status and verdict)."""
from __future__ import print_function
import sys
import io
import os
import re
import shutil
import subprocess
import tempfile

WORKTREE = "/tmp/wtX/C13"
sys.path.insert(0, WORKTREE)

FEATURE_1 = u'''
@fixture.good
Feature: F1 cleanups at every level

  Scenario: S1 all fine
    Given a cleanup "s1.a" is registered
    And a cleanup "s1.b" is registered
    Then attribute "scenario_attr" is set to "s1"

  Scenario: S2 scenario cleanup raises
    Given a cleanup "s2.a" is registered
    And a failing cleanup "s2.bad" is registered
    And a cleanup "s2.c" is registered
    Then attribute "scenario_attr" is missing

  @fixture.bad_teardown
  Scenario: S3 fixture teardown raises
    Given a cleanup "s3.a" is registered

  Scenario: S4 step fails and cleanup raises
    Given a failing cleanup "s4.bad" is registered
    When a step fails
    Then a cleanup "s4.never" is registered

  @fixture.bad_setup
  Scenario: S5 fixture setup raises
    Given a cleanup "s5.never" is registered

  Scenario Outline: S6 outline <name>
    Given a <kind> "s6.<name>" is registered

    Examples:
      | name | kind            |
      | ok   | cleanup         |
      | bad  | failing cleanup |

  Rule: R1 rule cleanup raises
    Scenario: S7 registers at rule level
      Given a failing cleanup "r1.bad" is registered at "rule"
      And a cleanup "r1.ok" is registered at "rule"

    Scenario: S8 sees a clean scenario scope
      Then attribute "scenario_attr" is missing

  Rule: R2 all fine
    Scenario: S9
      Given a cleanup "r2.ok" is registered at "rule"
'''

FEATURE_2 = u'''
Feature: F2 feature cleanup raises
  Scenario: S10 registers at feature level
    Given a failing cleanup "f2.bad1" is registered at "feature"
    And a failing cleanup "f2.bad2" is registered at "feature"
    And a cleanup "f2.ok" is registered at "feature"
'''

FEATURE_3 = u'''
Feature: F3 all fine, testrun cleanup raises later
  Scenario: S11
    Given a failing cleanup "testrun.bad" is registered at "testrun"
    And a cleanup "s11.ok" is registered

  @skip_me
  Scenario: S12 skipped by hook
    Given a failing cleanup "s12.never" is registered
'''

FEATURE_4 = u'''
@hook_error
Feature: F4 before_feature hook raises after registering a cleanup
  Scenario: S13
    Given a cleanup "s13.never" is registered
'''

STEPS = u'''# -*- coding: UTF-8 -*-
from __future__ import print_function
from behave import given, when, then, step


def note(name):
    print("CLEANUP-CALLED %s" % name)


def bad(name):
    print("CLEANUP-CALLED %s" % name)
    raise RuntimeError("CLEANUP-BAD %s" % name)


@step(u'a cleanup "{name}" is registered')
def step_cleanup(context, name):
    context.add_cleanup(note, name)


@step(u'a failing cleanup "{name}" is registered')
def step_bad_cleanup(context, name):
    context.add_cleanup(bad, name)


@step(u'a cleanup "{name}" is registered at "{layer}"')
def step_cleanup_at(context, name, layer):
    context.add_cleanup(note, name, layer=layer)


@step(u'a failing cleanup "{name}" is registered at "{layer}"')
def step_bad_cleanup_at(context, name, layer):
    context.add_cleanup(bad, name, layer=layer)


@when(u'a step fails')
def step_fails(context):
    assert False, "XFAIL"


@then(u'attribute "{name}" is set to "{value}"')
def step_set_attr(context, name, value):
    assert name not in context
    setattr(context, name, value)


@then(u'attribute "{name}" is missing')
def step_attr_missing(context, name):
    assert name not in context, "%s=%r" % (name, getattr(context, name))
'''

ENVIRONMENT = u'''# -*- coding: UTF-8 -*-
from __future__ import print_function
from behave import fixture, use_fixture
from behave.runner import Context


def note(name):
    print("CLEANUP-CALLED %s" % name)


@fixture
def good(context):
    print("FIXTURE-SETUP good")
    yield "good"
    print("FIXTURE-CLEANUP good")


@fixture
def bad_teardown(context):
    print("FIXTURE-SETUP bad_teardown")
    yield "bad_teardown"
    print("FIXTURE-CLEANUP bad_teardown")
    raise ValueError("TEARDOWN-BAD")


@fixture
def bad_setup(context):
    print("FIXTURE-SETUP bad_setup")
    raise ValueError("SETUP-BAD")
    yield "never"


def my_cleanup_error_handler(context, cleanup_func, exception):
    print("MY-HANDLER %s: %s" % (exception.__class__.__name__, exception))


def describe(context):
    layers = [frame.get("@layer") for frame in context._stack]
    return "depth=%d layers=%r cleanup_errors=%r failed=%r" % (
        len(context._stack), layers, context.cleanup_errors, context.failed)


def before_all(context):
    variant = context.config.userdata.get("variant", "default")
    print("VARIANT %s" % variant)
    if variant == "handler":
        context.on_cleanup_error = my_cleanup_error_handler
    elif variant == "ignore":
        context.on_cleanup_error = Context.ignore_cleanup_error
    elif variant == "nofail":
        context.fail_on_cleanup_errors = False
    context.add_cleanup(note, "before_all")


def before_tag(context, tag):
    if tag == "fixture.good":
        use_fixture(good, context)
    elif tag == "fixture.bad_teardown":
        use_fixture(bad_teardown, context)
    elif tag == "fixture.bad_setup":
        use_fixture(bad_setup, context)
    elif tag == "hook_error":
        context.add_cleanup(note, "before_tag hook_error")


def before_feature(context, feature):
    print("BEFORE_FEATURE %s: %s" % (feature.name, describe(context)))
    if "hook_error" in feature.tags:
        raise RuntimeError("HOOK-BAD")


def before_scenario(context, scenario):
    if "skip_me" in scenario.tags:
        scenario.skip("by hook")


def after_scenario(context, scenario):
    print("AFTER_SCENARIO %s: status=%s %s" % (scenario.name,
          scenario.status.name, describe(context)))


def after_rule(context, rule):
    print("AFTER_RULE %s: status=%s %s" % (rule.name, rule.status.name,
                                           describe(context)))


def after_feature(context, feature):
    print("AFTER_FEATURE %s: status=%s %s" % (feature.name,
          feature.status.name, describe(context)))
    for scenario in feature.walk_scenarios():
        print("  SCENARIO %s: %s" % (scenario.name, scenario.status.name))


def after_all(context):
    print("AFTER_ALL %s" % describe(context))
'''


def normalize(output, workdir):
    output = output.replace(workdir, "<WORKDIR>")
    output = re.sub(r"Took \d+m[\d.]+s", "Took <T>", output)
    output = re.sub(r'"duration": [\d.e+-]+', '"duration": <T>', output)
    output = re.sub(r'line \d+, in', 'line <N>, in', output)
    output = re.sub(r"0x[0-9a-fA-F]+", "0x<ADDR>", output)
    return output


def main():
    workdir = tempfile.mkdtemp(prefix="c13t24_")
    try:
        os.makedirs(os.path.join(workdir, "features", "steps"))
        for name, content in (("f1.feature", FEATURE_1),
                              ("f2.feature", FEATURE_2),
                              ("f3.feature", FEATURE_3),
                              ("f4.feature", FEATURE_4),
                              ("steps/steps.py", STEPS),
                              ("environment.py", ENVIRONMENT)):
            with io.open(os.path.join(workdir, "features", name), "w",
                         encoding="utf-8") as f:
                f.write(content)
        env = dict(os.environ)
        env["PYTHONPATH"] = WORKTREE
        env["PYTHONDONTWRITEBYTECODE"] = "1"
        env["PYTHONIOENCODING"] = "utf-8"
        variants = [
            ["-f", "plain", "--no-capture"],
            ["-f", "plain", "--no-capture", "-D", "variant=handler"],
            ["-f", "plain", "--no-capture", "-D", "variant=ignore"],
            ["-f", "plain", "--no-capture", "-D", "variant=nofail"],
            ["-f", "json.pretty", "--no-capture", "-D", "variant=ignore"],
            ["-f", "plain", "--capture", "-D", "variant=handler"],
            ["-f", "plain", "--no-capture", "--stop", "-D", "variant=handler"],
            ["-f", "plain", "--no-capture", "--dry-run"],
            ["-f", "plain", "--no-capture", "--show-skipped",
             "--tags=not @fixture.good", "-D", "variant=handler"],
            ["-f", "progress3", "--no-capture", "-D", "variant=ignore",
             "--junit", "--junit-directory", "reports"],
        ]
        for options in variants:
            command = [sys.executable, "-m", "behave", "--no-timings",
                       "--no-color"] + options + ["features"]
            proc = subprocess.Popen(command, cwd=workdir, env=env,
                                    stdout=subprocess.PIPE,
                                    stderr=subprocess.STDOUT)
            output = proc.communicate()[0].decode("utf-8")
            print("== behave %s -> returncode=%s" % (" ".join(options),
                                                    proc.returncode))
            print(normalize(output, workdir))
        reports = os.path.join(workdir, "reports")
        for name in sorted(os.listdir(reports)):
            with io.open(os.path.join(reports, name), encoding="utf-8") as f:
                content = f.read()
            content = re.sub(r'time="[^"]*"', 'time="<T>"', content)
            content = re.sub(r'timestamp="[^"]+"', 'timestamp="<TS>"', content)
            content = re.sub(r'hostname="[^"]+"', 'hostname="<H>"', content)
            print("== junit report %s" % name)
            print(normalize(content, workdir))
    finally:
        shutil.rmtree(workdir, ignore_errors=True)


if __name__ == "__main__":
    main()
