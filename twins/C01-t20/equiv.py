# -*- coding: UTF-8 -*-
"""
Equivalence transcript for property C01 (run verdict).

Sends REAL parsed features through the REAL ModelRunner (no mocks) with
a recording formatter, a recording reporter and recording hooks, and prints a
canonical transcript: verdict of run(), statuses of all model elements,
the ordered call log (hooks / formatter / reporter calls), error messages
(line numbers in tracebacks are canonicalised), undefined steps, hook_failures,
aborted flag, captured stdout and, at the end, exit codes of `python -m behave`.
"""
from __future__ import print_function
import sys
sys.path.insert(0, "/tmp/wtW/C01")
import os
import re
import io
import shutil
import subprocess
import tempfile
os.chdir("/tmp/wtW/C01")

from behave.configuration import Configuration
from behave.parser import parse_feature
from behave.runner import ModelRunner
from behave.step_registry import StepRegistry
from behave.exception import StepNotImplementedError, PendingStepError
from behave.model import ScenarioOutline, Scenario, Rule
from behave.matchers import NoMatch

# ---------------------------------------------------------------------------
# TRANSCRIPT
# ---------------------------------------------------------------------------
LINES = []


def emit(text=u""):
    LINES.append(u"%s" % (text,))


def canonical(text):
    if text is None:
        return u"None"
    text = u"%s" % (text,)
    text = re.sub(r"line \d+", "line N", text)
    text = re.sub(r"0x[0-9a-fA-F]+", "0xX", text)
    text = re.sub(r"\d+\.\d+s", "T.TTTs", text)
    text = re.sub(r"^\s*\^+\s*$\n?", "", text, flags=re.M)   # py3.11+ carets
    return text.replace("\n", "\\n")


# ---------------------------------------------------------------------------
# STEPS
# ---------------------------------------------------------------------------
class InterruptOnce(object):
    """KeyboardInterrupt out of a formatter/feature.run (not out of a step)."""
    armed = False


def make_registry(log):
    registry = StepRegistry()

    def step_pass(context):
        log.append("STEP pass")

    def step_fail(context):
        log.append("STEP fail")
        assert False, "boom"

    def step_fail_bare(context):
        log.append("STEP fail-bare")
        assert False

    def step_error(context):
        log.append("STEP error")
        raise RuntimeError("kaput")

    def step_pending(context):
        log.append("STEP pending")
        raise StepNotImplementedError("todo later")

    def step_pending_bare(context):
        log.append("STEP pending-bare")
        raise PendingStepError()

    def step_skip_scenario(context):
        log.append("STEP skip-scenario")
        context.scenario.skip("by step")

    def step_interrupt(context):
        log.append("STEP interrupt")
        raise KeyboardInterrupt()

    def step_print(context):
        log.append("STEP print")
        print("hello from step")

    def step_bad_cleanup(context):
        log.append("STEP add-bad-cleanup")

        def bad_cleanup():
            log.append("CLEANUP bad")
            raise ValueError("cleanup-oops")
        context.add_cleanup(bad_cleanup)

    def step_good_cleanup(context):
        log.append("STEP add-good-cleanup")
        context.add_cleanup(lambda: log.append("CLEANUP good"))

    def step_value(context, value):
        log.append("STEP value=%s" % value)
        assert value != "bad", "bad value"

    def step_nested_ok(context):
        log.append("STEP nested-ok")
        context.execute_steps(u"Given a passing step\nThen a printing step")

    def step_nested_fail(context):
        log.append("STEP nested-fail")
        context.execute_steps(u"Given a passing step\nThen a failing step")

    def step_abort(context):
        log.append("STEP abort")
        context.abort()

    table = [
        ("given", u"a passing step", step_pass),
        ("when", u"a passing step", None),
        ("step", u"another passing step", step_pass),
        ("step", u"a failing step", step_fail),
        ("step", u"a bare failing step", step_fail_bare),
        ("step", u"an erroring step", step_error),
        ("step", u"a pending step", step_pending),
        ("step", u"a bare pending step", step_pending_bare),
        ("step", u"a step that skips the scenario", step_skip_scenario),
        ("step", u"a keyboard interrupt", step_interrupt),
        ("step", u"a printing step", step_print),
        ("step", u"a step with a bad cleanup", step_bad_cleanup),
        ("step", u"a step with a good cleanup", step_good_cleanup),
        ("step", u'a value "{value}"', step_value),
        ("step", u"a nested ok step", step_nested_ok),
        ("step", u"a nested failing step", step_nested_fail),
        ("step", u"a step that aborts the run", step_abort),
    ]
    for keyword, text, func in table:
        if func is None:
            continue
        registry.add_step_definition(keyword, text, func)
    return registry


# ---------------------------------------------------------------------------
# RECORDERS
# ---------------------------------------------------------------------------
class RecordingFormatter(object):
    """Duck-typed formatter (rule/rule_finished are optional callbacks)."""
    def __init__(self, log, name="F", with_rule=True, interrupt_on_uri=None):
        self.log = log
        self.name = name
        self.interrupt_on_uri = interrupt_on_uri
        if with_rule:
            self.rule = self._rule
            self.rule_finished = self._rule_finished

    def _add(self, text):
        self.log.append("%s.%s" % (self.name, text))

    def uri(self, uri):
        self._add("uri %s" % uri)
        if self.interrupt_on_uri and uri == self.interrupt_on_uri:
            raise KeyboardInterrupt()

    def feature(self, feature):
        self._add("feature %s" % feature.name)

    def _rule(self, rule):
        self._add("rule %s" % rule.name)

    def _rule_finished(self):
        self._add("rule_finished")

    def background(self, background):
        self._add("background %s" % background.name)

    def scenario(self, scenario):
        self._add("scenario %s" % scenario.name)

    def step(self, step):
        self._add("step %s %s [%s]" % (step.keyword, step.name, step.status.name))

    def match(self, match):
        kind = match.__class__.__name__
        func = getattr(getattr(match, "func", None), "__name__", None)
        self._add("match %s %s" % (kind, func))

    def result(self, step):
        self._add("result %s -> %s" % (step.name, step.status.name))

    def eof(self):
        self._add("eof")

    def close(self):
        self._add("close")


class RecordingReporter(object):
    def __init__(self, log):
        self.log = log

    def feature(self, feature):
        self.log.append("R.feature %s [%s]" % (feature.name, feature.status.name))

    def end(self):
        self.log.append("R.end")


HOOK_NAMES = ["before_all", "after_all", "before_feature", "after_feature",
              "before_rule", "after_rule", "before_scenario", "after_scenario",
              "before_step", "after_step", "before_tag", "after_tag"]


def make_hooks(log, raising=None, raise_on=None, exc_class=RuntimeError,
               skip_in=None, skip_on=None, names=None):
    """raising: hook name that raises (for the entity/tag named raise_on or any).
    skip_in/skip_on: hook name in which entity named skip_on is mark_skipped().
    """
    hooks = {}

    def make_hook(name):
        def hook(context, *args):
            arg = args[0] if args else None
            arg_name = getattr(arg, "name", arg)
            log.append("HOOK %s %s" % (name, arg_name))
            if name == skip_in and (skip_on is None or skip_on == arg_name):
                log.append("HOOK %s: mark_skipped %s" % (name, arg_name))
                arg.mark_skipped()
            if name == raising and (raise_on is None or raise_on == arg_name):
                raise exc_class("hook %s is broken" % name)
        hook.__name__ = str(name)
        return hook

    for name in (names or HOOK_NAMES):
        hooks[name] = make_hook(name)
    return hooks


# ---------------------------------------------------------------------------
# DESCRIBE MODEL STATE
# ---------------------------------------------------------------------------
def describe_step(step, indent):
    emit(u"%sstep %s %s: %s hook_failed=%s error=%s exception=%s" % (
        indent, step.keyword, step.name, step.status.name,
        getattr(step, "hook_failed", None),
        canonical(step.error_message),
        step.exception.__class__.__name__))


def describe_scenario(scenario, indent):
    if isinstance(scenario, ScenarioOutline):
        emit(u"%soutline %s: %s" % (indent, scenario.name, scenario.status.name))
        for sub in scenario._scenarios:
            describe_scenario(sub, indent + "  ")
        return
    emit(u"%sscenario %s: %s hook_failed=%s should_skip=%s skip_reason=%s "
         u"dry=%s error=%s" % (
             indent, scenario.name, scenario.status.name, scenario.hook_failed,
             scenario.should_skip, scenario.skip_reason,
             getattr(scenario, "was_dry_run", None),
             canonical(scenario.error_message)))
    for step in scenario.all_steps:
        describe_step(step, indent + "  ")


def describe_container(container, indent=""):
    emit(u"%s%s %s: %s hook_failed=%s should_skip=%s error=%s" % (
        indent, container.type, container.name, container.status.name,
        container.hook_failed, container.should_skip,
        canonical(container.error_message)))
    for item in container.run_items:
        if isinstance(item, Rule):
            describe_container(item, indent + "  ")
        else:
            describe_scenario(item, indent + "  ")


# ---------------------------------------------------------------------------
# RUN ONE CASE
# ---------------------------------------------------------------------------
def run_case(title, texts, args=None, hooks=None, nformatters=1,
             formatter_kwargs=None, preset=None, twice=False, use_run=True,
             verbose_cfg=False):
    emit(u"=" * 70)
    emit(u"CASE %s  args=%s" % (title, args or []))
    log = []
    config = Configuration(command_args=list(args or []), load_config=False)
    if verbose_cfg:
        config.verbose = True
    config.reporters = [RecordingReporter(log)]
    registry = make_registry(log)
    features = []
    for index, text in enumerate(texts):
        feature = parse_feature(text, filename="features/f%d.feature" % index)
        features.append(feature)
    runner = ModelRunner(config, features=features, step_registry=registry)
    fkw = formatter_kwargs or {}
    runner.formatters = [RecordingFormatter(log, name="F%d" % i, **fkw)
                         for i in range(nformatters)]
    if hooks is not None:
        runner.hooks = hooks(log) if callable(hooks) else hooks
    if preset:
        preset(runner, features, log)

    rounds = 2 if twice else 1
    for round_no in range(rounds):
        del log[:]
        real_stdout = sys.stdout
        sys.stdout = fake = io.StringIO() if sys.version_info[0] >= 3 else io.BytesIO()
        outcome = None
        try:
            try:
                if use_run:
                    outcome = "returned %r" % (runner.run(),)
                else:
                    outcome = "returned %r" % (runner.run_model(),)
            except BaseException as e:   # pylint: disable=broad-except
                outcome = "raised %s: %s" % (e.__class__.__name__, canonical(e))
        finally:
            sys.stdout = real_stdout
        emit(u"ROUND %d -> %s" % (round_no, outcome))
        emit(u"aborted=%r hook_failures=%r undefined=%s context.failed=%r "
             u"cleanup_errors=%r" % (
                 runner.aborted, runner.hook_failures,
                 [s.name for s in runner.undefined_steps],
                 runner.context._root.get("failed"),
                 runner.context._root.get("cleanup_errors")))
        emit(u"stack-depth=%d active_outline=%r" % (
            len(runner.context._stack), runner.context._root.get("active_outline")))
        for feature in features:
            describe_container(feature)
        emit(u"-- call log:")
        for entry in log:
            emit(u"  " + canonical(entry))
        emit(u"-- stdout:")
        for line in fake.getvalue().splitlines():
            emit(u"  | " + canonical(line))


# ---------------------------------------------------------------------------
# FEATURE TEXTS
# ---------------------------------------------------------------------------
def feature_text(name, scenarios, tags="", background=None, rules=None):
    lines = []
    if tags:
        lines.append(tags)
    lines.append("Feature: %s" % name)
    if background:
        lines.append("  Background: bg")
        for step in background:
            lines.append("    " + step)
    for sc in scenarios:
        lines.extend("  " + l for l in sc)
    for rule_name, rule_tags, rule_bg, rule_scenarios in (rules or []):
        if rule_tags:
            lines.append("  " + rule_tags)
        lines.append("  Rule: %s" % rule_name)
        if rule_bg:
            lines.append("    Background: rbg")
            for step in rule_bg:
                lines.append("      " + step)
        for sc in rule_scenarios:
            lines.extend("    " + l for l in sc)
    return u"\n".join(lines) + u"\n"


def scenario(name, steps, tags=""):
    lines = []
    if tags:
        lines.append(tags)
    lines.append("Scenario: %s" % name)
    lines.extend("  " + s for s in steps)
    return lines


def outline(name, steps, rows, tags="", examples_tags="", more_examples=None):
    lines = []
    if tags:
        lines.append(tags)
    lines.append("Scenario Outline: %s" % name)
    lines.extend("  " + s for s in steps)
    tables = [("E1", examples_tags, rows)] + list(more_examples or [])
    for ex_name, ex_tags, ex_rows in tables:
        if ex_tags:
            lines.append("  " + ex_tags)
        lines.append("  Examples: %s" % ex_name)
        lines.append("    | value |")
        for row in ex_rows:
            lines.append("    | %s |" % row)
    return lines


PASS = "Given a passing step"
PASS2 = "And another passing step"
FAIL = "When a failing step"
FAILB = "When a bare failing step"
ERROR = "When an erroring step"
PENDING = "When a pending step"
PENDINGB = "When a bare pending step"
UNDEF = "When an undefined step"
UNDEF2 = "Then another undefined step"
SKIP = "When a step that skips the scenario"
INTR = "When a keyboard interrupt"
PRINT = "Then a printing step"
BADCLEAN = "Given a step with a bad cleanup"
GOODCLEAN = "Given a step with a good cleanup"
VALUE = 'Then a value "<value>"'
NESTED_OK = "When a nested ok step"
NESTED_FAIL = "When a nested failing step"
ABORT = "When a step that aborts the run"

OUTCOME_STEPS = [("pass", PASS), ("fail", FAIL), ("fail-bare", FAILB),
                 ("error", ERROR), ("pending", PENDING),
                 ("pending-bare", PENDINGB), ("undefined", UNDEF),
                 ("skip", SKIP), ("interrupt", INTR), ("nested-ok", NESTED_OK),
                 ("nested-fail", NESTED_FAIL), ("abort", ABORT)]


def simple_feature(middle, tags="", sc_tags=""):
    return feature_text("F", [scenario("S1", [PASS, middle, PRINT, UNDEF2], sc_tags),
                              scenario("S2", [PASS, PASS2])], tags=tags)


def big_feature(name="Big"):
    return feature_text(
        name,
        [scenario("A1", [PASS, PRINT], "@a"),
         scenario("A2", [PASS, FAIL, PASS2], "@b"),
         outline("O1", [PASS, VALUE], ["good", "bad", "fine"], "@o",
                 "@ex1", more_examples=[("E2", "@ex2", ["bad", "ok"])]),
         scenario("A3", [UNDEF, PASS], "@a @c")],
        tags="@feat", background=[GOODCLEAN],
        rules=[("R1", "@r1", [PASS2],
                [scenario("R1S1", [PASS], "@a"),
                 scenario("R1S2", [ERROR, UNDEF2], "@b")]),
               ("R2", "@r2", None,
                [scenario("R2S1", [PASS, PENDING], "@wip"),
                 scenario("R2S2", [PASS], "@c")]),
               ("R3-empty", "", None, [])])


def all_pass_feature(name="Green"):
    return feature_text(
        name,
        [scenario("G1", [PASS, PASS2, PRINT], "@a"),
         outline("GO", [PASS, VALUE], ["good", "fine"], "@o"),
         scenario("G2", [PASS, SKIP, FAIL], "@b")],
        tags="@green", background=[PASS],
        rules=[("GR", "@r", None, [scenario("GR1", [PASS, NESTED_OK])])])


# ---------------------------------------------------------------------------
# CASES
# ---------------------------------------------------------------------------
def main_inprocess():
    # -- 1. each step outcome x {normal, --stop, --dry-run, @wip scenario}
    for label, step in OUTCOME_STEPS:
        run_case("outcome:%s" % label, [simple_feature(step)])
        run_case("outcome:%s/stop" % label, [simple_feature(step)], ["--stop"])
        run_case("outcome:%s/dry-run" % label, [simple_feature(step)],
                 ["--dry-run"], hooks=make_hooks)
        run_case("outcome:%s/@wip" % label,
                 [simple_feature(step, sc_tags="@wip")], hooks=make_hooks)

    # -- 2. trees, tags, several features, show-skipped, name selection
    trees = [big_feature(), all_pass_feature()]
    tag_sets = [[], ["--tags=a"], ["--tags=not a"], ["--tags=b or c"],
                ["--tags=wip"], ["--tags=ex2"], ["--tags=nosuchtag"],
                ["--tags=r1 and b"], ["--tags=green"], ["--tags=o and not ex1"]]
    for tags in tag_sets:
        for extra in ([], ["--stop"], ["--dry-run"], ["--show-skipped"],
                      ["--no-skipped"]):
            run_case("tree", trees, tags + extra, hooks=make_hooks,
                     nformatters=2)
    run_case("tree/reversed", list(reversed(trees)), ["--stop"], hooks=make_hooks)
    run_case("tree/no-hooks", trees, [])
    run_case("tree/no-rule-callbacks", trees, [], hooks=make_hooks,
             formatter_kwargs={"with_rule": False})
    run_case("tree/green-only", [all_pass_feature()], [], hooks=make_hooks)
    run_case("tree/green-only/no-formatter", [all_pass_feature()], [],
             nformatters=0)
    for name in ["A1", "R1S", "O1", "GO -- @1.2", "nomatch", "^G"]:
        run_case("tree/name", trees, ["--name", name], hooks=make_hooks)
        run_case("tree/name+tags", trees, ["--name", name, "--tags=a or o"])
    run_case("tree/twice", trees, [], hooks=make_hooks, twice=True)
    run_case("tree/twice/run_model", trees, ["--tags=not b"], hooks=make_hooks,
             twice=True, use_run=False)
    run_case("no-features", [], [], hooks=make_hooks)
    run_case("empty-feature", [u"Feature: Empty\n"], [], hooks=make_hooks)
    run_case("empty-feature/show-skipped", [u"@x\nFeature: Empty\n"],
             ["--tags=y", "--show-skipped"], hooks=make_hooks)
    run_case("scenario-without-steps",
             [feature_text("NoSteps", [scenario("Z", []), scenario("Z2", [PASS])])],
             [], hooks=make_hooks)
    run_case("scenario-without-steps/tags",
             [feature_text("NoSteps", [scenario("Z", [], "@x"),
                                       scenario("Z2", [PASS])])],
             ["--tags=not x"], hooks=make_hooks)
    run_case("continue-after-failed",
             [feature_text("Cont", [scenario("C1", [FAIL, PASS, UNDEF, PASS2, ERROR])])],
             [], preset=lambda r, fs, log: [setattr(s, "continue_after_failed_step", True)
                                           for f in fs for s in f.walk_scenarios()])
    run_case("all-undefined/dry-run",
             [feature_text("U", [scenario("U1", [UNDEF, PASS, UNDEF2, PENDING])],
                           background=[UNDEF2])], ["--dry-run"], nformatters=2)
    run_case("cleanups",
             [feature_text("Cl", [scenario("K1", [BADCLEAN, PASS]),
                                  scenario("K2", [GOODCLEAN, PASS])])],
             [], hooks=make_hooks)
    run_case("cleanups/background",
             [feature_text("Cl", [scenario("K1", [PASS]), scenario("K2", [PASS])],
                           background=[BADCLEAN])], ["--stop"], hooks=make_hooks)

    # -- 3. a single raising hook (every hook name) / raising cleanup
    for hook_name in HOOK_NAMES:
        for exc_class in (RuntimeError, AssertionError):
            hooks = (lambda log, n=hook_name, x=exc_class:
                     make_hooks(log, raising=n, exc_class=x))
            run_case("hook-raises:%s:%s" % (hook_name, exc_class.__name__),
                     [big_feature()], [], hooks=hooks)
        hooks = lambda log, n=hook_name: make_hooks(log, raising=n)
        run_case("hook-raises:%s/stop" % hook_name, [big_feature(), all_pass_feature()],
                 ["--stop"], hooks=hooks)
        run_case("hook-raises:%s/green/verbose" % hook_name, [all_pass_feature()],
                 [], hooks=hooks, verbose_cfg=True)
        run_case("hook-raises:%s/dry-run" % hook_name, [all_pass_feature()],
                 ["--dry-run"], hooks=hooks)
    for hook_name, target in [("before_scenario", "G2"), ("after_scenario", "G1"),
                              ("before_tag", "o"), ("after_tag", "r"),
                              ("before_tag", "green"), ("before_rule", "GR"),
                              ("before_step", "another passing step"),
                              ("after_step", "a printing step")]:
        hooks = (lambda log, n=hook_name, t=target:
                 make_hooks(log, raising=n, raise_on=t))
        run_case("hook-raises:%s@%s" % (hook_name, target), [all_pass_feature()],
                 [], hooks=hooks)
    # -- hook raises after a step failure (error_message is appended)
    hooks = lambda log: make_hooks(log, raising="after_scenario")
    run_case("hook-raises-after-failure", [simple_feature(FAIL)], [], hooks=hooks)
    hooks = lambda log: make_hooks(log, raising="after_step",
                                   raise_on="a failing step")
    run_case("hook-raises-after-step-failure", [simple_feature(FAIL)], [], hooks=hooks)
    hooks = lambda log: make_hooks(log, raising="before_all", exc_class=KeyboardInterrupt)
    run_case("hook-keyboard-interrupt:before_all", [all_pass_feature()], [], hooks=hooks)
    hooks = lambda log: make_hooks(log, raising="before_scenario", raise_on="G2",
                                   exc_class=KeyboardInterrupt)
    run_case("hook-keyboard-interrupt:before_scenario",
             [all_pass_feature(), big_feature()], [], hooks=hooks)
    hooks = lambda log: make_hooks(log, raising="after_step", raise_on="another passing step",
                                   exc_class=KeyboardInterrupt)
    run_case("hook-keyboard-interrupt:after_step",
             [all_pass_feature(), big_feature()], [], hooks=hooks)

    # -- 4. hooks that skip entities
    for hook_name, target in [("before_feature", "Green"), ("before_scenario", "G1"),
                              ("before_scenario", "GO -- @1.1 E1"),
                              ("before_rule", "GR")]:
        hooks = (lambda log, n=hook_name, t=target:
                 make_hooks(log, skip_in=n, skip_on=t))
        run_case("hook-skips:%s@%s" % (hook_name, target),
                 [all_pass_feature(), big_feature()], [], hooks=hooks)
        run_case("hook-skips:%s@%s/show-skipped" % (hook_name, target),
                 [all_pass_feature()], ["--show-skipped"], hooks=hooks)

    # -- 5. abort outside of steps
    run_case("interrupt-in-formatter.uri", [all_pass_feature("G0"), big_feature(),
                                            all_pass_feature("G9")],
             [], hooks=make_hooks,
             formatter_kwargs={"interrupt_on_uri": "features/f1.feature"})
    run_case("interrupt-in-step/many-features",
             [all_pass_feature("G0"), simple_feature(INTR), all_pass_feature("G9")],
             [], hooks=make_hooks)
    run_case("abort-in-step/many-features",
             [all_pass_feature("G0"), simple_feature(ABORT), all_pass_feature("G9")],
             [], hooks=make_hooks)
    run_case("interrupt-in-outline",
             [feature_text("IO", [outline("OI", [PASS, VALUE, INTR], ["a", "b"]),
                                  scenario("after", [PASS])])], [])
    run_case("failures-in-outline/stop",
             [feature_text("IO", [outline("OI", [PASS, VALUE], ["a", "bad", "c", "bad"]),
                                  scenario("after", [PASS])])], ["--stop"])
    run_case("features-as-iterator", [], [],
             preset=lambda r, fs, log: setattr(
                 r, "features",
                 iter([parse_feature(simple_feature(FAIL), filename="features/x.feature"),
                       parse_feature(all_pass_feature(), filename="features/y.feature")])))
    run_case("pre-existing-undefined-steps", [all_pass_feature()], [],
             preset=lambda r, fs, log: r.undefined_steps.append(
                 parse_feature(simple_feature(UNDEF)).scenarios[0].steps[1]))


# ---------------------------------------------------------------------------
# SUBPROCESS: exit code of `python -m behave`
# ---------------------------------------------------------------------------
STEPS_PY = u'''
from behave import given, when, then, step

@step(u"a passing step")
def step_pass(context):
    pass

@step(u"a failing step")
def step_fail(context):
    assert False, "boom"

@step(u"an erroring step")
def step_error(context):
    raise RuntimeError("kaput")

@step(u"a pending step")
def step_pending(context):
    from behave.exception import StepNotImplementedError
    raise StepNotImplementedError("todo")

@step(u"a keyboard interrupt")
def step_interrupt(context):
    raise KeyboardInterrupt()

@step(u"a step with a bad cleanup")
def step_bad_cleanup(context):
    def bad():
        raise ValueError("cleanup-oops")
    context.add_cleanup(bad)
'''

ENV_PY = u'''
import os
def _maybe(name):
    if os.environ.get("BROKEN_HOOK") == name:
        raise RuntimeError("hook %s is broken" % name)
def before_all(context): _maybe("before_all")
def after_all(context): _maybe("after_all")
def before_feature(context, feature): _maybe("before_feature")
def after_scenario(context, scenario): _maybe("after_scenario")
def before_tag(context, tag): _maybe("before_tag")
'''


def main_subprocess():
    workdir = tempfile.mkdtemp(prefix="c01eq")
    try:
        os.makedirs(os.path.join(workdir, "features", "steps"))
        with io.open(os.path.join(workdir, "features", "steps", "steps.py"), "w",
                     encoding="utf-8") as f:
            f.write(STEPS_PY)
        with io.open(os.path.join(workdir, "features", "environment.py"), "w",
                     encoding="utf-8") as f:
            f.write(ENV_PY)
        kinds = [("pass", "Given a passing step"), ("fail", "When a failing step"),
                 ("error", "When an erroring step"), ("pending", "When a pending step"),
                 ("undefined", "When an undefined step"),
                 ("interrupt", "When a keyboard interrupt"),
                 ("cleanup", "Given a step with a bad cleanup")]
        for label, step in kinds:
            text = (u"@t_%s\nFeature: %s\n  Scenario: one\n    Given a passing step\n"
                    u"    %s\n  @wip\n  Scenario: two\n    %s\n") % (label, label, step, step)
            with io.open(os.path.join(workdir, "features", "%s.feature" % label),
                         "w", encoding="utf-8") as f:
                f.write(text)
        env = dict(os.environ)
        env["PYTHONPATH"] = "/tmp/wtW/C01"
        env.pop("BROKEN_HOOK", None)

        def behave(args, broken_hook=None):
            env2 = dict(env)
            if broken_hook:
                env2["BROKEN_HOOK"] = broken_hook
            proc = subprocess.Popen(
                [sys.executable, "-m", "behave", "--no-color", "-f", "plain",
                 "--no-timings"] + args,
                cwd=workdir, env=env2, stdout=subprocess.PIPE,
                stderr=subprocess.STDOUT)
            out, _ = proc.communicate()
            out = out.decode("utf-8", "replace")
            summary = [l for l in out.splitlines()
                       if re.match(r"^\d+ (feature|rule|scenario|step)s? ", l)
                       or l.startswith(("HOOK-ERROR", "ABORTED", "CLEANUP-ERROR",
                                        "ConfigError", "Exception"))]
            emit(u"behave %s broken_hook=%s -> exit %d" % (args, broken_hook,
                                                          proc.returncode))
            for line in summary:
                emit(u"    " + canonical(line))

        emit(u"=" * 70)
        emit(u"SUBPROCESS")
        for label, _ in kinds:
            behave(["--tags=t_%s" % label])
            behave(["--tags=t_%s" % label, "--dry-run"])
            behave(["--tags=t_%s and wip" % label])
            behave(["--tags=t_%s" % label, "--stop"])
        behave([])
        behave(["--stop"])
        behave(["--tags=t_pass"])
        behave(["--tags=nosuchtag"])
        for hook in ["before_all", "after_all", "before_feature", "after_scenario",
                     "before_tag"]:
            behave(["--tags=t_pass"], broken_hook=hook)
            behave(["--tags=t_pass", "--dry-run"], broken_hook=hook)
        behave(["features/missing.feature"])
    finally:
        shutil.rmtree(workdir, ignore_errors=True)


if __name__ == "__main__":
    main_inprocess()
    main_subprocess()
    text = u"\n".join(LINES) + u"\n"
    if sys.version_info[0] < 3:
        text = text.encode("utf-8")
    sys.stdout.write(text)
