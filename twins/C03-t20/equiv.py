# -*- coding: UTF-8 -*-
"""
Equivalence transcript for property C03 (status roll-up).

Prints a canonical transcript of:
  A. the Status classification (all predicates, all members)
  B. Scenario.compute_status over step-status tuples (real Scenario/Step objects)
  C. Feature/Rule.compute_status over child-status tuples (with access log)
  D. ScenarioOutline.compute_status over child-status tuples (with access log)
  E. .status memoisation, clear_status(), set_status(), reset() chains
  F. parsed, nested model trees with seeded random step statuses
  G. real runs (python -m behave as subprocess): --stop, abort, hook errors,
     dry-run, everything deselected, undefined/pending steps, auto-retry.
"""

from __future__ import absolute_import, print_function
import sys
sys.path.insert(0, "/tmp/wtW/C03")

import itertools
import os
import random
import re
import shutil
import subprocess
import tempfile
import textwrap

from behave.model_core import Status, ScenarioStatus, OuterStatus
from behave import model
from behave.model import Feature, Rule, Scenario, ScenarioOutline, Step
from behave.parser import parse_feature

ALL = list(Status)
REDUCED = [Status.untested, Status.skipped, Status.passed, Status.failed,
           Status.error, Status.hook_error, Status.pending_warn,
           Status.undefined, Status.untested_undefined]


def out(*args):
    print(*args)


def short(status):
    return getattr(status, "name", repr(status))


def call(func, *args, **kwargs):
    try:
        result = func(*args, **kwargs)
        if isinstance(result, Status):
            return result.name
        return repr(result)
    except Exception as e:  # pylint: disable=broad-except
        return "!%s(%s)" % (e.__class__.__name__, e)


# ---------------------------------------------------------------------------
# A. STATUS CLASSIFICATION
# ---------------------------------------------------------------------------
def part_a():
    out("== A: Status classification")
    predicates = ["has_failed", "is_passed", "is_failure", "is_error",
                  "is_untested", "is_pending", "is_undefined", "is_final"]
    for status in ALL:
        flags = ",".join("%s=%s" % (p, call(getattr(status, p)))
                         for p in predicates)
        out("A1 %s value=%s hash=%s norm=%s v0=%s %s" % (
            status.name, status.value, hash(status), status.normalized_name,
            call(status.to_status_v0), flags))
        out("A2 %s outer=%s from_step=%s from_step_dry=%s eq_name=%s eq_other=%s" % (
            status.name,
            call(OuterStatus.from_inner_status, status),
            call(ScenarioStatus.from_step_status, status),
            call(ScenarioStatus.from_step_status, status, dry_run=True),
            status == status.name, status == "nope"))

        class Holder(object):
            pass
        holder = Holder()
        holder.status = status
        out("A3 %s outer_elem=%s from_step_elem=%s" % (
            status.name,
            call(OuterStatus.from_inner_model_element, holder),
            call(ScenarioStatus.from_step, holder)))
    for junk in ["passed", None, 11]:
        out("A4 junk=%r outer=%s from_step=%s" % (
            junk, call(OuterStatus.from_inner_status, junk),
            call(ScenarioStatus.from_step_status, junk)))
    for name in ["passed", "failed", "hook_error", "nope", ""]:
        out("A5 from_name(%r)=%s" % (name, call(Status.from_name, name)))
    # -- COHERENCE: exactly one class per reportable status
    for status in ALL:
        classes = [status.is_passed(), status.is_failure(), status.is_error(),
                   status is Status.skipped, status.is_untested()]
        out("A6 %s classes=%d" % (status.name, sum(1 for c in classes if c)))


# ---------------------------------------------------------------------------
# B. SCENARIO over STEPS
# ---------------------------------------------------------------------------
def make_step(name, status):
    step = Step("x.feature", 1, u"Given", "given", name)
    step.status = status
    return step


def make_scenario(step_statuses, background_statuses=None, hook_failed=False):
    steps = [make_step(u"s%d" % i, s) for i, s in enumerate(step_statuses)]
    scenario = Scenario("x.feature", 1, u"Scenario", u"S", steps=steps)
    if background_statuses is not None:
        bsteps = [make_step(u"b%d" % i, s)
                  for i, s in enumerate(background_statuses)]
        scenario.background = model.Background("x.feature", 1, u"Background",
                                               u"B", steps=bsteps)
        # -- PRESET: Background-steps copy (otherwise lazily copied + reset).
        scenario._background_steps = bsteps
    scenario.hook_failed = hook_failed
    return scenario


def part_b():
    out("== B: Scenario.compute_status over step statuses")
    for n in (1, 2, 3):
        for combo in itertools.product(ALL, repeat=n):
            scenario = make_scenario(combo)
            computed = call(scenario.compute_status)
            via_prop = call(lambda: scenario.status)
            cached = short(scenario._cached_status)
            out("B1 %s -> compute=%s status=%s cached=%s" % (
                "/".join(s.name for s in combo), computed, via_prop, cached))
    for combo in itertools.product(REDUCED, repeat=4):
        scenario = make_scenario(combo)
        out("B2 %s -> %s" % ("/".join(s.name for s in combo),
                             call(lambda: scenario.status)))
    for combo in itertools.product(REDUCED, repeat=2):
        for bcombo in itertools.product(REDUCED, repeat=2):
            scenario = make_scenario(combo, background_statuses=bcombo)
            out("B3 bg=%s steps=%s -> %s" % (
                "/".join(s.name for s in bcombo),
                "/".join(s.name for s in combo),
                call(lambda: scenario.status)))
    for status in ALL:
        scenario = make_scenario([status], hook_failed=True)
        out("B4 hook_failed %s -> %s" % (status.name,
                                         call(lambda: scenario.status)))
    scenario = make_scenario([])
    out("B5 no-steps -> %s" % call(lambda: scenario.status))
    # -- JUNK step status values (not a Status): same exception expected.
    for junk in ["passed", "failed", None, 11]:
        scenario = make_scenario([Status.passed, junk, Status.failed])
        out("B6 junk=%r -> %s" % (junk, call(scenario.compute_status)))


# ---------------------------------------------------------------------------
# C/D. CONTAINERS over CHILD STATUSES (with access log)
# ---------------------------------------------------------------------------
class Child(object):
    """Fake run-item: logs each access to its status."""
    def __init__(self, name, status, log):
        self.name = name
        self._status = status
        self._log = log
        self.reset_count = 0

    @property
    def status(self):
        self._log.append(self.name)
        return self._status

    def reset(self):
        self._log.append("reset:" + self.name)
        self.reset_count += 1


def container_case(container, attr, combo):
    log = []
    children = [Child("c%d" % i, s, log) for i, s in enumerate(combo)]
    setattr(container, attr, children)
    container.clear_status()
    computed = call(container.compute_status)
    n_compute = len(log)
    via_prop = call(lambda: container.status)
    again = call(lambda: container.status)
    return "compute=%s status=%s again=%s access=%s|%s" % (
        computed, via_prop, again, ",".join(log[:n_compute]),
        ",".join(log[n_compute:]))


def make_outline(rows=2):
    text = u"""
Feature: F
  Scenario Outline: O
    Given a step <x>

    Examples: E1
      | x |
%s
""" % u"\n".join(u"      | %d |" % i for i in range(rows))
    feature = parse_feature(text.lstrip(), filename="o.feature")
    return feature.run_items[0]


def part_c():
    out("== C: Feature/Rule.compute_status over child statuses")
    feature = Feature("f.feature", 1, u"Feature", u"F")
    rule = Rule("f.feature", 2, u"Rule", u"R")
    for kind, container in (("feature", feature), ("rule", rule)):
        for n in (1, 2, 3):
            for combo in itertools.product(ALL, repeat=n):
                container.hook_failed = False
                out("C1 %s %s -> %s" % (kind, "/".join(s.name for s in combo),
                                        container_case(container, "run_items", combo)))
        for combo in itertools.product(REDUCED, repeat=4):
            out("C2 %s %s -> %s" % (kind, "/".join(s.name for s in combo),
                                    container_case(container, "run_items", combo)))
        for combo in itertools.product([Status.skipped, Status.passed,
                                        Status.untested, Status.pending_warn,
                                        Status.xfailed], repeat=5):
            out("C3 %s %s -> %s" % (kind, "/".join(s.name for s in combo),
                                    container_case(container, "run_items", combo)))
        for status in ALL:
            container.hook_failed = True
            out("C4 %s hook_failed %s -> %s" % (
                kind, status.name, container_case(container, "run_items", [status])))
        container.hook_failed = False
        out("C5 %s empty -> %s" % (kind, container_case(container, "run_items", [])))


def part_d():
    out("== D: ScenarioOutline.compute_status over child statuses")
    outline = make_outline(rows=2)
    for n in (1, 2, 3):
        for combo in itertools.product(ALL, repeat=n):
            out("D1 %s -> %s" % ("/".join(s.name for s in combo),
                                 container_case(outline, "_scenarios", combo)))
    for combo in itertools.product(REDUCED, repeat=4):
        out("D2 %s -> %s" % ("/".join(s.name for s in combo),
                             container_case(outline, "_scenarios", combo)))
    for combo in itertools.product([Status.skipped, Status.passed,
                                    Status.untested, Status.pending_warn,
                                    Status.xpassed], repeat=5):
        out("D3 %s -> %s" % ("/".join(s.name for s in combo),
                             container_case(outline, "_scenarios", combo)))
    out("D4 not-built rows=2 -> %s" % container_case(outline, "_scenarios", []))
    outline0 = make_outline(rows=0)
    out("D5 not-built rows=0 -> %s" % container_case(outline0, "_scenarios", []))
    outline_noex = ScenarioOutline("o.feature", 1, u"Scenario Outline", u"O2")
    out("D6 no-examples -> %s" % container_case(outline_noex, "_scenarios", []))
    out("D7 no-examples skipped -> %s" % container_case(
        outline_noex, "_scenarios", [Status.skipped, Status.skipped]))
    # -- REAL: built scenarios, step statuses set directly.
    for combo in itertools.product(REDUCED, repeat=3):
        outline = make_outline(rows=3)
        scenarios = outline.scenarios
        for scenario, status in zip(scenarios, combo):
            for step in scenario.steps:
                step.status = status
        out("D8 real %s -> outline=%s scenarios=%s" % (
            "/".join(s.name for s in combo), call(lambda: outline.status),
            ",".join(call(lambda sc=sc: sc.status) for sc in scenarios)))


# ---------------------------------------------------------------------------
# E. MEMOISATION, clear_status(), set_status(), reset()
# ---------------------------------------------------------------------------
TREE_TEXT = u"""
@f
Feature: Tree
  Background: FB
    Given a background step

  Scenario: A1
    Given a step one
    When a step two

  Scenario Outline: O1 <x>
    Given a step <x>
    Then a step three

    Examples: E1
      | x |
      | 1 |
      | 2 |

    Examples: E2
      | x |
      | 3 |

  Rule: R1
    Background: RB
      Given a rule background step

    Scenario: R1A
      Given a step four

    Scenario Outline: R1O <y>
      Given a step <y>

      Examples:
        | y |
        | 7 |
        | 8 |

  Rule: R2
    Scenario: R2A
      Given a step five
      And a step six
"""


def walk(feature):
    """Yields (depth, element) over the whole tree, incl. steps."""
    def visit(item, depth):
        yield depth, item
        if isinstance(item, ScenarioOutline):
            for scenario in item._scenarios:
                for x in visit(scenario, depth + 1):
                    yield x
        elif isinstance(item, Scenario):
            for step in item.all_steps:
                yield depth + 1, step
        else:
            for child in item.run_items:
                for x in visit(child, depth + 1):
                    yield x
    return visit(feature, 0)


def dump_tree(tag, feature):
    for depth, item in walk(feature):
        extra = ""
        if isinstance(item, Step):
            extra = " duration=%s hook_failed=%s" % (item.duration, item.hook_failed)
        else:
            extra = " hook_failed=%s should_skip=%s skip_reason=%s cached=%s" % (
                getattr(item, "hook_failed", None), item.should_skip,
                item.skip_reason, short(item._cached_status))
        out("%s %s%s %s: status=%s%s" % (
            tag, "  " * depth, item.__class__.__name__, item.name,
            call(lambda: item.status), extra))


def all_steps_of(feature):
    return [item for _, item in walk(feature) if isinstance(item, Step)]


def part_e():
    out("== E: memoisation / clear_status / set_status / reset")
    # -- E1: Non-final status is recomputed, final status is memoised.
    scenario = make_scenario([Status.passed, Status.untested])
    out("E1 first=%s" % call(lambda: scenario.status))
    scenario.steps[1].status = Status.passed
    out("E1 after-step-passed=%s" % call(lambda: scenario.status))
    scenario.steps[1].status = Status.failed
    out("E1 memoised=%s compute=%s" % (call(lambda: scenario.status),
                                       call(scenario.compute_status)))
    scenario.clear_status()
    out("E1 after-clear=%s" % call(lambda: scenario.status))
    scenario.set_status("skipped")
    out("E1 set_status(str)=%s" % call(lambda: scenario.status))
    out("E1 set_status(bad)=%s" % call(scenario.set_status, "bad"))
    scenario.set_status(Status.untested)
    out("E1 set_status(untested)=%s" % call(lambda: scenario.status))

    # -- E2: reset() chain on a parsed tree; with call-order log.
    reset_log = []

    def logged(cls):
        orig = cls.__dict__["reset"]

        def wrapper(self):
            reset_log.append("%s:%s" % (cls.__name__, self.name))
            return orig(self)
        cls.reset = wrapper
        return orig

    originals = [(cls, logged(cls)) for cls in
                 (Feature, Rule, Scenario, ScenarioOutline, Step)
                 if "reset" in cls.__dict__]
    originals.append((model.ScenarioContainer,
                      logged(model.ScenarioContainer)))
    try:
        rng = random.Random(4711)
        for round_no in range(6):
            feature = parse_feature(TREE_TEXT.lstrip(), filename="tree.feature")
            if round_no % 2 == 0:
                for outline in feature.iter_scenario_outlines():
                    outline.scenarios   # -- BUILD
            for step in all_steps_of(feature):
                step.status = rng.choice(REDUCED)
                step.duration = rng.randint(0, 5)
                step.hook_failed = rng.choice([True, False])
            for _, item in walk(feature):
                if not isinstance(item, Step):
                    item.should_skip = rng.choice([True, False])
                    item.skip_reason = rng.choice([None, u"why"])
                    if hasattr(item, "hook_failed"):
                        item.hook_failed = rng.random() < 0.15
            dump_tree("E2.%d.before" % round_no, feature)
            del reset_log[:]
            feature.reset()
            out("E2.%d reset-order=%s" % (round_no, " ".join(reset_log)))
            dump_tree("E2.%d.after" % round_no, feature)
            # -- Second generation of statuses: depends only on latest values.
            for step in all_steps_of(feature):
                step.status = rng.choice([Status.passed, Status.passed,
                                          Status.skipped, Status.failed])
            dump_tree("E2.%d.rerun" % round_no, feature)
            model.reset_model([feature])
            dump_tree("E2.%d.reset_model" % round_no, feature)
    finally:
        for cls, orig in originals:
            cls.reset = orig


# ---------------------------------------------------------------------------
# F. NESTED TREES with seeded random statuses
# ---------------------------------------------------------------------------
def part_f():
    out("== F: nested trees, seeded random step statuses / hook flags")
    rng = random.Random(20240917)
    alphabets = [
        [Status.passed, Status.skipped],
        [Status.passed, Status.skipped, Status.untested],
        [Status.passed, Status.failed, Status.untested],
        [Status.passed, Status.pending_warn, Status.undefined, Status.skipped],
        REDUCED,
        ALL,
    ]
    for case_no in range(240):
        alphabet = alphabets[case_no % len(alphabets)]
        feature = parse_feature(TREE_TEXT.lstrip(), filename="tree.feature")
        if case_no % 5 != 4:
            for outline in feature.iter_scenario_outlines():
                outline.scenarios   # -- BUILD
        # -- Per scenario: a prefix of steps executed, rest from alphabet
        for step in all_steps_of(feature):
            step.status = rng.choice(alphabet)
        for _, item in walk(feature):
            if hasattr(item, "hook_failed") and not isinstance(item, Step):
                item.hook_failed = rng.random() < 0.05
        lines = []
        for depth, item in walk(feature):
            if isinstance(item, Step):
                continue
            lines.append("%s%s=%s" % ("." * depth, item.name,
                                      call(lambda: item.status)))
        out("F%03d %s" % (case_no, " ".join(lines)))


# ---------------------------------------------------------------------------
# G. REAL RUNS
# ---------------------------------------------------------------------------
ENVIRONMENT_PY = u'''
from __future__ import print_function
import os
from behave.model import ScenarioOutline, Scenario
from behave.contrib.scenario_autoretry import patch_scenario_with_autoretry

MODE = os.environ.get("C03_MODE", "")

def say(*args):
    print("##", *args)

def status_of(x):
    return x.status.name

def dump(item, depth=0):
    say("%s%s %s: %s hook_failed=%s" % ("  " * depth, item.__class__.__name__,
        item.name, status_of(item), getattr(item, "hook_failed", None)))
    if isinstance(item, ScenarioOutline):
        children = item._scenarios
    elif isinstance(item, Scenario):
        children = list(item.all_steps)
    else:
        children = getattr(item, "run_items", [])
    for child in children:
        dump(child, depth + 1)

def before_all(context):
    if MODE == "before_all_error":
        raise RuntimeError("OOPS before_all")

def before_feature(context, feature):
    say("before_feature", feature.name, status_of(feature))
    if MODE == "before_feature_error" and "hookfail" in feature.tags:
        raise RuntimeError("OOPS before_feature")
    if MODE == "skip_feature" and "hookfail" in feature.tags:
        feature.skip("by hook")
    if MODE == "autoretry":
        for scenario in feature.walk_scenarios():
            if "flaky" in scenario.effective_tags:
                patch_scenario_with_autoretry(scenario, max_attempts=3)

def after_feature(context, feature):
    say("after_feature", feature.name, status_of(feature))
    if MODE == "after_feature_error" and "hookfail" in feature.tags:
        raise RuntimeError("OOPS after_feature")

def before_rule(context, rule):
    say("before_rule", rule.name, status_of(rule))
    if MODE == "before_rule_error":
        raise RuntimeError("OOPS before_rule")

def after_rule(context, rule):
    say("after_rule", rule.name, status_of(rule))
    if MODE == "after_rule_error":
        raise RuntimeError("OOPS after_rule")

def before_scenario(context, scenario):
    say("before_scenario", scenario.name, status_of(scenario))
    if MODE == "before_scenario_error" and "hookfail" in scenario.tags:
        raise RuntimeError("OOPS before_scenario")
    if MODE == "skip_scenario" and "hookfail" in scenario.tags:
        scenario.skip("by hook")

def after_scenario(context, scenario):
    say("after_scenario", scenario.name, status_of(scenario))
    if MODE == "after_scenario_error" and "hookfail" in scenario.tags:
        raise RuntimeError("OOPS after_scenario")
    if MODE == "abort_after_scenario" and "hookfail" in scenario.tags:
        context.abort(reason="by hook")

def before_step(context, step):
    if MODE == "before_step_error" and "boom" in step.name:
        raise RuntimeError("OOPS before_step")

def after_step(context, step):
    say("after_step", step.name, status_of(step))
    if MODE == "after_step_error" and "boom" in step.name:
        raise RuntimeError("OOPS after_step")

def after_all(context):
    for feature in context._runner.features:
        dump(feature)
'''

STEPS_PY = u'''
from behave import given, when, then, step
from behave.api.pending_step import StepNotImplementedError

ATTEMPTS = {}

@step(u'a step that passes')
def step_passes(context):
    pass

@step(u'a step that passes {n}')
def step_passes_n(context, n):
    pass

@step(u'a step that fails')
def step_fails(context):
    assert False, "XFAIL"

@step(u'a step that fails {n}')
def step_fails_n(context, n):
    assert n != "2", "XFAIL-%s" % n

@step(u'a step that raises')
def step_raises(context):
    raise RuntimeError("OOPS step")

@step(u'a step that is pending')
def step_pending(context):
    raise StepNotImplementedError("pending")

@step(u'a boom step')
def step_boom(context):
    pass

@step(u'a flaky step "{name}" that passes in attempt {n:d}')
def step_flaky(context, name, n):
    ATTEMPTS[name] = ATTEMPTS.get(name, 0) + 1
    assert ATTEMPTS[name] >= n, "FLAKY %s attempt=%d" % (name, ATTEMPTS[name])

@step(u'the run is aborted')
def step_abort(context):
    context.abort(reason="by step")
'''

FEATURES = {
    "a_passing.feature": u"""
        Feature: Alpha
          Scenario: A1
            Given a step that passes
            When a step that passes

          Scenario: A2
            Given a step that passes
        """,
    "b_mixed.feature": u"""
        @hookfail
        Feature: Bravo
          Background:
            Given a step that passes

          Scenario: B1
            Given a step that passes

          @hookfail
          Scenario: B2
            Given a boom step
            When a step that passes

          Scenario Outline: BO <n>
            Given a step that fails <n>
            Then a step that passes

            Examples:
              | n |
              | 1 |
              | 2 |
              | 3 |

          @wip
          Scenario: B3
            Given a step that passes
        """,
    "c_rules.feature": u"""
        Feature: Charlie
          Scenario: C1
            Given a step that passes

          Rule: CR1
            Background:
              Given a step that passes

            Scenario: CR1A
              Given a step that passes

            Scenario Outline: CR1O <n>
              Given a step that fails <n>

              Examples: first
                | n |
                | 1 |
                | 2 |

              @wip
              Examples: second
                | n |
                | 3 |

          Rule: CR2
            @hookfail
            Scenario: CR2A
              Given a step that passes
              And a boom step

            Scenario: CR2B
              Given a step that passes
        """,
    "d_errors.feature": u"""
        Feature: Delta
          Scenario: D1 undefined
            Given a step that passes
            When an unknown step
            Then a step that passes

          Scenario: D2 pending
            Given a step that is pending
            Then a step that passes

          Scenario: D3 raises
            Given a step that raises
            Then a step that passes

          Scenario: D4 fails
            Given a step that fails
            Then a step that passes

          Scenario: D5 passes
            Given a step that passes
        """,
    "e_flaky.feature": u"""
        Feature: Echo
          @flaky
          Scenario: E1 second attempt
            Given a step that passes
            When a flaky step "e1" that passes in attempt 2
            Then a step that passes

          @flaky
          Scenario: E2 never
            Given a flaky step "e2" that passes in attempt 9

          @flaky
          Scenario Outline: EO <k>
            Given a flaky step "eo<k>" that passes in attempt <k>

            Examples:
              | k |
              | 1 |
              | 3 |
              | 4 |

          Scenario: E3 not flaky
            Given a flaky step "e3" that passes in attempt 2
        """,
    "f_abort.feature": u"""
        Feature: Foxtrot
          Scenario: F1
            Given a step that passes

          Scenario: F2
            Given a step that passes
            When the run is aborted
            Then a step that passes

          Scenario: F3
            Given a step that passes

          Rule: FR
            Scenario: FR1
              Given a step that passes
        """,
    "g_last.feature": u"""
        @wip
        Feature: Golf
          Scenario: G1
            Given a step that passes

          Scenario Outline: GO <n>
            Given a step that passes <n>

            Examples:
              | n |
              | 1 |
              | 2 |
        """,
}

RUNS = [
    # (label, mode, features, extra-args)
    ("plain", "", None, []),
    ("stop", "", None, ["--stop"]),
    ("dry-run", "", None, ["--dry-run"]),
    ("tags-wip", "", None, ["--tags=@wip"]),
    ("tags-not-wip", "", None, ["--tags=not @wip"]),
    ("tags-none", "", None, ["--tags=@nothing_matches"]),
    ("tags-none-show-skipped", "", None, ["--tags=@nothing_matches", "--show-skipped"]),
    ("name-select", "", None, ["--name=B1", "--name=CR1O"]),
    ("line-select", "", ["features/c_rules.feature:11"], []),
    ("before_all_error", "before_all_error", ["features/a_passing.feature"], []),
    ("before_feature_error", "before_feature_error", None, []),
    ("after_feature_error", "after_feature_error", None, []),
    ("before_rule_error", "before_rule_error", ["features/c_rules.feature", "features/f_abort.feature"], []),
    ("after_rule_error", "after_rule_error", ["features/c_rules.feature"], []),
    ("before_scenario_error", "before_scenario_error", None, []),
    ("after_scenario_error", "after_scenario_error", None, []),
    ("before_step_error", "before_step_error", None, []),
    ("after_step_error", "after_step_error", None, []),
    ("after_step_error-stop", "after_step_error", None, ["--stop"]),
    ("skip_feature", "skip_feature", None, []),
    ("skip_scenario", "skip_scenario", None, []),
    ("abort_after_scenario", "abort_after_scenario", None, []),
    ("autoretry", "autoretry", ["features/e_flaky.feature", "features/a_passing.feature"], []),
    ("autoretry-stop", "autoretry", ["features/e_flaky.feature", "features/a_passing.feature"], ["--stop"]),
    ("no-autoretry", "", ["features/e_flaky.feature"], []),
    ("abort-only", "", ["features/a_passing.feature", "features/f_abort.feature", "features/g_last.feature"], []),
    ("errors-only-junit", "", ["features/d_errors.feature"], ["--junit", "--junit-directory=reports"]),
]


def part_g():
    out("== G: real runs")
    workdir = tempfile.mkdtemp(prefix="c03_equiv_")
    try:
        os.makedirs(os.path.join(workdir, "features", "steps"))
        for name, text in FEATURES.items():
            with open(os.path.join(workdir, "features", name), "w") as f:
                f.write(textwrap.dedent(text).lstrip())
        with open(os.path.join(workdir, "features", "steps", "steps.py"), "w") as f:
            f.write(STEPS_PY)
        with open(os.path.join(workdir, "features", "environment.py"), "w") as f:
            f.write(ENVIRONMENT_PY)
        for label, mode, features, extra in RUNS:
            env = dict(os.environ)
            env["PYTHONPATH"] = "/tmp/wtW/C03"
            env["C03_MODE"] = mode
            env["PYTHONDONTWRITEBYTECODE"] = "1"
            env["PYTHONHASHSEED"] = "0"
            args = [sys.executable, "-m", "behave", "-f", "plain",
                    "--no-timings", "--no-capture", "--no-color"]
            args += extra
            args += features or ["features"]
            proc = subprocess.Popen(args, cwd=workdir, env=env,
                                    stdout=subprocess.PIPE,
                                    stderr=subprocess.STDOUT)
            output = proc.communicate()[0].decode("utf-8", "replace")
            out("G--- RUN %s: mode=%s args=%s" % (label, mode,
                                                " ".join(extra + (features or ["features"]))))
            out("G    exit=%s" % proc.returncode)
            for line in output.splitlines():
                if line.startswith("Took "):
                    continue
                line = line.replace(workdir, "<WORKDIR>")
                # -- CANONICAL: Line numbers inside the framework sources
                #    (traceback text) are not behaviour; they shift with any edit.
                line = re.sub(r'(File "/tmp/wtW/C03/behave/[^"]*", line )\d+',
                              r'\1N', line)
                out("G    | " + line.rstrip())
            reports = os.path.join(workdir, "reports")
            if os.path.isdir(reports):
                for name in sorted(os.listdir(reports)):
                    with open(os.path.join(reports, name)) as f:
                        for line in f.read().splitlines():
                            if "<testsuite " in line or "<testcase " in line:
                                line = re.sub(r'(time|timestamp|hostname)="[^"]*"',
                                              r'\1="*"', line)
                                line = line.replace(workdir, "<WORKDIR>")
                                out("G    junit %s | %s" % (name, line.strip()))
                shutil.rmtree(reports)
    finally:
        shutil.rmtree(workdir, ignore_errors=True)


if __name__ == "__main__":
    part_a()
    part_b()
    part_c()
    part_d()
    part_e()
    part_f()
    part_g()
