# -*- coding: utf-8 -*-
"""
Equivalence transcript for twin C15-t14 (JsonParser.add_feature_element
dispatch).  Runs real behave runs (subprocess, PYTHONPATH points to the
worktree), reads every JSON report back with behave.json_parser, and drives
JsonParser directly in-process with hand-made / boundary JSON data.
Prints a canonical transcript.
"""
from __future__ import absolute_import, print_function, unicode_literals
import io
import json
import os
import re
import shutil
import subprocess
import sys
import tempfile

WORKTREE = "/tmp/wtW/C15"
sys.path.insert(0, WORKTREE)

# ---------------------------------------------------------------------------
# FIXTURE TREE
# ---------------------------------------------------------------------------
FILES = {}
FILES["features/basic.feature"] = u'''
@feat
Feature: Basic fäture
  A description line.
  Second description line.

  Background: Common
    Given a passing step
    And a table step
      | name  | value   |
      | Alice | 1\\|2    |
      | Böb   | x\\\\y    |

  @ok
  Scenario: Passing scénario
    Given a passing step
    When I add 3 and 4
    Then the float 1.5 is seen
    And a doc-string step
      """
      line one
        indented "quoted" line
      ünicode line
      """

  @bad
  Scenario: Failing scenario
    Given a passing step
    When a failing step
    Then a passing step

  Scenario: Undefined scenario
    Given a passing step
    When an undefined step
    Then a passing step

  @skip
  Scenario: Skipped scenario
    Given a passing step

  Scenario: Error scenario
    Given a step that raises "böse"
    Then a passing step

  Scenario: Attach scenario
    Given a step that attaches data
    And a step that attaches data
    Then a custom value "abc" is seen

  @outline
  Scenario Outline: Outline <name>
    Given a passing step
    When I add <a> and <b>
    Then the word "<name>" is seen

    Examples: First
      | name | a | b |
      | one  | 1 | 2 |
      | two  | 3 | 4 |

    @skip
    Examples: Second
      | name  | a | b |
      | three | 5 | 6 |

    Examples: Third
      | name | a | b |
      | four | 7 | x |
'''
FILES["features/rules.feature"] = u'''
Feature: With rules

  Background: Feature background
    Given a passing step

  Scenario: Before rules
    When I add 1 and 1

  Rule: First rule
    Background: Rule background
      Given a table step
        | a |
        | 1 |

    Scenario: R1 S1
      When a passing step

    Scenario: R1 failing
      When a failing step
      Then a passing step

    Scenario Outline: R1 outline <n>
      When I add <n> and <n>

      Examples:
        | n |
        | 1 |
        | 2 |

  Rule: Second rule

    Scenario: R2 S1
      Given a doc-string step
        """
        only line
        """

  @skip
  Rule: Skipped rule
    Scenario: R3 S1
      Given a passing step
'''
FILES["features/empty.feature"] = u'''
Feature: Empty feature
  Nothing here.
'''
FILES["features/bgfail.feature"] = u'''
Feature: Background fails

  Background:
    Given a failing step

  Scenario: BF one
    Then a passing step

  Scenario: BF two
    Then a passing step
'''
FILES["features/steps/steps.py"] = u'''# -*- coding: utf-8 -*-
from __future__ import unicode_literals
from behave import given, when, then, step, register_type


class Custom(object):
    def __init__(self, text):
        self.text = text


def parse_custom(text):
    return Custom(text)

register_type(Custom=parse_custom)


@step(u'a passing step')
def step_pass(ctx):
    pass

@step(u'a failing step')
def step_fail(ctx):
    assert False, u"XFAIL first line\\nsecond lïne"

@step(u'a table step')
def step_table(ctx):
    assert ctx.table is not None

@step(u'a doc-string step')
def step_text(ctx):
    assert ctx.text

@step(u'I add {a:d} and {b:d}')
def step_add(ctx, a, b):
    ctx.sum = a + b

@step(u'the float {x:f} is seen')
def step_float(ctx, x):
    pass

@step(u'the word "{word}" is seen')
def step_word(ctx, word):
    pass

@step(u'a custom value "{value:Custom}" is seen')
def step_custom(ctx, value):
    assert isinstance(value, Custom)

@step(u'a step that raises "{msg}"')
def step_raise(ctx, msg):
    raise RuntimeError(msg)

@step(u'a step that attaches data')
def step_attach(ctx):
    ctx.attach("text/plain", b"hello \\xc3\\xa4")
'''
FILES["rec_formatter.py"] = u'''# -*- coding: utf-8 -*-
from __future__ import unicode_literals
from behave.formatter.base import Formatter


class RecordingFormatter(Formatter):
    name = "rec"
    description = "records events"

    def __init__(self, stream_opener, config):
        super(RecordingFormatter, self).__init__(stream_opener, config)
        self.stream = self.open()

    def _w(self, text):
        self.stream.write(text + u"\\n")

    def uri(self, uri):
        self._w(u"uri %s" % uri)

    def feature(self, feature):
        self._w(u"feature %s" % feature.name)

    def rule(self, rule):
        self._w(u"rule %s" % rule.name)

    def background(self, background):
        self._w(u"background %s @%s" % (background.name, background.location))

    def scenario(self, scenario):
        self._w(u"scenario %s @%s" % (scenario.name, scenario.location))

    def step(self, step):
        self._w(u"step %s %s" % (step.keyword, step.name))

    def match(self, match):
        args = [(a.name, a.original, repr(type(a.value).__name__))
                for a in match.arguments]
        self._w(u"match %s %r" % (match.location, args))

    def result(self, step):
        self._w(u"result %s => %s" % (step.name, step.status.name))

    def eof(self):
        self._w(u"eof")

    def close(self):
        self._w(u"close")
        self.close_stream()
'''


def make_tree():
    root = tempfile.mkdtemp(prefix="c15twin_")
    for relname, content in FILES.items():
        path = os.path.join(root, relname)
        dirname = os.path.dirname(path)
        if not os.path.isdir(dirname):
            os.makedirs(dirname)
        with io.open(path, "w", encoding="utf-8") as f:
            f.write(content)
    return root


# ---------------------------------------------------------------------------
# NORMALISATION
# ---------------------------------------------------------------------------
DURATION_JSON = re.compile(r'("duration":\s*)[-+0-9.eE]+')
DURATION_TXT = re.compile(r'\b\d+\.\d{3}s\b')
DURATION_SUMMARY = re.compile(r'Took \d+min \d+\.\d+s|Took \d+m\d+\.\d+s')


def normalise(text, root):
    text = text.replace(root, "<ROOT>")
    text = DURATION_JSON.sub(r'\g<1>0', text)
    text = DURATION_TXT.sub("N.NNNs", text)
    text = DURATION_SUMMARY.sub("Took T", text)
    return text


def emit(title, text):
    print("=" * 8, title)
    for line in text.splitlines():
        print("  | " + line.rstrip())


def run_behave(root, label, args, outputs):
    env = dict(os.environ)
    env["PYTHONPATH"] = os.pathsep.join([WORKTREE, root])
    env["PYTHONIOENCODING"] = "utf-8"
    env["COLUMNS"] = "80"
    env.pop("BEHAVE_ARGS", None)
    for name in outputs:
        path = os.path.join(root, name)
        if os.path.exists(path):
            os.remove(path)
    cmd = [sys.executable, "-m", "behave"] + args
    proc = subprocess.Popen(cmd, cwd=root, env=env, stdout=subprocess.PIPE,
                            stderr=subprocess.STDOUT)
    out, _ = proc.communicate()
    out = out.decode("utf-8", "replace")
    print("#" * 70)
    print("RUN", label, " ".join(args))
    print("returncode:", proc.returncode)
    emit("stdout", normalise(out, root))
    results = {}
    for name in outputs:
        path = os.path.join(root, name)
        if not os.path.exists(path):
            emit(name, "<missing>")
            continue
        with io.open(path, "r", encoding="utf-8") as f:
            content = f.read()
        results[name] = content
        emit(name, normalise(content, root))
    return results


def describe_json(text, root):
    """Parse the JSON report, print a canonical dump and read it back."""
    try:
        data = json.loads(text)
    except ValueError as e:
        print("JSON INVALID:", e.__class__.__name__)
        return
    canonical = json.dumps(data, indent=1, sort_keys=True, ensure_ascii=True)
    emit("json canonical", normalise(canonical, root))
    from behave.json_parser import JsonParser
    try:
        features = JsonParser().parse_features(data)
    except Exception as e:      # pylint: disable=broad-except
        print("READBACK:", e.__class__.__name__, e)
        return
    def loc(x):
        return (x.location.filename, x.location.line)

    for feature in features:
        print("READBACK feature", repr(feature.name), loc(feature),
              feature.tags)
        if feature.background:
            print("   background", repr(feature.background.name),
                  [(s.name, s.status.name) for s in feature.background.steps])
        for scenario in feature.scenarios:
            print("   scenario", repr(scenario.name), loc(scenario),
                  scenario.tags)
            for step in scenario.steps:
                print("      step", step.keyword, repr(step.name),
                      step.status.name, repr(step.error_message),
                      repr(step.text),
                      step.table and (step.table.headings,
                                      [list(r) for r in step.table.rows]))


COMMON = ["--no-color", "--no-summary"]
RUNS = [
    ("all-formatters",
     ["-f", "json.pretty", "-o", "out.json", "-f", "plain", "-o", "plain.txt",
      "-f", "progress", "-o", "p1.txt", "-f", "progress2", "-o", "p2.txt",
      "-f", "progress3", "-o", "p3.txt", "-f", "pretty", "-o", "pretty.txt",
      "-f", "rec_formatter:RecordingFormatter", "-o", "rec.txt",
      "--tags=~@skip", "features"],
     ["out.json", "plain.txt", "p1.txt", "p2.txt", "p3.txt", "pretty.txt",
      "rec.txt"]),
    ("reverse-order-show-skipped",
     ["-f", "rec_formatter:RecordingFormatter", "-o", "rec.txt",
      "-f", "progress3", "-o", "p3.txt", "-f", "plain", "-o", "plain.txt",
      "-f", "json", "-o", "out.json", "--tags=~@skip", "--show-skipped",
      "features"],
     ["out.json", "plain.txt", "p3.txt", "rec.txt"]),
    ("no-skipped-no-multiline-timings",
     ["-f", "json", "-o", "out.json", "-f", "plain", "-o", "plain.txt",
      "-f", "progress2", "-o", "p2.txt", "-f", "progress3", "-o", "p3.txt",
      "--tags=~@skip", "--no-skipped", "--no-multiline", "--show-timings",
      "features"],
     ["out.json", "plain.txt", "p2.txt", "p3.txt"]),
    ("dry-run",
     ["-f", "json.pretty", "-o", "out.json", "-f", "plain", "-o", "plain.txt",
      "-f", "progress3", "-o", "p3.txt",
      "-f", "rec_formatter:RecordingFormatter", "-o", "rec.txt",
      "--dry-run", "features"],
     ["out.json", "plain.txt", "p3.txt", "rec.txt"]),
    ("only-empty-feature",
     ["-f", "json", "-o", "out.json", "-f", "plain", "-o", "plain.txt",
      "-f", "progress3", "-o", "p3.txt", "features/empty.feature"],
     ["out.json", "plain.txt", "p3.txt"]),
    ("no-feature-selected",
     ["-f", "json", "-o", "out.json", "-f", "plain", "-o", "plain.txt",
      "--tags=@nonexistent", "--no-skipped", "features"],
     ["out.json", "plain.txt"]),
    ("stop-on-failure",
     ["-f", "json.pretty", "-o", "out.json", "-f", "plain", "-o", "plain.txt",
      "-f", "rec_formatter:RecordingFormatter", "-o", "rec.txt",
      "--stop", "features/basic.feature"],
     ["out.json", "plain.txt", "rec.txt"]),
    ("json-on-stdout",
     ["-f", "json", "features/rules.feature", "features/bgfail.feature"],
     []),
    ("colored-pretty",
     ["-f", "pretty", "-o", "pretty.txt", "-f", "json", "-o", "out.json",
      "--color", "features/rules.feature"],
     ["pretty.txt", "out.json"]),
]


def real_runs(root):
    for label, args, outputs in RUNS:
        use_common = [a for a in COMMON
                      if not (a == "--no-color" and "--color" in args)]
        results = run_behave(root, label, use_common + args, outputs)
        if "out.json" in results:
            describe_json(results["out.json"], root)


# ---------------------------------------------------------------------------
# DIRECT (IN-PROCESS) USE OF JsonParser
# ---------------------------------------------------------------------------
def dump_feature(feature, indent="   "):
    def loc(x):
        return (x.location.filename, x.location.line)

    print(indent, "feature", repr(feature.name), repr(feature.keyword),
          loc(feature), feature.tags, repr(feature.description))
    background = feature.background
    if background:
        print(indent, " background", repr(background.name),
              repr(background.keyword), loc(background),
              [(s.keyword, s.name, s.status.name) for s in background.steps])
    print(indent, " run_items", [type(x).__name__ for x in feature.run_items])
    for scenario in feature.scenarios:
        print(indent, " ", type(scenario).__name__, repr(scenario.name),
              repr(scenario.keyword), loc(scenario), scenario.tags,
              repr(scenario.description),
              scenario.feature is feature,
              getattr(scenario.background, "name", None))
        examples = getattr(scenario, "examples", None)
        if examples is not None:
            if isinstance(examples, list):
                print(indent, "    examples", repr(examples))
            else:
                print(indent, "    examples", type(examples).__name__,
                      repr(examples.keyword), repr(examples.name),
                      loc(examples), examples.table and
                      (examples.table.headings,
                       [list(r) for r in examples.table.rows]))
        for step in scenario.steps:
            print(indent, "    step", step.keyword, step.step_type,
                  repr(step.name), loc(step), step.status.name,
                  step.duration, repr(step.error_message), repr(step.text),
                  step.table and (step.table.headings,
                                  [list(r) for r in step.table.rows]))


def direct_json_parser():
    from behave import json_parser
    from behave.json_parser import JsonParser

    print("#" * 70)
    print("DIRECT JsonParser")

    def step(name, **kwargs):
        data = {"keyword": "Given", "step_type": "given", "name": name,
                "location": "x.feature:9"}
        data.update(kwargs)
        return data

    def element(type_, name, **kwargs):
        data = {"keyword": "K", "name": name, "location": "x.feature:3",
                "steps": [step("s-" + name)]}
        if type_ is not Ellipsis:
            data["type"] = type_
        data.update(kwargs)
        return data

    def feature(*elements, **kwargs):
        data = {"keyword": "Feature", "name": "F", "tags": ["a"],
                "location": "x.feature:1", "status": "passed"}
        if elements:
            data["elements"] = list(elements)
        data.update(kwargs)
        return data

    class LoggingParser(JsonParser):
        """Subclass that overrides the parse hooks (must still be used)."""
        def __init__(self):
            super(LoggingParser, self).__init__()
            self.log = []

        def parse_background(self, json_element):
            self.log.append(("parse_background", json_element.get("name")))
            return super(LoggingParser, self).parse_background(json_element)

        def parse_scenario(self, json_element):
            self.log.append(("parse_scenario", json_element.get("name")))
            return super(LoggingParser, self).parse_scenario(json_element)

        def parse_scenario_outline(self, json_element):
            self.log.append(("parse_scenario_outline",
                             json_element.get("name")))
            return super(LoggingParser, self).parse_scenario_outline(
                json_element)

        def parse_steps(self, json_steps):
            self.log.append(("parse_steps", len(json_steps)))
            return super(LoggingParser, self).parse_steps(json_steps)

    result_ok = {"status": "failed", "duration": 1.5,
                 "error_message": ["a", "b"]}
    table = {"headings": ["h"], "rows": [["1"], ["2"]]}
    CASES = [
        ("empty-list", []),
        ("feature-no-elements", [feature()]),
        ("feature-empty-elements", [feature(elements=[])]),
        ("all-kinds", [feature(
            element("background", "bg"),
            element("scenario", "s1", tags=["t1"], description=["d"]),
            element("scenario_outline", "so1", tags=["t2"]),
            element("scenario", "s2",
                    steps=[step("x", result=result_ok, text=["l1", "l2"],
                                table=table),
                           step("y", result={"status": "passed"},
                                text="plain"),
                           step("z")]),
        )]),
        ("case-insensitive", [feature(
            element("Background", "bg"),
            element("SCENARIO", "s1"),
            element("Scenario_Outline", "so1"),
            element("sCeNaRiO", "s2"),
        )]),
        ("two-backgrounds-last-wins", [feature(
            element("background", "bg1"),
            element("scenario", "s1"),
            element("background", "bg2"),
            element("scenario", "s2"),
        )]),
        ("two-outlines", [feature(
            element("scenario_outline", "so1"),
            element("scenario_outline", "so2"),
        )]),
        ("outline-with-examples-list", [feature(
            element("scenario_outline", "so1",
                    examples=[{"keyword": "Examples", "name": "E",
                               "location": "x.feature:20", "table": table}]),
        )]),
        ("outline-with-examples-dict", [feature(
            element("scenario_outline", "so1",
                    examples={"keyword": "Examples", "name": "E",
                              "location": "x.feature:20", "table": table}),
        )]),
        ("type-examples", [feature(element("scenario", "s1"),
                                   element("examples", "e"))]),
        ("type-rule", [feature(element("scenario", "s1"),
                               element("rule", "r"),
                               element("scenario", "s2"))]),
        ("type-empty", [feature(element("", "e"))]),
        ("type-missing", [feature(element(Ellipsis, "e"))]),
        ("type-with-space", [feature(element("scenario outline", "e"))]),
        ("type-padded", [feature(element(" scenario", "e"))]),
        ("type-unicode", [feature(element(u"sz\u00e9nario", "e"))]),
        ("type-none", [feature(element(None, "e"))]),
        ("type-int", [feature(element(5, "e"))]),
        ("type-list", [feature(element(["scenario"], "e"))]),
        ("element-not-dict", [feature("scenario")]),
        ("bad-location-in-scenario", [feature(
            element("scenario", "s1", location="nocolon"))]),
        ("bad-location-in-background", [feature(
            element("background", "bg", location="a:b:c"))]),
        ("bad-status", [feature(
            element("scenario", "s1",
                    steps=[step("x", result={"status": "bogus"})]))]),
        ("second-feature-after-error", [
            feature(element("scenario", "s1")),
            feature(element("unknown", "u")),
        ]),
        ("not-a-list", {"keyword": "Feature"}),
    ]
    for label, data in CASES:
        for cls in (JsonParser, LoggingParser):
            parser = cls()
            print("CASE", label, cls.__name__)
            try:
                features = parser.parse_features(data)
            except Exception as e:      # pylint: disable=broad-except
                print("    raised", e.__class__.__name__, "|", e, "|",
                      repr(e.args))
                features = []
            for feature_ in features:
                dump_feature(feature_)
            outline = parser.current_scenario_outline
            print("    current_scenario_outline:",
                  outline and (type(outline).__name__, outline.name))
            if hasattr(parser, "log"):
                print("    log:", parser.log)

    # -- add_feature_element() directly: return value and feature mutation.
    from behave.model import Feature
    parser = JsonParser()
    target = Feature("y.feature", 1, u"Feature", u"Y")
    for type_ in ("background", "scenario", "scenario_outline", "nope"):
        try:
            value = parser.add_feature_element(target, element(type_, type_))
            print("add_feature_element", type_, "->", repr(value))
        except Exception as e:      # pylint: disable=broad-except
            print("add_feature_element", type_, "raised",
                  e.__class__.__name__, "|", e)
        print("    scenarios:", [s.name for s in target.scenarios],
              "background:", getattr(target.background, "name", None),
              "outline:", getattr(parser.current_scenario_outline, "name",
                                  None))

    # -- MODULE FUNCTION: parse(filename)
    tmpdir = tempfile.mkdtemp(prefix="c15twin_json_")
    try:
        for label, data in CASES[:6]:
            filename = os.path.join(tmpdir, "data.json")
            with io.open(filename, "w", encoding="utf-8") as f:
                f.write(json.dumps(data, ensure_ascii=False))
            try:
                features = json_parser.parse(filename)
                print("parse()", label, "->", len(features))
                for feature_ in features:
                    dump_feature(feature_)
            except Exception as e:      # pylint: disable=broad-except
                print("parse()", label, "raised", e.__class__.__name__, "|", e)
    finally:
        shutil.rmtree(tmpdir, ignore_errors=True)


def main():
    root = make_tree()
    try:
        real_runs(root)
    finally:
        shutil.rmtree(root, ignore_errors=True)
    direct_json_parser()


if __name__ == "__main__":
    main()
