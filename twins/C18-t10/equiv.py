# -*- coding: UTF-8 -*-
"""
Equivalence transcript for property C18 (output capture isolates step output
and always restores the real streams).

PART A: in-process exercise of behave.capture / behave.log_capture
PART B: child-process runs of "python -m behave" on a generated project
        (8 capture-switch combinations x several option sets x 2 features).

Prints a canonical transcript (paths, line numbers, timings normalised).
"""
from __future__ import absolute_import, print_function
import sys
WORKTREE = "/tmp/wtV/C18"
sys.path.insert(0, WORKTREE)

import itertools
import json
import logging
import os
import re
import shutil
import subprocess
import tempfile

from behave import capture as capture_module
from behave import log_capture as log_capture_module
from behave.capture import Captured, CaptureController, capture_output
from behave.log_capture import LoggingCapture, RecordFilter

OUT = []


def emit(*parts):
    OUT.append(u" ".join(u"%s" % (p,) for p in parts))


# ---------------------------------------------------------------------------
# PART A: in-process
# ---------------------------------------------------------------------------
class Config(object):
    def __init__(self, **kwargs):
        self.stdout_capture = True
        self.stderr_capture = True
        self.log_capture = True
        self.logging_format = None
        self.logging_datefmt = None
        self.logging_level = None
        self.logging_filter = None
        self.logging_clear_handlers = False
        for name, value in kwargs.items():
            setattr(self, name, value)


class Ctx(object):
    pass


class NamedHandler(logging.Handler):
    def __init__(self, name):
        logging.Handler.__init__(self)
        self.label = name
        self.seen = []

    def emit(self, record):
        self.seen.append(record.getMessage())

    def __repr__(self):
        return "<NamedHandler %s>" % self.label


def describe_handler(handler):
    if isinstance(handler, LoggingCapture):
        return "LoggingCapture"
    if isinstance(handler, NamedHandler):
        return "Named(%s)" % handler.label
    return handler.__class__.__name__


def root_state():
    root = logging.getLogger()
    return "handlers=[%s] level=%s" % (
        ",".join(describe_handler(h) for h in root.handlers), root.level)


def logger_state(name):
    logger = logging.getLogger(name)
    return "%s.handlers=[%s]" % (
        name, ",".join(describe_handler(h) for h in logger.handlers))


def reset_logging():
    root = logging.getLogger()
    root.handlers[:] = []
    root.setLevel(logging.WARNING)
    for name in ("app", "app.sub", "other"):
        logger = logging.getLogger(name)
        logger.handlers[:] = []
        logger.setLevel(logging.NOTSET)
        logger.propagate = True


def stream_name(stream, real_out, real_err, controller):
    if stream is real_out:
        return "REAL-OUT"
    if stream is real_err:
        return "REAL-ERR"
    if stream is controller.stdout_capture:
        return "CAPTURE-OUT"
    if stream is controller.stderr_capture:
        return "CAPTURE-ERR"
    return "OTHER"


def describe_captured(captured):
    return "stdout=%r stderr=%r log=%r bool=%s output=%r report=%r" % (
        captured.stdout, captured.stderr, captured.log_output,
        bool(captured), captured.output, captured.make_report())


def try_call(label, func, *args, **kwargs):
    try:
        result = func(*args, **kwargs)
        emit("  %s -> ok %r" % (label, result))
        return result
    except BaseException as e:  # pylint: disable=broad-except
        emit("  %s -> %s: %s" % (label, e.__class__.__name__, e))
        return None


def part_a_controller():
    emit("== A1: CaptureController lifecycle, 8 switch combinations")
    real_out, real_err = sys.stdout, sys.stderr
    for flags in itertools.product([True, False], repeat=3):
        for clear_handlers in (False, True):
            reset_logging()
            pre = NamedHandler("pre-root")
            logging.getLogger().addHandler(pre)
            logging.getLogger().setLevel(35)
            app_handler = NamedHandler("pre-app")
            logging.getLogger("app").addHandler(app_handler)
            config = Config(stdout_capture=flags[0], stderr_capture=flags[1],
                            log_capture=flags[2],
                            logging_clear_handlers=clear_handlers)
            emit("-- flags out=%s err=%s log=%s clear=%s" %
                 (flags + (clear_handlers,)))
            controller = CaptureController(config)
            context = Ctx()
            emit("  captured.initial:", describe_captured(controller.captured))
            try:
                controller.setup_capture(context)
                emit("  context.attrs:", sorted(context.__dict__.keys()))
                emit("  same.buffers:",
                     getattr(context, "stdout_capture", None) is controller.stdout_capture,
                     getattr(context, "stderr_capture", None) is controller.stderr_capture,
                     getattr(context, "log_capture", None) is controller.log_capture)
                emit("  after.setup:", root_state(), logger_state("app"))
                emit("  old:", controller.old_stdout is None, controller.old_stderr is None)
                for round_no in (1, 2):
                    controller.start_capture()
                    emit("  start#%d:" % round_no,
                         stream_name(sys.stdout, real_out, real_err, controller),
                         stream_name(sys.stderr, real_out, real_err, controller),
                         "old_out=%s" % stream_name(controller.old_stdout, real_out, real_err, controller),
                         "old_err=%s" % stream_name(controller.old_stderr, real_out, real_err, controller))
                    # -- NESTED start (like a second start without stop).
                    controller.start_capture()
                    emit("  start#%d.again:" % round_no,
                         stream_name(sys.stdout, real_out, real_err, controller),
                         stream_name(sys.stderr, real_out, real_err, controller))
                    if sys.stdout is not real_out:
                        sys.stdout.write(u"out-%d\n" % round_no)
                    if sys.stderr is not real_err:
                        sys.stderr.write(u"err-%d\n" % round_no)
                    logging.getLogger("app").error("log-%d", round_no)
                    logging.getLogger("other").info("info-%d", round_no)
                    controller.stop_capture()
                    emit("  stop#%d:" % round_no,
                         stream_name(sys.stdout, real_out, real_err, controller),
                         stream_name(sys.stderr, real_out, real_err, controller),
                         controller.old_stdout is None, controller.old_stderr is None)
                    controller.stop_capture()
                    emit("  stop#%d.again:" % round_no,
                         stream_name(sys.stdout, real_out, real_err, controller),
                         stream_name(sys.stderr, real_out, real_err, controller))
                    emit("  captured#%d:" % round_no, describe_captured(controller.captured))
                    emit("  report#%d: %r" % (round_no, controller.make_capture_report()))
                try_call("teardown", controller.teardown_capture)
                emit("  after.teardown:", root_state(), logger_state("app"))
                emit("  pre.seen:", pre.seen, "app.seen:", app_handler.seen)
                # -- SECOND SCENARIO: new buffers.
                controller.setup_capture(context)
                emit("  captured.after.second.setup:", describe_captured(controller.captured))
                try_call("teardown2", controller.teardown_capture)
                emit("  after.teardown2:", root_state(), logger_state("app"))
            finally:
                sys.stdout, sys.stderr = real_out, real_err
    reset_logging()

    emit("== A2: start/stop without setup; teardown without setup")
    for flags in itertools.product([True, False], repeat=3):
        config = Config(stdout_capture=flags[0], stderr_capture=flags[1],
                        log_capture=flags[2])
        controller = CaptureController(config)
        emit("-- flags", flags)
        try:
            try_call("start", controller.start_capture)
            emit("  streams:", sys.stdout is real_out, sys.stderr is real_err,
                 controller.old_stdout is real_out, controller.old_stderr is real_err)
        finally:
            sys.stdout, sys.stderr = real_out, real_err
        try:
            try_call("stop", controller.stop_capture)
            emit("  streams:", sys.stdout is real_out, sys.stderr is real_err,
                 controller.old_stdout is None, controller.old_stderr is None)
        finally:
            sys.stdout, sys.stderr = real_out, real_err
        try_call("teardown", controller.teardown_capture)
        try_call("setup(None)", controller.setup_capture, None)

    emit("== A3: foreign stream installed while capturing")
    from six import StringIO
    config = Config(log_capture=False)
    controller = CaptureController(config)
    controller.setup_capture(Ctx())
    try:
        controller.start_capture()
        foreign = StringIO()
        sys.stdout = foreign
        try_call("start.with.foreign", controller.start_capture)
        try_call("stop.with.foreign", controller.stop_capture)
        emit("  streams:", sys.stdout is real_out, sys.stderr is real_err)
        sys.stdout = controller.stdout_capture
        try_call("stop.when.capture.stream.left", controller.stop_capture)
    finally:
        sys.stdout, sys.stderr = real_out, real_err

    emit("== A4: capture_output context manager")
    for enabled in (True, False):
        for raising in (None, ValueError, KeyboardInterrupt):
            controller = CaptureController(Config(log_capture=False))
            controller.setup_capture(Ctx())
            try:
                try:
                    with capture_output(controller, enabled=enabled):
                        inside = (sys.stdout is controller.stdout_capture,
                                  sys.stderr is controller.stderr_capture)
                        print("inside-%s" % enabled)
                        if raising:
                            raise raising("boom")
                    outcome = "no-exception"
                except BaseException as e:  # pylint: disable=broad-except
                    outcome = "%s:%s" % (e.__class__.__name__, e)
            finally:
                restored = (sys.stdout is real_out, sys.stderr is real_err)
                sys.stdout, sys.stderr = real_out, real_err
            emit("  enabled=%s raising=%s inside=%s outcome=%s restored=%s captured=%r" % (
                enabled, getattr(raising, "__name__", None), inside, outcome,
                restored, controller.captured.stdout))


def part_a_captured():
    emit("== A5: Captured arithmetic and reports")
    samples = [None, u"", u"a", u"a\n", u"line1\nline2", u"  padded  \n\n"]
    for out, err, log in itertools.product(samples[:4], samples[:3], [None, u"L", u"L\n"]):
        captured = Captured(out, err, log)
        emit("  C(%r,%r,%r): %s" % (out, err, log, describe_captured(captured)))
    for left, right in itertools.product(samples, repeat=2):
        one = Captured(left, right, left)
        two = Captured(right, left, right)
        total = one + two
        emit("  add(%r,%r): %s" % (left, right, describe_captured(total)))
        one += two
        emit("  iadd: same=%s" % (describe_captured(one) == describe_captured(total)))
        one.reset()
        emit("  reset: %s" % describe_captured(one))
    try_call("add(non-captured)", Captured(u"x").add, "text")
    for value, more, sep in itertools.product([u"", u"a", u"a\n", u"a;"],
                                              [u"", u"b"], [u"\n", u";", u"", None]):
        emit("  add_text_to(%r,%r,%r) = %r" % (
            value, more, sep, capture_module.add_text_to(value, more, sep)))


def part_a_logging():
    emit("== A6: LoggingCapture construction")
    configs = [
        Config(),
        Config(logging_format="%(name)s|%(levelname)s|%(message)s"),
        Config(logging_format="%(asctime)s %(message)s", logging_datefmt="DATE"),
        Config(logging_level=logging.ERROR),
        Config(logging_level=0),
        Config(logging_filter="app"),
        Config(logging_filter="app,other"),
        Config(logging_filter="-app"),
        Config(logging_filter="-app,other"),
        Config(logging_filter="app,-other,-x"),
    ]
    for index, config in enumerate(configs):
        for level in (None, logging.CRITICAL, 0):
            reset_logging()
            logging.getLogger().setLevel(27)
            handler = LoggingCapture(config, level=level)
            emit("-- config#%d level-arg=%s: level=%s filters=%d fmt=%r datefmt=%r bool=%s" % (
                index, level, handler.level, len(handler.filters),
                handler.formatter._fmt, handler.formatter.datefmt, bool(handler)))
            for flt in handler.filters:
                emit("  filter include=%s exclude=%s" % (sorted(flt.include), sorted(flt.exclude)))
            handler.inveigle()
            emit("  inveigled:", root_state(), "old_level=%s" % handler.old_level)
            logging.getLogger("app").warning("warn-app")
            logging.getLogger("app.sub").error("err-sub")
            logging.getLogger("other").critical("crit-other")
            logging.getLogger("other").debug("debug-other")
            logging.getLogger().info("info-root")
            emit("  value: %r" % handler.getvalue())
            emit("  bool=%s find(err)=%s find(^zzz)=%s any_errors=%s" % (
                bool(handler), handler.find_event("err"), handler.find_event("^zzz"),
                handler.any_errors()))
            handler.flush()
            emit("  after.flush.len=%d" % len(handler.buffer))
            handler.abandon()
            emit("  abandoned:", root_state(), "old_level=%s" % handler.old_level)
            handler.abandon()
            emit("  abandoned.twice:", root_state())
            handler.truncate()
            emit("  truncated: %r any_errors=%s" % (handler.getvalue(), handler.any_errors()))
    for names in ("", ",", "-", "a,,b"):
        try_call("RecordFilter(%r)" % names, lambda n=names: sorted(RecordFilter(n).include))

    emit("== A7: inveigle/abandon with pre-existing handlers")
    for clear_handlers in (False, True):
        for stale_count in (0, 1, 2):
            reset_logging()
            root = logging.getLogger()
            root.setLevel(15)
            pre1, pre2 = NamedHandler("r1"), NamedHandler("r2")
            root.addHandler(pre1)
            stale = [LoggingCapture(Config()) for _ in range(stale_count)]
            for item in stale:
                root.addHandler(item)
            root.addHandler(pre2)
            app1, app2, sub1 = NamedHandler("a1"), NamedHandler("a2"), NamedHandler("s1")
            logging.getLogger("app").addHandler(app1)
            logging.getLogger("app").addHandler(app2)
            logging.getLogger("app.sub").addHandler(sub1)
            logging.getLogger("placeholder.child")   # creates a PlaceHolder
            config = Config(logging_clear_handlers=clear_handlers, logging_level=25)
            handler = LoggingCapture(config)
            emit("-- clear=%s stale=%d" % (clear_handlers, stale_count))
            emit("  before:", root_state(), logger_state("app"), logger_state("app.sub"))
            handler.inveigle()
            emit("  inveigled:", root_state(), logger_state("app"), logger_state("app.sub"))
            old = sorted("%s:%s" % (lg.name, describe_handler(h))
                         for lg, h in handler.old_handlers)
            emit("  old_handlers(sorted)=%s old_level=%s" % (old, handler.old_level))
            root_old = ["%s" % describe_handler(h) for lg, h in handler.old_handlers
                        if lg is root]
            app_old = ["%s" % describe_handler(h) for lg, h in handler.old_handlers
                       if lg.name == "app"]
            emit("  old_handlers.root.order=%s app.order=%s" % (root_old, app_old))
            # -- NESTED second capture (as @capture decorator would do).
            second = LoggingCapture(config, level=logging.ERROR)
            second.inveigle()
            emit("  second.inveigled:", root_state(), "old_level=%s" % second.old_level)
            logging.getLogger("app").error("E1")
            logging.getLogger("app").warning("W1")
            second.abandon()
            emit("  second.abandoned:", root_state(), "value=%r" % second.getvalue())
            logging.getLogger("app.sub").error("E2")
            handler.abandon()
            emit("  abandoned:", root_state(), logger_state("app"), logger_state("app.sub"))
            emit("  value=%r" % handler.getvalue())
            emit("  seen: r1=%s r2=%s a1=%s a2=%s s1=%s" % (
                pre1.seen, pre2.seen, app1.seen, app2.seen, sub1.seen))
    reset_logging()

    emit("== A8: @capture decorator")
    from six import StringIO
    real_out = sys.stdout

    class DecoContext(object):
        config = Config()

    for variant in ("plain", "level", "raising", "silent"):
        reset_logging()
        logging.getLogger().setLevel(33)
        calls = []

        def hook(context, *args):
            calls.append(args)
            if variant != "silent":
                logging.getLogger("app").warning("deco-warning")
                logging.getLogger("app").error("deco-error")
            if variant == "raising":
                raise RuntimeError("hook-oops")

        if variant == "level":
            decorated = log_capture_module.capture(level=logging.ERROR)(hook)
        else:
            decorated = log_capture_module.capture(hook)
        sink = StringIO()
        sys.stdout = sink
        try:
            try:
                result = decorated(DecoContext(), "arg1", 2)
                outcome = "result=%r" % (result,)
            except Exception as e:  # pylint: disable=broad-except
                outcome = "%s:%s" % (e.__class__.__name__, e)
        finally:
            sys.stdout = real_out
        emit("  %s: %s calls=%s printed=%r %s" % (
            variant, outcome, calls, sink.getvalue(), root_state()))
    reset_logging()


# ---------------------------------------------------------------------------
# PART B: child processes
# ---------------------------------------------------------------------------
FEATURE_MAIN = u'''
Feature: Capture main

  Background:
    Given a step prints "BG"

  Scenario: S1 passes
    Given a step prints "S1a"
    When a step logs "S1b"
    Then a step prints "S1c"

  Scenario: S2 fails
    Given a step prints "S2a"
    When a step fails with "S2b"
    Then a step prints "S2c"

  Scenario: S3 raises
    Given a step prints "S3a"
    When a step raises "S3b"
    Then a step prints "S3c"

  Scenario: S4 nested failing
    Given a step prints "S4a"
    When a step executes nested steps failing "S4b"

  Scenario: S5 nested passing then failure
    When a step executes nested steps passing "S5a"
    Then a step fails with "S5b"

  Scenario: S5b nested failure that is swallowed
    When a step swallows a nested failure "S5c"
    Then a step prints "S5d"

  @hook_before_error
  Scenario: S6 before_step hook error
    Given a step prints "S6a"
    Then a step prints "S6b"

  @hook_after_error
  Scenario: S7 after_step hook error
    Given a step prints "S7a"
    Then a step prints "S7b"

  Scenario: S8 pending step
    Given a step prints "S8a"
    When a step is pending "S8b"

  @wip
  Scenario: S8w pending step in wip scenario
    When a step is pending "S8w"

  Scenario: S8n pending step without message
    When a step is pending without message

  Scenario: S9 undefined step
    Given a step prints "S9a"
    When an undefined step is used
    Then a step prints "S9c"

  Scenario: S10 bare assertion
    Given a step asserts without message "S10a"

  Scenario: S11 step skips scenario
    Given a step prints "S11a"
    When a step skips the scenario "S11b"
    Then a step prints "S11c"

  @scenario_hook_error
  Scenario: S12 before_scenario hook error
    Given a step prints "S12a"

  @skip_in_hook
  Scenario: S13 skipped by hook
    Given a step prints "S13a"

  Scenario: S14 changes logging in step
    Given a step adds a root handler and changes the level "S14a"
    Then a step fails with "S14b"

  Scenario: S15 step with text and table
    Given a step with text prints it
      """
      TEXT-S15
      """
    And a step with table prints it
      | name  |
      | ROW15 |

  Scenario: S16 passes last
    Given a step prints "S16a"
'''

FEATURE_KBD_STEP = u'''
Feature: Capture kbd in step

  Scenario: K1 passes
    Given a step prints "K1a"

  Scenario: K2 interrupted in step
    Given a step prints "K2a"
    When a step is interrupted "K2b"
    Then a step prints "K2c"

  Scenario: K3 not run
    Given a step prints "K3a"
'''

FEATURE_KBD_HOOK = u'''
Feature: Capture kbd in hook

  Scenario: H1 fails
    Given a step prints "H1a"
    When a step fails with "H1b"

  @hook_before_kbd
  Scenario: H2 interrupted in before_step hook
    Given a step prints "H2a"

  Scenario: H3 not run
    Given a step prints "H3a"
'''

FEATURE_KBD_AFTER_HOOK = u'''
Feature: Capture kbd in after hook

  @hook_after_kbd
  Scenario: G2 interrupted in after_step hook
    Given a step prints "G2a"

  Scenario: G3 not run
    Given a step prints "G3a"
'''

STEPS = u'''
# -*- coding: UTF-8 -*-
from __future__ import print_function
import logging
import sys
from behave import given, when, then, step
from behave.api.pending_step import StepNotImplementedError


def emit_all(marker):
    print("OUT:%s" % marker)
    sys.stderr.write("ERR:%s\\n" % marker)
    logging.getLogger("app").warning("LOGW:%s", marker)
    logging.getLogger("other").info("LOGI:%s", marker)
    logging.getLogger("app.sub").error("LOGE:%s", marker)


@step(u'a step prints "{marker}"')
def step_prints(context, marker):
    emit_all(marker)

@step(u'a step logs "{marker}"')
def step_logs(context, marker):
    logging.getLogger("app").critical("LOGC:%s", marker)
    logging.getLogger().debug("LOGD:%s", marker)

@step(u'a step fails with "{marker}"')
def step_fails(context, marker):
    emit_all(marker)
    assert False, "FAILED:%s" % marker

@step(u'a step raises "{marker}"')
def step_raises(context, marker):
    emit_all(marker)
    raise RuntimeError("RAISED:%s" % marker)

@step(u'a step asserts without message "{marker}"')
def step_bare_assert(context, marker):
    emit_all(marker)
    assert False

@step(u'a step is pending "{marker}"')
def step_pending(context, marker):
    emit_all(marker)
    raise StepNotImplementedError("PENDING:%s" % marker)

@step(u'a step is pending without message')
def step_pending_no_message(context):
    emit_all("S8n")
    raise StepNotImplementedError()

@step(u'a step is interrupted "{marker}"')
def step_interrupted(context, marker):
    emit_all(marker)
    raise KeyboardInterrupt()

@step(u'a step skips the scenario "{marker}"')
def step_skips(context, marker):
    emit_all(marker)
    context.scenario.skip("SKIP:%s" % marker)

@step(u'a step executes nested steps failing "{marker}"')
def step_nested_failing(context, marker):
    trace_streams = context.trace_streams
    emit_all(marker + ".before")
    trace_streams(context, "nested.before")
    try:
        context.execute_steps(u"""
            Given a step prints "{0}.n1"
            When a step fails with "{0}.n2"
            Then a step prints "{0}.n3"
        """.format(marker))
    finally:
        trace_streams(context, "nested.after")

@step(u'a step executes nested steps passing "{marker}"')
def step_nested_passing(context, marker):
    trace_streams = context.trace_streams
    emit_all(marker + ".before")
    context.execute_steps(u"""
        Given a step prints "{0}.n1"
        When a step logs "{0}.n2"
    """.format(marker))
    trace_streams(context, "nested.after")
    emit_all(marker + ".after")

@step(u'a step swallows a nested failure "{marker}"')
def step_nested_swallowed(context, marker):
    trace_streams = context.trace_streams
    try:
        context.execute_steps(u"""
            Given a step prints "{0}.n1"
            When a step raises "{0}.n2"
        """.format(marker))
    except AssertionError as e:
        print("SWALLOWED:%s" % str(e).splitlines()[0])
    trace_streams(context, "nested.swallowed")

@step(u'a step adds a root handler and changes the level "{marker}"')
def step_changes_logging(context, marker):
    emit_all(marker)
    root = logging.getLogger()
    handler = logging.NullHandler()
    handler.set_name("added-in-step")
    root.addHandler(handler)
    root.setLevel(logging.CRITICAL)
    emit_all(marker + ".after")

@step(u'a step with text prints it')
def step_text(context):
    print("OUT:%s" % context.text)

@step(u'a step with table prints it')
def step_table(context):
    print("OUT:%s" % context.table[0]["name"])
    assert False, "FAILED:table"
'''

ENVIRONMENT = u'''
# -*- coding: UTF-8 -*-
from __future__ import print_function
import json
import logging
import os
import sys

TRACE = []
REAL = {}


def stream_state(context):
    parts = []
    for name in ("stdout", "stderr"):
        stream = getattr(sys, name)
        if stream is REAL[name]:
            parts.append("real")
        elif stream is getattr(context, name + "_capture", None):
            parts.append("capture")
        else:
            parts.append("other")
    return "/".join(parts)


def handler_name(handler):
    name = handler.__class__.__name__
    if getattr(handler, "name", None):
        name += "(%s)" % handler.name
    return name


def logging_state():
    root = logging.getLogger()
    text = "root=[%s] level=%s" % (",".join(handler_name(h) for h in root.handlers), root.level)
    for name in ("app", "app.sub"):
        logger = logging.getLogger(name)
        text += " %s=[%s]" % (name, ",".join(handler_name(h) for h in logger.handlers))
    return text


def trace(text):
    TRACE.append(text)


def trace_streams(context, label):
    trace("%s: streams=%s" % (label, stream_state(context)))


def describe_captured(captured):
    if captured is None:
        return None
    return dict(stdout=captured.stdout, stderr=captured.stderr,
                log_output=captured.log_output)


def before_all(context):
    context.trace_streams = trace_streams
    REAL["stdout"] = sys.stdout
    REAL["stderr"] = sys.stderr
    userdata = context.config.userdata
    if userdata.get("root_handler") == "yes":
        handler = logging.StreamHandler(sys.stderr)
        handler.set_name("user-root")
        handler.setFormatter(logging.Formatter("USERROOT:%(name)s:%(message)s"))
        logging.getLogger().addHandler(handler)
        logging.getLogger().setLevel(35)
        app_handler = logging.StreamHandler(sys.stderr)
        app_handler.set_name("user-app")
        app_handler.setFormatter(logging.Formatter("USERAPP:%(name)s:%(message)s"))
        logging.getLogger("app").addHandler(app_handler)
        second = logging.NullHandler()
        second.set_name("user-app2")
        logging.getLogger("app").addHandler(second)
    print("OUT:before_all")
    trace("before_all: streams=%s %s" % (stream_state(context), logging_state()))


def before_feature(context, feature):
    print("OUT:before_feature")
    trace("before_feature: streams=%s %s" % (stream_state(context), logging_state()))


def before_scenario(context, scenario):
    print("OUT:before_scenario:%s" % scenario.name.split()[0])
    trace("before_scenario %s: streams=%s %s" % (scenario.name, stream_state(context), logging_state()))
    if "scenario_hook_error" in scenario.tags:
        raise RuntimeError("HOOKFAIL:before_scenario")
    if "skip_in_hook" in scenario.tags:
        scenario.skip("by hook")


def before_step(context, step):
    marker = "%s:%s" % (context.scenario.name.split()[0], step.name)
    print("OUT:before_step:%s" % marker)
    sys.stderr.write("ERR:before_step:%s\\n" % marker)
    logging.getLogger("hooks").warning("LOG:before_step:%s", marker)
    trace("before_step %s: streams=%s" % (marker, stream_state(context)))
    if "hook_before_error" in context.tags and step.name.endswith('a"'):
        raise RuntimeError("HOOKFAIL:before_step")
    if "hook_before_kbd" in context.tags:
        raise KeyboardInterrupt()


def after_step(context, step):
    marker = "%s:%s" % (context.scenario.name.split()[0], step.name)
    print("OUT:after_step:%s:%s" % (marker, step.status.name))
    sys.stderr.write("ERR:after_step:%s\\n" % marker)
    logging.getLogger("hooks").warning("LOG:after_step:%s", marker)
    trace("after_step %s: status=%s streams=%s" % (marker, step.status.name, stream_state(context)))
    if "hook_after_error" in context.tags and step.name.endswith('a"'):
        raise RuntimeError("HOOKFAIL:after_step")
    if "hook_after_kbd" in context.tags:
        raise KeyboardInterrupt()


def after_scenario(context, scenario):
    print("OUT:after_scenario:%s" % scenario.name.split()[0])
    trace("after_scenario %s: status=%s streams=%s %s" % (
        scenario.name, scenario.status.name, stream_state(context), logging_state()))
    trace("  runner.captured=%s" % json.dumps(
        describe_captured(context._runner.captured), sort_keys=True))


def after_feature(context, feature):
    trace("after_feature: streams=%s %s" % (stream_state(context), logging_state()))
    for scenario in feature.walk_scenarios():
        trace("RESULT scenario %s: status=%s captured=%s" % (
            scenario.name, scenario.status.name,
            json.dumps(describe_captured(scenario.captured), sort_keys=True)))
        trace("  scenario.error_message=%r" % (scenario.error_message,))
        for step in scenario.all_steps:
            trace("  step %s: status=%s hook_failed=%s captured=%s" % (
                step.name, step.status.name, step.hook_failed,
                json.dumps(describe_captured(getattr(step, "captured", None)), sort_keys=True)))
            trace("    error_message=%r" % (step.error_message,))


def after_all(context):
    trace("after_all: streams=%s aborted=%s %s" % (
        stream_state(context), context.aborted, logging_state()))
    with open(os.environ["C18_TRACE_FILE"], "w") as f:
        f.write("\\n".join(TRACE) + "\\n")
'''


def normalise(text, workdir):
    text = text.replace(workdir, "<TMP>")
    text = text.replace(os.path.realpath(workdir), "<TMP>")
    text = text.replace(WORKTREE, "<WT>")
    text = re.sub(r'File "[^"]*[/\\]lib[/\\]python[^"]*[/\\]([^"/\\]+)"', r'File "<PYLIB>/\1"', text)
    text = re.sub(r"line \d+", "line N", text)
    text = re.sub(r"\b\d+m\d+\.\d+s\b", "XmY.Zs", text)
    text = re.sub(r"\b\d+\.\d+s\b", "X.Ys", text)
    text = re.sub(r'time="[^"]*"', 'time="T"', text)
    text = re.sub(r'timestamp="[^"]*"', 'timestamp="TS"', text)
    text = re.sub(r'hostname="[^"]*"', 'hostname="H"', text)
    text = re.sub(r"0x[0-9a-fA-F]+", "0xADDR", text)
    text = re.sub(r"\^+\n", "^\n", text)
    return text


def part_b():
    workdir = tempfile.mkdtemp(prefix="c18equiv_")
    try:
        os.makedirs(os.path.join(workdir, "features", "steps"))
        features = [
            ("main.feature", FEATURE_MAIN),
            ("kbd_step.feature", FEATURE_KBD_STEP),
            ("kbd_hook.feature", FEATURE_KBD_HOOK),
            ("kbd_after_hook.feature", FEATURE_KBD_AFTER_HOOK),
        ]
        for name, text in features:
            with open(os.path.join(workdir, "features", name), "w") as f:
                f.write(text)
        with open(os.path.join(workdir, "features", "steps", "steps.py"), "w") as f:
            f.write(STEPS)
        with open(os.path.join(workdir, "features", "environment.py"), "w") as f:
            f.write(ENVIRONMENT)

        switch_sets = []
        for out, err, log in itertools.product([True, False], repeat=3):
            switches = []
            switches.append("--capture" if out else "--no-capture")
            switches.append("--capture-stderr" if err else "--no-capture-stderr")
            switches.append("--logcapture" if log else "--no-logcapture")
            switch_sets.append(switches)

        option_sets = [
            ("plain", ["-f", "plain"]),
            ("plain+userhandlers", ["-f", "plain", "-D", "root_handler=yes"]),
            ("plain+clear+filter+level",
             ["-f", "plain", "-D", "root_handler=yes", "--logging-clear-handlers",
              "--logging-filter=app,hooks,app.sub", "--logging-level=WARNING",
              "--logging-format=%(name)s/%(levelname)s/%(message)s"]),
            ("pretty+exclude-filter",
             ["-f", "pretty", "--no-color", "--logging-filter=-app",
              "--logging-level=ERROR"]),
        ]
        trace_file = os.path.join(workdir, "trace.txt")
        env = dict(os.environ)
        env["PYTHONPATH"] = WORKTREE
        env["C18_TRACE_FILE"] = trace_file
        env["PYTHONDONTWRITEBYTECODE"] = "1"
        env["PYTHONHASHSEED"] = "0"
        env.pop("COLUMNS", None)

        def run(label, args):
            if os.path.exists(trace_file):
                os.remove(trace_file)
            cmd = [sys.executable, "-m", "behave", "--no-color"] + args
            proc = subprocess.Popen(cmd, cwd=workdir, env=env,
                                    stdout=subprocess.PIPE, stderr=subprocess.PIPE)
            stdout, stderr = proc.communicate()
            emit("#" * 70)
            emit("## RUN %s: %s" % (label, " ".join(args)))
            emit("## returncode=%s" % proc.returncode)
            emit("## ---- real stdout")
            emit(normalise(stdout.decode("utf-8", "replace"), workdir))
            emit("## ---- real stderr")
            emit(normalise(stderr.decode("utf-8", "replace"), workdir))
            emit("## ---- trace")
            if os.path.exists(trace_file):
                with open(trace_file) as f:
                    emit(normalise(f.read(), workdir))
            else:
                emit("(no trace file)")

        for feature_name, _ in features:
            for opt_label, options in option_sets:
                if feature_name != "main.feature" and opt_label not in ("plain", "plain+clear+filter+level"):
                    continue
                for switches in switch_sets:
                    run("%s %s" % (feature_name, opt_label),
                        options + switches + ["features/" + feature_name])

        # -- EXTRA: junit (stores captured output always), stop, dry-run, wip.
        junit_dir = os.path.join(workdir, "reports")
        junit_arg = "reports"
        run("junit", ["-f", "plain", "--junit", "--junit-directory", junit_arg,
                      "features/main.feature"])
        for name in sorted(os.listdir(junit_dir)):
            with open(os.path.join(junit_dir, name)) as f:
                emit("## junit file %s" % name)
                emit(normalise(f.read(), workdir))
        run("junit+no-capture", ["-f", "plain", "--junit", "--junit-directory", junit_arg,
                                 "--no-capture", "--no-logcapture", "features/main.feature"])
        run("stop", ["-f", "plain", "--stop", "features/main.feature"])
        run("dry-run", ["-f", "plain", "--dry-run", "features/main.feature"])
        run("wip", ["--wip", "features/main.feature"])
        run("all-features", ["-f", "progress", "features/"])
        run("verbose-hook-errors", ["-f", "plain", "--verbose", "--tags=hook_before_error,hook_after_error",
                                    "features/main.feature"])
    finally:
        shutil.rmtree(workdir, ignore_errors=True)


def main():
    part_a_controller()
    part_a_captured()
    part_a_logging()
    part_b()
    text = u"\n".join(OUT) + u"\n"
    if sys.version_info[0] == 2:
        text = text.encode("utf-8")
    sys.stdout.write(text)


if __name__ == "__main__":
    main()
